"""Symbolic value wrappers and polymorphic operations.

Every operation here works on plain Python values (concrete evaluation: used by the replay
driver and the CPython cross-check under /venv/bin/python, where z3 is absent) and on the
symbolic wrappers below (used by the VC generator under python3-vt).

Encoding of Python assumed here (DESIGN.md 2.2):
  int    -> z3 Int (exact, unbounded)
  bool   -> z3 Bool
  bytes/bytearray/list[int]/list[bool]/str -> z3 Seq(Int) / Seq(Bool); for bytes every element read
            carries the fact 0 <= e < 256 (instantiated on access), every element written is
            range-checked by a safety obligation at construction.
  //, %  -> z3 div/mod; the divisor must be provably positive (safety obligation)
  &,|,^,<<,>> -> div/mod arithmetic with a constant operand (bit decomposition), exact.
"""
from __future__ import annotations

try:  # z3 is only present in the verifier interpreter
    import z3  # type: ignore
except Exception:  # pragma: no cover
    z3 = None


ENGINE = None  # the engine currently generating VCs (byte-range facts are instantiated into its PC)


class EngineError(Exception):
    """The function left the supported subset (verdict: undecided, never 'proved')."""


class Sym:
    __slots__ = ("t",)

    def __init__(self, t):
        self.t = t

    def __bool__(self):
        raise EngineError("symbolic value used as a concrete bool: %r" % (self,))

    def __hash__(self):
        return id(self)

    def __repr__(self):
        return "%s(%s)" % (type(self).__name__, self.t)


def is_sym(x):
    return isinstance(x, Sym)


def _zi(x):
    """to z3 Int term"""
    if isinstance(x, SInt):
        return x.t
    if isinstance(x, bool):
        return z3.IntVal(1 if x else 0)
    if isinstance(x, int):
        return z3.IntVal(x)
    if isinstance(x, SBool):
        return z3.If(x.t, z3.IntVal(1), z3.IntVal(0))
    raise EngineError("not an int: %r" % (x,))


def _zb(x):
    if isinstance(x, SBool):
        return x.t
    if isinstance(x, bool):
        return z3.BoolVal(x)
    raise EngineError("not a bool: %r" % (x,))


def _pow2(k):
    return 1 << k


class SInt(Sym):
    __slots__ = ()

    # arithmetic
    def __add__(self, o):
        if isinstance(o, (int, SInt, SBool)) and not isinstance(o, SSeq):
            return SInt(self.t + _zi(o))
        return NotImplemented

    __radd__ = lambda self, o: SInt(_zi(o) + self.t)

    def __sub__(self, o):
        return SInt(self.t - _zi(o))

    def __rsub__(self, o):
        return SInt(_zi(o) - self.t)

    def __mul__(self, o):
        if isinstance(o, (SSeq, bytes, str, list, tuple)):
            return NotImplemented
        return SInt(self.t * _zi(o))

    def __rmul__(self, o):
        if isinstance(o, (SSeq, bytes, str, list, tuple)):
            return NotImplemented
        return SInt(_zi(o) * self.t)

    def __neg__(self):
        return SInt(-self.t)

    def __pos__(self):
        return self

    def __floordiv__(self, o):
        return floordiv(self, o)

    def __rfloordiv__(self, o):
        return floordiv(o, self)

    def __mod__(self, o):
        return mod(self, o)

    def __rmod__(self, o):
        return mod(o, self)

    def __and__(self, o):
        return bitand(self, o)

    __rand__ = __and__

    def __or__(self, o):
        return bitor(self, o)

    __ror__ = __or__

    def __xor__(self, o):
        return bitxor(self, o)

    __rxor__ = __xor__

    def __lshift__(self, o):
        return shl(self, o)

    def __rlshift__(self, o):
        return shl(o, self)

    def __rshift__(self, o):
        return shr(self, o)

    def __rrshift__(self, o):
        return shr(o, self)

    def __invert__(self):
        return SInt(-self.t - 1)

    # comparisons
    def __lt__(self, o):
        return SBool(self.t < _zi(o))

    def __le__(self, o):
        return SBool(self.t <= _zi(o))

    def __gt__(self, o):
        return SBool(self.t > _zi(o))

    def __ge__(self, o):
        return SBool(self.t >= _zi(o))

    def __eq__(self, o):
        if o is None or isinstance(o, (bytes, str, list, tuple, SSeq)):
            return False
        return SBool(self.t == _zi(o))

    def __ne__(self, o):
        if o is None or isinstance(o, (bytes, str, list, tuple, SSeq)):
            return True
        return SBool(self.t != _zi(o))

    __hash__ = Sym.__hash__


class SBool(Sym):
    __slots__ = ()

    def __and__(self, o):
        if isinstance(o, (bool, SBool)):
            return SBool(z3.And(self.t, _zb(o)))
        return bitand(self, o)

    __rand__ = __and__

    def __or__(self, o):
        if isinstance(o, (bool, SBool)):
            return SBool(z3.Or(self.t, _zb(o)))
        return bitor(self, o)

    __ror__ = __or__

    def __invert__(self):
        # NOTE: logical not (contracts use ~ for negation); Python's ~True == -2 is never used by the FUCs
        return SBool(z3.Not(self.t))

    def __eq__(self, o):
        if isinstance(o, (bool, SBool)):
            return SBool(self.t == _zb(o))
        if isinstance(o, (int, SInt)):
            return SBool(_zi(self) == _zi(o))
        return False

    def __ne__(self, o):
        r = self.__eq__(o)
        return Not(r)

    # ints in disguise
    def __add__(self, o):
        return SInt(_zi(self) + _zi(o))

    __radd__ = __add__

    def __mul__(self, o):
        return SInt(_zi(self) * _zi(o))

    __rmul__ = __mul__

    __hash__ = Sym.__hash__


# element kinds: 'byte' (0..255, python int), 'int', 'bool', 'char' (code point)
# python kinds: 'bytes', 'bytearray', 'list', 'str', 'tuple'
class SSeq(Sym):
    """origin = (base SSeq, offset, length): this sequence is base[offset:offset+length] (in range);
    element access and length are then expressed over the base (spares the seq solver nth-over-extract)."""

    __slots__ = ("elem", "py", "origin")

    def __init__(self, t, elem, py, origin=None):
        self.t = t
        self.elem = elem
        self.py = py
        self.origin = origin

    def with_py(self, py):
        return SSeq(self.t, self.elem, py, self.origin)

    def __add__(self, o):
        return concat(self, o)

    def __radd__(self, o):
        return concat(o, self)

    def __getitem__(self, i):
        return getitem(self, i)

    def __eq__(self, o):
        return seq_eq(self, o)

    def __ne__(self, o):
        return Not(seq_eq(self, o))

    def __mul__(self, o):
        raise EngineError("sequence repetition of a symbolic sequence")

    def __len__(self):
        raise EngineError("len() of a symbolic sequence: use L()")

    __hash__ = Sym.__hash__


class SOpq(Sym):
    """Opaque value of the uninterpreted sort V (abstract mode)."""

    __slots__ = ()

    def __eq__(self, o):
        if isinstance(o, SOpq):
            return SBool(self.t == o.t)
        return SBool(self.t == box(o).t)

    def __ne__(self, o):
        return Not(self.__eq__(o))

    __hash__ = Sym.__hash__


# ----------------------------------------------------------------------------------------------
# sorts / constructors
_VSORT = None
_uf_cache = {}


def vsort():
    global _VSORT
    if _VSORT is None:
        _VSORT = z3.DeclareSort("V")
    return _VSORT


def uf(name, *sorts):
    key = (name,) + tuple(str(s) for s in sorts)
    f = _uf_cache.get(key)
    if f is None:
        f = z3.Function(name, *sorts)
        _uf_cache[key] = f
    return f


def seq_sort(elem):
    if elem == "bool":
        return z3.SeqSort(z3.BoolSort())
    if elem in ("str", "bytes_elem"):
        return z3.SeqSort(z3.SeqSort(z3.IntSort()))  # list of strings / list of byte strings
    if elem == "opq":
        return z3.SeqSort(vsort())  # list of opaque values (abstract mode)
    return z3.SeqSort(z3.IntSort())


def fresh_int(name):
    return SInt(z3.Int(name))


def fresh_bool(name):
    return SBool(z3.Bool(name))


def fresh_seq(name, elem="byte", py="bytes"):
    return SSeq(z3.Const(name, seq_sort(elem)), elem, py)


def fresh_opq(name):
    return SOpq(z3.Const(name, vsort()))


_NONE_V = None


def none_v():
    global _NONE_V
    if _NONE_V is None:
        _NONE_V = SOpq(z3.Const("None!V", vsort()))
    return _NONE_V


def box(x):
    """inject a typed value into the opaque sort"""
    if isinstance(x, SOpq):
        return x
    if x is None:
        return none_v()
    if isinstance(x, (bool, SBool)):
        return SOpq(uf("box_bool", z3.BoolSort(), vsort())(_zb(x)))
    if isinstance(x, (int, SInt)):
        return SOpq(uf("box_int", z3.IntSort(), vsort())(_zi(x)))
    if isinstance(x, (bytes, bytearray, str, SSeq, list, tuple)):
        try:
            s = to_seq(x)
        except EngineError:
            s = None
        if s is not None and s.elem != "bool":
            return SOpq(uf("box_seq_" + s.py, seq_sort(s.elem), vsort())(s.t))
    raise EngineError("cannot box %r" % (x,))


def elem_kind_of(pyval):
    if isinstance(pyval, (bytes, bytearray)):
        return "byte", type(pyval).__name__
    if isinstance(pyval, str):
        return "char", "str"
    if isinstance(pyval, (list, tuple)):
        py = "list" if isinstance(pyval, list) else "tuple"
        if len(pyval) == 0:
            return "int", py
        if all(isinstance(e, str) or (isinstance(e, SSeq) and e.py == "str") for e in pyval):
            return "str", py
        if all(isinstance(e, SOpq) for e in pyval):
            return "opq", py
        if all(isinstance(e, (bool, SBool)) for e in pyval):
            return "bool", py
        if all(isinstance(e, (int, SInt, SBool)) for e in pyval):
            return "int", py
        raise EngineError("heterogeneous list cannot become a sequence: %r" % (pyval,))
    raise EngineError("not a sequence: %r" % (pyval,))


def to_seq(x, elem=None, py=None):
    """coerce a concrete python sequence (possibly holding symbolic elements) to SSeq"""
    if isinstance(x, SSeq):
        return x
    k, p = elem_kind_of(x)
    if elem is not None:
        k = elem
    if py is not None:
        p = py
    srt = seq_sort(k)
    if isinstance(x, str):
        items = [z3.IntVal(ord(c)) for c in x]
    elif k == "str":
        items = [to_seq(e).t for e in x]
    elif k == "opq":
        items = [box(e).t for e in x]
    elif k == "bool":
        items = [_zb(e) for e in x]
    else:
        items = [_zi(e) for e in x]
    if len(items) == 0:
        t = z3.Empty(srt)
    elif len(items) == 1:
        t = z3.Unit(items[0])
    else:
        t = z3.Concat(*[z3.Unit(i) for i in items])
    return SSeq(t, k, p)


# ----------------------------------------------------------------------------------------------
# polymorphic helpers usable in contracts and spec functions


def L(x):
    """len()"""
    if isinstance(x, SSeq):
        if x.origin is not None:
            return x.origin[2]
        return SInt(z3.Length(x.t))
    return len(x)


def ite(c, a, b):
    if isinstance(c, SBool):
        if isinstance(a, (SSeq, bytes, bytearray, str, list, tuple)) or isinstance(b, (SSeq, bytes, bytearray, str, list, tuple)):
            sa, sb = to_seq(a), to_seq(b)
            return SSeq(z3.If(c.t, sa.t, sb.t), sa.elem, sa.py)
        if isinstance(a, (bool, SBool)) and isinstance(b, (bool, SBool)):
            return SBool(z3.If(c.t, _zb(a), _zb(b)))
        if isinstance(a, SOpq) or isinstance(b, SOpq):
            return SOpq(z3.If(c.t, box(a).t, box(b).t))
        return SInt(z3.If(c.t, _zi(a), _zi(b)))
    return a if c else b


def And(*xs):
    xs = [x for x in xs if x is not True]
    if any(x is False for x in xs):
        return False
    if not xs:
        return True
    if len(xs) == 1:
        return xs[0]
    return SBool(z3.And(*[_zb(x) for x in xs]))


def Or(*xs):
    xs = [x for x in xs if x is not False]
    if any(x is True for x in xs):
        return True
    if not xs:
        return False
    if len(xs) == 1:
        return xs[0]
    return SBool(z3.Or(*[_zb(x) for x in xs]))


def Not(x):
    if isinstance(x, SBool):
        return SBool(z3.Not(x.t))
    if isinstance(x, bool):
        return not x
    if isinstance(x, int) and x == 0:
        return True  # the unspecified value of an out-of-range access to an EMPTY concrete list (see nth): guarded by the caller
    raise EngineError("Not of non-bool %r" % (x,))


def Implies(a, b):
    return Or(Not(a), b)


def Iff(a, b):
    if isinstance(a, bool) and isinstance(b, bool):
        return a == b
    return SBool(_zb(a) == _zb(b))


def eq(a, b):
    """Python == on values of the modelled types"""
    if a is None or b is None:
        if a is None and b is None:
            return True
        other = b if a is None else a
        if isinstance(other, SOpq):
            return SBool(other.t == none_v().t)
        return False
    if isinstance(a, SOpq) or isinstance(b, SOpq):
        return SBool(box(a).t == box(b).t)
    if isinstance(a, (SSeq, bytes, bytearray, str, list, tuple)) and isinstance(b, (SSeq, bytes, bytearray, str, list, tuple)):
        if not is_sym(a) and not is_sym(b):
            if isinstance(a, (list, tuple)) and isinstance(b, (list, tuple)):
                if type(a) is not type(b) and not (isinstance(a, (list,)) and isinstance(b, (list,))):
                    pass
                if len(a) != len(b):
                    return False
                return And(*[eq(x, y) for x, y in zip(a, b)])
            if isinstance(a, (bytes, bytearray)) and isinstance(b, (bytes, bytearray)):
                return bytes(a) == bytes(b)
            if isinstance(a, str) and isinstance(b, str):
                return a == b
            return False
        return seq_eq(a, b)
    if isinstance(a, (SSeq, bytes, bytearray, str, list, tuple)) or isinstance(b, (SSeq, bytes, bytearray, str, list, tuple)):
        return False
    if is_sym(a) or is_sym(b):
        if isinstance(a, (bool, SBool)) and isinstance(b, (bool, SBool)):
            return SBool(_zb(a) == _zb(b))
        return SBool(_zi(a) == _zi(b))
    return a == b


def ne(a, b):
    return Not(eq(a, b))


def _py_group(p):
    return {"bytes": "b", "bytearray": "b", "str": "s", "list": "l", "tuple": "t"}[p]


def _coerce_pair(a, b):
    """to_seq both operands; a concrete empty sequence takes the element sort of the other side"""
    if not is_sym(a) and len(a) == 0 and isinstance(b, SSeq):
        return SSeq(z3.Empty(b.t.sort()), b.elem, b.py), b
    if not is_sym(b) and len(b) == 0 and isinstance(a, SSeq):
        return a, SSeq(z3.Empty(a.t.sort()), a.elem, a.py)
    return to_seq(a), to_seq(b)


def seq_eq(a, b):
    sa, sb = _coerce_pair(a, b)
    if _py_group(sa.py) != _py_group(sb.py):
        # bytes vs bytearray compare equal by content in Python; list vs tuple / bytes vs str never
        return False
    if (sa.elem == "bool") != (sb.elem == "bool"):
        raise EngineError("comparison of bool list with int list")
    return SBool(sa.t == sb.t)


def concat(a, b):
    if not is_sym(a) and not is_sym(b):
        return a + b
    sa, sb = _coerce_pair(a, b)
    if (sa.elem == "bool") != (sb.elem == "bool"):
        raise EngineError("concat of bool list with int list")
    return SSeq(z3.Concat(sa.t, sb.t), sa.elem, sa.py)


def known(f, timeout_ms=80):
    """cheap entailment test against the current engine's path condition (False = not known)"""
    f = simplify_bool(f)
    if isinstance(f, bool):
        return f
    if ENGINE is None:
        return False
    return ENGINE.prove_now(f, timeout_ms=timeout_ms)


def _clamp_index(i, n):
    """Python slice index normalisation: negative -> +len, then clamp to [0, len]"""
    if i is None:
        return None
    if not is_sym(i) and not is_sym(n):
        if i < 0:
            i += n
        return max(0, min(i, n))
    if not is_sym(i) and i == 0:
        return 0
    if known(i >= 0):
        i2 = i
        lower_ok = True
    elif known(i < 0):
        i2 = i + n
        lower_ok = known(i2 >= 0)
    else:
        i2 = ite(lt(i, 0), i + n, i)
        lower_ok = False
    upper_ok = known(i2 <= n)
    if lower_ok and upper_ok:
        return i2
    if lower_ok:
        return ite(gt(i2, n), n, i2)
    if upper_ok:
        return ite(lt(i2, 0), 0, i2)
    return ite(lt(i2, 0), 0, ite(gt(i2, n), n, i2))


def lt(a, b):
    r = a < b
    return r


def gt(a, b):
    return a > b


def getitem(s, i):
    if isinstance(i, slice):
        return slice_(s, i.start, i.stop, i.step)
    return nth(s, i)


def nth(s, i):
    """element access WITHOUT bounds check (the engine emits the safety obligation)."""
    if not is_sym(s) and not is_sym(i):
        if -len(s) <= i < len(s):
            return s[i]
        # out of range: unspecified value (contract clauses guard such accesses)
        return False if (len(s) > 0 and isinstance(s[0], bool)) else 0
    ss = to_seq(s)
    if not is_sym(i) and i < 0:
        i = L(ss) + i
    if ss.origin is not None:
        base, off, _ln = ss.origin
        return nth(base, off + i)
    # nth over a concatenation: resolve the part when the path condition decides it
    if ENGINE is not None and z3.is_app_of(ss.t, z3.Z3_OP_SEQ_CONCAT):
        r = _nth_concat(ss, i)
        if r is not None:
            return r
    e = ss.t[_zi(i)]
    if ENGINE is not None:
        if ss.elem == "byte":
            # type invariant of bytes objects, instantiated at the access (once per term)
            ENGINE.byte_fact(e)
        ENGINE.on_nth(ss, i)
    if ss.elem == "bool":
        return SBool(e)
    if ss.elem == "str":
        return SSeq(e, "char", "str")
    if ss.elem == "opq":
        return SOpq(e)
    return SInt(e)


def _flatten_concat(t):
    if z3.is_app_of(t, z3.Z3_OP_SEQ_CONCAT):
        out = []
        for ch in t.children():
            out.extend(_flatten_concat(ch))
        return out
    return [t]


LAZY_NTH = False


class lazy_nth:
    """context manager: inside it, element accesses at symbolic offsets of concatenations are left to the back end
    instead of being located with solver queries during VC generation (a pure performance choice)"""

    def __enter__(self):
        global LAZY_NTH
        self.prev = LAZY_NTH
        LAZY_NTH = True

    def __exit__(self, *a):
        global LAZY_NTH
        LAZY_NTH = self.prev


def _nth_concat(ss, i):
    r = _nth_concat_abs(ss, i)
    if r is None and is_sym(i) and not LAZY_NTH and getattr(getattr(ENGINE, "contract", None), "strong_known_ms", 0):
        r = _nth_concat_guess(ss, i)
    return r


def _nth_concat_guess(ss, i):
    """locate a symbolic offset inside a concatenation by guessing the part from a model of the path condition and
    then PROVING (full solver) that the offset lies in that part under the whole path condition"""
    eng = ENGINE
    if not hasattr(eng, "model_of_pc"):
        return None
    ms = int(eng.contract.strong_known_ms)
    m = eng.model_of_pc(ms)
    if m is None:
        return None
    parts = _flatten_concat(ss.t)
    try:
        iv = m.eval(_zi(i), model_completion=True).as_long()
    except Exception:
        return None
    off_t = 0
    off_v = 0
    for part in parts:
        P = SSeq(part, ss.elem, ss.py)
        unit = z3.is_app_of(part, z3.Z3_OP_SEQ_UNIT)
        ln_t = 1 if unit else L(P)
        try:
            ln_v = 1 if unit else m.eval(z3.Length(part), model_completion=True).as_long()
        except Exception:
            return None
        if off_v <= iv < off_v + ln_v:
            rel = i - off_t
            if eng.prove_strong(And(rel >= 0, rel < ln_t), ms):
                if unit:
                    e = part.arg(0)
                    if ss.elem == "str":
                        return SSeq(e, "char", "str")
                    if ss.elem == "opq":
                        return SOpq(e)
                    return SBool(e) if ss.elem == "bool" else SInt(e)
                return nth(P, rel)
            return None
        off_t = off_t + ln_t
        off_v += ln_v
    return None


def _nth_concat_abs(ss, i):
    parts = _flatten_concat(ss.t)
    off = 0
    for n, part in enumerate(parts):
        P = SSeq(part, ss.elem, ss.py)
        ln = 1 if z3.is_app_of(part, z3.Z3_OP_SEQ_UNIT) else L(P)
        last = n == len(parts) - 1
        rel = i - off
        if not is_sym(rel) and not is_sym(ln):
            # purely syntactic step (concrete offset into a part of concrete length)
            if rel < 0:
                return None
            if rel < ln:
                if z3.is_app_of(part, z3.Z3_OP_SEQ_UNIT):
                    e = part.arg(0)
                    if ss.elem == "str":
                        return SSeq(e, "char", "str")
                    if ss.elem == "opq":
                        return SOpq(e)
                    return SBool(e) if ss.elem == "bool" else SInt(e)
                return nth(P, rel)
            off = off + ln
            continue
        if LAZY_NTH and is_sym(rel):
            # the contract asked not to spend solver queries on locating symbolic offsets inside concatenations:
            # the access stays  nth(concat, i)  and is resolved by the back end
            return None
        if last or known(rel < ln, 60):
            if n == 0 or known(rel >= 0, 60):
                if z3.is_app_of(part, z3.Z3_OP_SEQ_UNIT):
                    e = part.arg(0)
                    if ss.elem == "str":
                        return SSeq(e, "char", "str")
                    if ss.elem == "opq":
                        return SOpq(e)
                    return SBool(e) if ss.elem == "bool" else SInt(e)
                return nth(P, rel)
            return None
        if not known(rel >= ln, 60):
            return None
        off = off + ln
    return None


def slice_(s, lo, hi, step=None):
    if step is not None and step != 1:
        raise EngineError("slice step")
    if not is_sym(s) and not is_sym(lo) and not is_sym(hi):
        return s[lo:hi]
    ss = to_seq(s)
    n = L(ss)
    a = _clamp_index(0 if lo is None else lo, n)
    b = _clamp_index(n if hi is None else hi, n)
    if is_sym(a) or is_sym(b):
        ln = (b - a) if known(b >= a) else ite(gt(b, a), b - a, 0)
    else:
        ln = max(0, b - a)
    if ss.origin is not None:
        base, off0, _l0 = ss.origin
        origin = (base, off0 + a, ln)
    else:
        origin = (ss, a, ln)
    return SSeq(z3.SubSeq(ss.t, _zi(a), _zi(ln)), ss.elem, ss.py, origin)


def repeat_zero_bytes(n):
    """bytes(n): n zero bytes. Symbolic n -> fresh sequence constrained by length + element axiom via uf."""
    if not is_sym(n):
        return bytes(n)
    f = uf("zeros", z3.IntSort(), seq_sort("byte"))
    return SSeq(f(_zi(n)), "byte", "bytes")


def zeros_axioms(n, k):
    """facts about zeros(n) for index k (instantiated by the engine when needed)"""
    z = repeat_zero_bytes(n)
    return And(L(z) == ite(n >= 0, n, 0), Implies(And(k >= 0, k < n), nth(z, k) == 0))


# ---- integer helpers ---------------------------------------------------------------------------
def _linear(t):
    """linear form of an Int term: ({id: (coef, atom)}, const) - atoms are maximal non-arithmetic subterms"""
    t = z3.simplify(t, som=True, arith_lhs=False)
    coefs = {}
    const = 0

    def add_atom(atom, c):
        k = atom.get_id()
        if k in coefs:
            coefs[k] = (coefs[k][0] + c, atom)
        else:
            coefs[k] = (c, atom)

    def walk(u, mult):
        nonlocal const
        if z3.is_int_value(u):
            const += mult * u.as_long()
            return
        if z3.is_add(u):
            for ch in u.children():
                walk(ch, mult)
            return
        if z3.is_sub(u):
            ch = u.children()
            walk(ch[0], mult)
            for c2 in ch[1:]:
                walk(c2, -mult)
            return
        if z3.is_app_of(u, z3.Z3_OP_UMINUS):
            walk(u.arg(0), -mult)
            return
        if z3.is_mul(u):
            ch = u.children()
            nums = [c for c in ch if z3.is_int_value(c)]
            rest = [c for c in ch if not z3.is_int_value(c)]
            if len(rest) == 1:
                m = mult
                for nn in nums:
                    m *= nn.as_long()
                walk(rest[0], m)
                return
            if not rest:
                m = mult
                for nn in nums:
                    m *= nn.as_long()
                const += m
                return
        add_atom(u, mult)

    walk(t, 1)
    return coefs, const


def floordiv(a, b):
    if not is_sym(a) and not is_sym(b):
        return a // b
    if not is_sym(b):
        if b == 0:
            raise EngineError("division by constant zero")
        if b < 0:
            # floor(a / b) = floor(-a / -b)
            return floordiv(-a, -b)
        # (sum c_i x_i + c0) div b  with every c_i divisible by b  ==  sum (c_i/b) x_i + c0 div b
        coefs, const = _linear(_zi(a))
        if all(c % b == 0 for c, _ in coefs.values()):
            t = z3.IntVal(const // b)
            for c, atom in coefs.values():
                if c != 0:
                    t = t + z3.IntVal(c // b) * atom
            t = z3.simplify(t)
            return t.as_long() if z3.is_int_value(t) else SInt(t)
        return SInt(_zi(a) / z3.IntVal(b))
    # symbolic divisor: the engine must have proved b > 0
    return SInt(_zi(a) / _zi(b))


def mod(a, b):
    if not is_sym(a) and not is_sym(b):
        return a % b
    if not is_sym(b) and b < 0:
        raise EngineError("modulo by negative constant")
    if not is_sym(b) and b > 0:
        coefs, const = _linear(_zi(a))
        if all(c % b == 0 for c, _ in coefs.values()):
            return const % b
    return SInt(_zi(a) % _zi(b))


def _is_mask(c):
    return c >= 0 and (c & (c + 1)) == 0


def _bit(x, i):
    """bit i of x (infinite two's complement), as Int term 0/1"""
    return (_zi(x) / z3.IntVal(1 << i)) % 2


def bitand(a, b, width=None):
    if not is_sym(a) and not is_sym(b):
        return a & b
    if is_sym(a) and is_sym(b):
        if width is None:
            width = 8
            # only byte-wide symbolic & symbolic is supported; the engine adds range obligations
        terms = [z3.If(z3.And(_bit(a, i) == 1, _bit(b, i) == 1), z3.IntVal(1 << i), z3.IntVal(0)) for i in range(width)]
        return SInt(z3.Sum(*terms))
    if is_sym(b):
        a, b = b, a
    c = int(b)
    if c >= 0:
        if c == 0:
            return 0
        if _is_mask(c):
            return SInt(_zi(a) % z3.IntVal(c + 1))
        bits = [i for i in range(c.bit_length()) if (c >> i) & 1]
        # contiguous run of bits lo..hi:  ((a >> lo) mod 2^(hi-lo+1)) << lo
        lo, hi = bits[0], bits[-1]
        if len(bits) == hi - lo + 1:
            return SInt(((_zi(a) / z3.IntVal(1 << lo)) % z3.IntVal(1 << (hi - lo + 1))) * z3.IntVal(1 << lo))
        return SInt(z3.Sum(*[_bit(a, i) * z3.IntVal(1 << i) for i in bits]))
    # negative constant: a & c  with c = ~m (m >= 0):  a - (a & m)
    m = ~c
    return SInt(_zi(a) - _zi(bitand(a, m)))


def bitor(a, b):
    if not is_sym(a) and not is_sym(b):
        return a | b
    if is_sym(a) and is_sym(b):
        # a | b = a + b - (a & b)   (byte-wide)
        return SInt(_zi(a) + _zi(b) - _zi(bitand(a, b)))
    if is_sym(b):
        a, b = b, a
    c = int(b)
    if c < 0:
        raise EngineError("| with negative constant")
    return SInt(_zi(a) + z3.IntVal(c) - _zi(bitand(a, c)))


def bitxor(a, b):
    if not is_sym(a) and not is_sym(b):
        return a ^ b
    if is_sym(a) and is_sym(b):
        return SInt(_zi(a) + _zi(b) - 2 * _zi(bitand(a, b)))
    if is_sym(b):
        a, b = b, a
    c = int(b)
    if c < 0:
        raise EngineError("^ with negative constant")
    return SInt(_zi(a) + z3.IntVal(c) - 2 * _zi(bitand(a, c)))


def shl(a, k):
    if not is_sym(a) and not is_sym(k):
        return a << k
    if is_sym(k):
        return SInt(_zi(a) * _zi(pow2(k)))
    if k < 0:
        raise EngineError("negative shift")
    return SInt(_zi(a) * z3.IntVal(1 << k))


def shr(a, k):
    if not is_sym(a) and not is_sym(k):
        return a >> k
    if is_sym(k):
        return SInt(_zi(a) / _zi(pow2(k)))
    if k < 0:
        raise EngineError("negative shift")
    return SInt(_zi(a) / z3.IntVal(1 << k))


POW2_MAX = 72


def pow2(k):
    """2**k for 0 <= k <= POW2_MAX as an ite chain (exact in that range; range is an obligation of the caller)"""
    if not is_sym(k):
        return 1 << k
    t = z3.IntVal(1 << POW2_MAX)
    for i in range(POW2_MAX - 1, -1, -1):
        t = z3.If(k.t == i, z3.IntVal(1 << i), t)
    return SInt(t)


def bit_length(v, maxbits=64):
    """int.bit_length() for 0 <= v < 2**maxbits (range is an obligation of the caller)"""
    if not is_sym(v):
        return v.bit_length()
    t = z3.IntVal(maxbits)
    for i in range(maxbits - 1, -1, -1):
        t = z3.If(v.t < (1 << i), z3.IntVal(i), t)
    return SInt(t)


def from_bytes_le(b, n):
    """int.from_bytes(b, 'little') for a sequence of known concrete length n"""
    if not is_sym(b):
        return int.from_bytes(b, "little")
    acc = 0
    for i in range(n):
        acc = acc + nth(b, i) * (1 << (8 * i))
    return acc


def to_bytes_le(v, n):
    """v.to_bytes(n, 'little') for concrete n (range 0 <= v < 256**n is an obligation of the caller).
    Encoded with fresh byte variables b_i and the linear fact v == sum b_i * 256**i (the base-256
    digits exist and are unique for 0 <= v < 256**n), which avoids div/mod reasoning."""
    if not is_sym(v):
        return v.to_bytes(n, "little")
    if ENGINE is None or n == 0:
        items = [SInt((v.t / z3.IntVal(1 << (8 * i))) % 256) for i in range(n)]
        return to_seq(items, elem="byte", py="bytes")
    items = []
    acc = z3.IntVal(0)
    for i in range(n):
        b = ENGINE.fresh_int("digit%d" % i)
        ENGINE.pc.append(z3.And(b.t >= 0, b.t < 256))
        acc = acc + b.t * z3.IntVal(1 << (8 * i))
        items.append(b)
    ENGINE.pc.append(z3.Implies(z3.And(v.t >= 0, v.t < z3.IntVal(1 << (8 * n))), acc == v.t))
    return to_seq(items, elem="byte", py="bytes")


def min_(a, b):
    if not is_sym(a) and not is_sym(b):
        return min(a, b)
    return ite(a <= b, a, b)


def max_(a, b):
    if not is_sym(a) and not is_sym(b):
        return max(a, b)
    return ite(a >= b, a, b)


def ceil8(n):
    """number of bytes holding n bits"""
    return (n + 7) // 8


def truthy(x):
    """Python truthiness of a modelled value"""
    if x is None:
        return False
    if isinstance(x, SBool):
        return x
    if isinstance(x, bool):
        return x
    if isinstance(x, (int,)):
        return x != 0
    if isinstance(x, SInt):
        return x != 0
    if isinstance(x, SSeq):
        return L(x) != 0
    if isinstance(x, (bytes, bytearray, str, list, tuple, dict, set, frozenset)):
        return len(x) != 0
    if isinstance(x, SOpq):
        return SBool(uf("truthy", vsort(), z3.BoolSort())(x.t))
    return True  # objects, functions


def simplify_bool(b):
    """return True/False when the term simplifies to a constant, else the SBool"""
    if isinstance(b, SBool):
        s = z3.simplify(b.t)
        if z3.is_true(s):
            return True
        if z3.is_false(s):
            return False
        return b  # keep the original term: z3.simplify rewrites seq.nth into internal nth_i/nth_u forms
    return b


def all_true_of(c, bs):
    """reduce(and_, bs, True)"""
    if not is_sym(bs):
        return all(bs)
    from .builtins_model import all_true

    return all_true(c.eng, bs)


def any_true_of(c, bs):
    if not is_sym(bs):
        return any(bs)
    from .builtins_model import any_true

    return any_true(c.eng, bs)


def strip_prefix(cur, prev):
    """cur == prev ++ rest structurally (flattened concatenations): return rest, else None"""
    if not is_sym(cur):
        if not is_sym(prev) and bytes(cur[: len(prev)]) == bytes(prev):
            return cur[len(prev):]
        return None
    a = _flatten_concat(cur.t)
    b = _flatten_concat(to_seq(prev).t) if (is_sym(prev) or len(prev)) else []
    if len(b) > len(a):
        return None
    for x, y in zip(a, b):
        if not x.eq(y):
            return None
    rest = a[len(b):]
    if not rest:
        return b"" if cur.py in ("bytes", "bytearray") else SSeq(z3.Empty(cur.t.sort()), cur.elem, cur.py)
    t = rest[0] if len(rest) == 1 else z3.Concat(*rest)
    return SSeq(t, cur.elem, cur.py)


def cat(*parts):
    """concatenation of several sequences"""
    parts = [p for p in parts]
    if not any(is_sym(p) for p in parts):
        out = parts[0]
        for p in parts[1:]:
            out = out + p
        return out
    ss = [to_seq(p) for p in parts]
    ss = [x for x in ss if not z3.is_app_of(x.t, z3.Z3_OP_SEQ_EMPTY)]
    if not ss:
        return to_seq(parts[0])
    if len(ss) == 1:
        return ss[0]
    return SSeq(z3.Concat(*[x.t for x in ss]), ss[0].elem, ss[0].py)
