"""Lemmas: formulas over contracts / spec functions only (no code); each statement is one obligation."""
from __future__ import annotations

try:
    import z3
except Exception:  # concrete-only interpreter
    z3 = None

from . import values as V
from .values import SBool


class LemmaCtx:
    """minimal engine stand-in: collects byte-range facts and hypotheses"""

    def __init__(self):
        self.pc = []
        self.counter = {}
        self._in_inst = 0

    def fresh_name(self, base):
        n = self.counter.get(base, 0)
        self.counter[base] = n + 1
        return "%s!%d" % (base, n) if n else base

    def fresh_int(self, base="i"):
        return V.fresh_int(self.fresh_name(base))

    def fresh_bool(self, base="b"):
        return V.fresh_bool(self.fresh_name(base))

    def fresh_seq(self, base="s", elem="byte", py="bytes"):
        return V.fresh_seq(self.fresh_name(base), elem, py)

    int = fresh_int
    bool = fresh_bool

    def bytes(self, base="s"):
        return self.fresh_seq(base, "byte", "bytes")

    def int_seq(self, base="xs"):
        return self.fresh_seq(base, "int", "list")

    def bool_seq(self, base="bs"):
        return self.fresh_seq(base, "bool", "list")

    def on_nth(self, ss, i):
        pass

    def byte_fact(self, e):
        self.pc.append(z3.And(e >= 0, e < 256))

    def prove_now(self, f, timeout_ms=500):
        f = V.simplify_bool(f)
        if isinstance(f, bool):
            return f
        s = z3.Solver()
        s.set("timeout", timeout_ms)
        for t in self.pc:
            s.add(t)
        s.add(z3.Not(f.t))
        return s.check() == z3.unsat

    def assume(self, f):
        if f is True:
            return
        if isinstance(f, SBool):
            self.pc.append(f.t)
        elif f is False:
            self.pc.append(z3.BoolVal(False))


def prove_lemmas(lemmas, timeout_ms, cross):
    from .engine import Obligation
    from .solve import discharge, smt2_head

    out = []
    for lm in lemmas:
        for label, build in lm.statements():
            c = LemmaCtx()
            V.ENGINE = c
            goal = build(c)
            if goal is True:
                g = z3.BoolVal(True)
            elif goal is False:
                g = z3.BoolVal(False)
            else:
                g = goal.t
            name = "%s/lemma#%s" % (lm.name, label)
            ob = Obligation(name, "lemma", label, list(c.pc), g, lm.props, 0)
            discharge(ob, timeout_ms=timeout_ms, cross=cross)
            d = {"name": name, "kind": "lemma", "label": label, "props": list(lm.props), "path": 0, "verdict": ob.verdict, "backend": ob.backend, "time_s": round(ob.time_s, 4), "note": ob.note, "fuc": None, "target": None}
            if ob.verdict == "refuted":
                d["model"] = ob.model
                d["smt2_tail"] = smt2_head(ob, 1500)
            out.append(d)
    V.ENGINE = None
    return out


class Snap:
    """hand-made state snapshot for lemma statements: {handle: {'data':..,'pos':..,'out':..}}"""

    def __init__(self, states, ctx=None):
        self.states = states
        self._old = None
        self.ctx = ctx
        self.eng = ctx

    def data(self, f):
        return self.states[f]["data"]

    def pos(self, f):
        return self.states[f]["pos"]

    def out(self, f):
        return self.states[f]["out"]

    def view(self, x):
        return x

    def deref(self, x):
        return x

    def items(self, x):
        return x

    def f(self, o, name):
        return self.states[o][name]

    def inst(self, k):
        pass

    def appended(self, old, f):
        r = V.strip_prefix(self.out(f), old.out(f))
        return r if r is not None else V.slice_(self.out(f), V.L(old.out(f)), None)

    @property
    def old(self):
        return self._old

    def with_old(self, old):
        s = Snap(self.states, self.ctx)
        s._old = old
        return s


def assume_ensures(c, ct, old, new, result, **bound):
    """assume every postcondition clause of contract `ct` (ForAll clauses are returned for manual instantiation)"""
    from .contract import ForAll

    foralls = []
    new = new.with_old(old)
    for item in ct.ensures(new, old, result, **bound):
        f = item[1]
        if isinstance(f, ForAll):
            foralls.append(f)
        else:
            c.assume(f)
    return foralls
