"""A small path-forking bit-vector interpreter for the attribute-word code of py7zr/py7zr.py (C02):
the POSIX branch of SevenZipFile._make_file_info (encoder) and the ArchiveFile properties is_directory, is_symlink,
posix_mode, st_fmt, _get_unix_extension, _test_attribute (decoders).

The function bodies are read from /repo's current source on every run.  Supported subset: if/elif/else, return,
assignments to local names and to `f[<constant key>]`, `|=` on those, integer constants, names, `| & ^ << >> + -`,
comparisons (== != is / is not None), and/or/not, `stat.<CONST>`, `getattr(stat, "<CONST>")`, `hasattr(stat, ...)`,
`stat.S_IMODE/S_IFMT/S_ISDIR/S_ISLNK/S_ISREG/S_ISSOCK`, calls of other methods of the same class through `self.`
(interpreted the same way), module-level integer constants of the repo module and of py7zr.properties.
Unknown boolean conditions (`target.is_symlink()`, `dereference`, ...) become named boolean inputs and fork the path;
unknown integer attributes (`fstat.st_mode`, ...) become named 64-bit inputs (`st_mode` is tagged with the last
`fstat = target.lstat()` / `target.stat()` assignment).  Everything else raises Unsupported (-> undecided).

Integers are 64-bit vectors; the contracts using this module add the obligation that the attribute word fits 32 bits,
and all shifts are by constants < 32 of values < 2**32, so no bits are lost (checked by the lemma, not assumed).
Dropped by the extraction: statements that assign other keys of `f` than the ones asked for, type annotations, comments.
"""
from __future__ import annotations

import ast
import os
import stat as pystat

import z3

W = 64


class Unsupported(Exception):
    pass


class NoneV:
    def __repr__(self):
        return "None"


NONE = NoneV()


def bv(v):
    return z3.BitVecVal(v, W)


def is_bv(x):
    return isinstance(x, z3.BitVecRef)


def as_bv(x):
    if is_bv(x):
        return x
    if isinstance(x, bool):
        raise Unsupported("bool used as int")
    if isinstance(x, int):
        return bv(x)
    raise Unsupported("not an integer: %r" % (x,))


def as_bool(x):
    if isinstance(x, bool):
        return z3.BoolVal(x)
    if z3.is_bool(x):
        return x
    if is_bv(x):
        return x != 0
    if isinstance(x, int):
        return z3.BoolVal(x != 0)
    if x is NONE:
        return z3.BoolVal(False)
    raise Unsupported("truthiness of %r" % (x,))


class ReturnV(Exception):
    def __init__(self, v):
        self.v = v


class Path:
    def __init__(self, conds=None, env=None, record=None, choices=None):
        self.conds = list(conds or [])
        self.env = dict(env or {})
        self.record = dict(record or {})  # f[key] values
        self.choices = list(choices or [])

    def clone(self):
        return Path(self.conds, self.env, self.record, self.choices)


class Interp:
    def __init__(self, module_path, consts=None, platform="linux"):
        self.tree = ast.parse(open(module_path).read())
        self.consts = dict(consts or {})
        self.platform = platform
        self.inputs = {}
        for st in self.tree.body:
            if isinstance(st, ast.Assign) and len(st.targets) == 1 and isinstance(st.targets[0], ast.Name):
                try:
                    v = ast.literal_eval(st.value)
                    if isinstance(v, int) and not isinstance(v, bool):
                        self.consts.setdefault(st.targets[0].id, v)
                except Exception:
                    pass

    def find(self, qualname):
        node = self.tree
        for p in qualname.split("."):
            nxt = None
            for ch in node.body:
                if isinstance(ch, (ast.FunctionDef, ast.ClassDef)) and ch.name == p:
                    nxt = ch
            if nxt is None:
                raise Unsupported("function %s not found" % qualname)
            node = nxt
        return node

    def input_bool(self, name):
        return self.inputs.setdefault(("b", name), z3.Bool(name))

    def input_int(self, name):
        return self.inputs.setdefault(("i", name), z3.BitVec(name, W))

    # ------------------------------------------------------------------ running
    def run(self, qualname, args, cls=None, keys=("attributes", "emptystream"), worklist_limit=4096):
        """returns a list of finished paths: (conds, return value, recorded f[...] values)"""
        fn = self.find(qualname)
        self.cls = cls or (qualname.rsplit(".", 1)[0] if "." in qualname else None)
        self.keys = set(keys)
        out = []
        todo = [[]]
        n = 0
        while todo:
            prefix = todo.pop()
            n += 1
            if n > worklist_limit:
                raise Unsupported("too many paths")
            self.prefix, self.pos, self.todo = prefix, 0, todo
            p = Path(env=dict(args))
            try:
                self.block(fn.body, p)
                ret = NONE
            except ReturnV as r:
                ret = r.v
            out.append((p.conds, ret, p.record))
        return out

    def decide(self, p, cond):
        """fork on a symbolic condition; returns the python bool taken on this path"""
        c = z3.simplify(as_bool(cond))
        if z3.is_true(c):
            return True
        if z3.is_false(c):
            return False
        if self.pos < len(self.prefix):
            take = self.prefix[self.pos]
        else:
            take = True
            self.todo.append(self.prefix[: self.pos] + [False])
            self.prefix = self.prefix + [True]
        self.pos += 1
        p.conds.append(c if take else z3.Not(c))
        # prune paths whose condition is contradictory
        s = z3.Solver()
        s.set("timeout", 2000)
        s.add(*p.conds)
        if s.check() == z3.unsat:
            raise ReturnV(("infeasible",))
        return take

    def block(self, stmts, p):
        for st in stmts:
            self.stmt(st, p)

    def stmt(self, st, p):
        if isinstance(st, ast.Expr):
            if isinstance(st.value, ast.Constant):
                return
            self.eval(st.value, p)
            return
        if isinstance(st, ast.Return):
            raise ReturnV(self.eval(st.value, p) if st.value is not None else NONE)
        if isinstance(st, ast.If):
            if self.decide(p, self.eval(st.test, p)):
                self.block(st.body, p)
            else:
                self.block(st.orelse, p)
            return
        if isinstance(st, (ast.Assign, ast.AnnAssign)):
            tgt = st.targets[0] if isinstance(st, ast.Assign) else st.target
            if isinstance(st, ast.Assign) and len(st.targets) != 1:
                raise Unsupported("multiple assignment")
            if st.value is None:
                return
            if isinstance(tgt, ast.Name):
                p.env[tgt.id] = self.eval_loose(st.value, p, tgt.id)
                return
            if isinstance(tgt, ast.Subscript) and isinstance(tgt.value, ast.Name) and isinstance(tgt.slice, ast.Constant):
                key = tgt.slice.value
                if key in self.keys:
                    p.record[key] = self.eval(st.value, p)
                return  # other keys of the record are outside this extraction
            raise Unsupported("assignment target %s" % ast.unparse(tgt))
        if isinstance(st, ast.AugAssign):
            tgt = st.target
            if isinstance(tgt, ast.Subscript) and isinstance(tgt.value, ast.Name) and isinstance(tgt.slice, ast.Constant):
                key = tgt.slice.value
                if key in self.keys:
                    if key not in p.record:
                        raise Unsupported("augmented assignment to unset key %s" % key)
                    p.record[key] = self.binop(st.op, p.record[key], self.eval(st.value, p))
                return
            if isinstance(tgt, ast.Name) and tgt.id in p.env:
                p.env[tgt.id] = self.binop(st.op, p.env[tgt.id], self.eval(st.value, p))
                return
            raise Unsupported("augmented assignment %s" % ast.unparse(st))
        if isinstance(st, ast.Pass):
            return
        raise Unsupported("statement %s" % type(st).__name__)

    # ------------------------------------------------------------------ expressions
    def eval_loose(self, n, p, name):
        """right-hand side of a local assignment: unknown calls become tagged opaque handles"""
        try:
            return self.eval(n, p)
        except Unsupported:
            return ("opaque", ast.unparse(n))

    def binop(self, op, a, b):
        a, b = as_bv(a), as_bv(b)
        if isinstance(op, ast.BitOr):
            return a | b
        if isinstance(op, ast.BitAnd):
            return a & b
        if isinstance(op, ast.BitXor):
            return a ^ b
        if isinstance(op, ast.LShift):
            return a << b
        if isinstance(op, ast.RShift):
            return z3.LShR(a, b)
        if isinstance(op, ast.Add):
            return a + b
        if isinstance(op, ast.Sub):
            return a - b
        raise Unsupported("operator %s" % type(op).__name__)

    def stat_const(self, name):
        if not hasattr(pystat, name):
            raise Unsupported("stat.%s" % name)
        return getattr(pystat, name)

    def eval(self, n, p):
        if isinstance(n, ast.Constant):
            if n.value is None:
                return NONE
            if isinstance(n.value, (bool, int, str)):
                return n.value
            raise Unsupported("constant %r" % (n.value,))
        if isinstance(n, ast.Name):
            if n.id in p.env:
                return p.env[n.id]
            if n.id in self.consts:
                return self.consts[n.id]
            if n.id in ("True", "False"):
                return n.id == "True"
            return self.input_bool(n.id)  # e.g. the parameter `dereference`
        if isinstance(n, ast.Attribute):
            if isinstance(n.value, ast.Name) and n.value.id == "stat":
                v = self.stat_const(n.attr)
                if callable(v):
                    return ("statfn", n.attr)
                return v
            if isinstance(n.value, ast.Name) and n.value.id == "sys" and n.attr == "platform":
                return self.platform
            if isinstance(n.value, ast.Name) and n.value.id == "os" and n.attr == "name":
                return "posix"
            if isinstance(n.value, ast.Name) and n.value.id == "self":
                return ("method", n.attr)
            base = self.eval_loose(n.value, p, None)
            if isinstance(base, tuple) and base[0] == "opaque":
                # attribute of an opaque handle (fstat.st_mode): an integer input tagged with the producing call
                return self.input_int("%s.%s" % (base[1], n.attr))
            raise Unsupported("attribute %s" % ast.unparse(n))
        if isinstance(n, ast.BinOp):
            return self.binop(n.op, self.eval(n.left, p), self.eval(n.right, p))
        if isinstance(n, ast.UnaryOp) and isinstance(n.op, ast.Not):
            return z3.Not(as_bool(self.eval(n.operand, p)))
        if isinstance(n, ast.BoolOp):
            vals = [self.eval(v, p) for v in n.values]
            if all(isinstance(v, bool) for v in vals):
                return all(vals) if isinstance(n.op, ast.And) else any(vals)
            bs = [as_bool(v) for v in vals]
            return z3.And(*bs) if isinstance(n.op, ast.And) else z3.Or(*bs)
        if isinstance(n, ast.Compare) and len(n.ops) == 1:
            a, b = self.eval(n.left, p), self.eval(n.comparators[0], p)
            op = n.ops[0]
            if isinstance(op, (ast.Is, ast.IsNot)):
                if b is not NONE:
                    raise Unsupported("`is` with a non-None operand")
                r = a is NONE
                return r if isinstance(op, ast.Is) else (not r)
            if isinstance(a, str) or isinstance(b, str):
                if isinstance(a, str) and isinstance(b, str):
                    return (a == b) if isinstance(op, ast.Eq) else (a != b)
                raise Unsupported("string comparison")
            if z3.is_bool(a) or z3.is_bool(b) or isinstance(a, bool) or isinstance(b, bool):
                a, b = as_bool(a), as_bool(b)
            else:
                a, b = as_bv(a), as_bv(b)
            if isinstance(op, ast.Eq):
                return a == b
            if isinstance(op, ast.NotEq):
                return a != b
            if isinstance(op, ast.Lt):
                return z3.ULT(a, b)
            if isinstance(op, ast.GtE):
                return z3.UGE(a, b)
            raise Unsupported("comparison %s" % type(op).__name__)
        if isinstance(n, ast.Call):
            return self.call(n, p)
        if isinstance(n, ast.IfExp):
            return self.eval(n.body, p) if self.decide(p, self.eval(n.test, p)) else self.eval(n.orelse, p)
        raise Unsupported("expression %s" % ast.unparse(n)[:60])

    def call(self, n, p):
        f = n.func
        if isinstance(f, ast.Name) and f.id in ("getattr", "hasattr") and len(n.args) >= 2 and isinstance(n.args[0], ast.Name) and n.args[0].id == "stat" and isinstance(n.args[1], ast.Constant):
            if f.id == "hasattr":
                return hasattr(pystat, n.args[1].value)
            return self.stat_const(n.args[1].value)
        if isinstance(f, ast.Attribute) and isinstance(f.value, ast.Name) and f.value.id == "stat":
            x = as_bv(self.eval(n.args[0], p))
            name = f.attr
            if name == "S_IMODE":
                return x & bv(0o7777)
            if name == "S_IFMT":
                return x & bv(0o170000)
            table = {"S_ISDIR": pystat.S_IFDIR, "S_ISLNK": pystat.S_IFLNK, "S_ISREG": pystat.S_IFREG, "S_ISSOCK": pystat.S_IFSOCK}
            if name in table:
                return (x & bv(0o170000)) == bv(table[name])
            raise Unsupported("stat.%s" % name)
        if isinstance(f, ast.Attribute) and isinstance(f.value, ast.Name) and f.value.id == "self":
            if f.attr == "_get_property" and n.args and isinstance(n.args[0], ast.Constant):
                key = "prop:" + n.args[0].value
                if key in p.env:
                    return p.env[key]
                raise Unsupported("property %s" % n.args[0].value)
            # another method (or property) of the same class: interpreted inline on the same path
            sub = self.find(self.cls + "." + f.attr)
            names = [a.arg for a in sub.args.args][1:]
            vals = [self.eval(a, p) for a in n.args]
            saved = p.env
            p.env = dict({k: v for k, v in saved.items() if k.startswith("prop:")}, **dict(zip(names, vals)))
            try:
                self.block(sub.body, p)
                r = NONE
            except ReturnV as rv:
                if isinstance(rv.v, tuple) and rv.v and rv.v[0] == "infeasible":
                    raise
                r = rv.v
            finally:
                p.env = saved
            return r
        if isinstance(f, ast.Attribute) and isinstance(f.value, ast.Attribute) and isinstance(f.value.value, ast.Name) and f.value.value.id == "sys" and f.value.attr == "platform" and f.attr == "startswith":
            return self.platform.startswith(n.args[0].value)
        if isinstance(f, ast.Attribute):
            # a call on an opaque object: boolean-valued predicates become named inputs, anything else an opaque handle
            txt = ast.unparse(n)
            if f.attr.startswith("is_") or f.attr in ("exists",):
                return self.input_bool(txt)
            raise Unsupported("call %s" % txt[:60])
        raise Unsupported("call %s" % ast.unparse(n)[:60])

    def prop(self, qualname, attributes):
        """value of a (property) method of ArchiveFile for the given attribute word: list of (conds, value)"""
        fn = self.find(qualname)
        res = self.run(qualname, {"prop:attributes": attributes}, cls=qualname.rsplit(".", 1)[0], keys=())
        return [(c, v) for c, v, _ in res if not (isinstance(v, tuple) and v and v[0] == "infeasible")]
