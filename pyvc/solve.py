"""Discharge obligations: z3 first, /usr/bin/cvc5 for z3's unknowns (DESIGN.md 2.1 step 3)."""
from __future__ import annotations

import os
import subprocess
import tempfile
import time

import z3

CVC5 = "/usr/bin/cvc5"


def _mk_solver(ob, timeout_ms, seed=0):
    s = z3.Solver()
    s.set("timeout", timeout_ms)
    s.set("random_seed", seed)
    for t in ob.pc:
        s.add(t)
    s.add(z3.Not(ob.goal))
    return s


def model_to_dict(m):
    out = {}
    for d in m.decls():
        if d.arity() != 0:
            continue
        try:
            v = m[d]
            out[d.name()] = z3_value_to_py(v)
        except Exception:
            out[d.name()] = str(m[d])
    return out


def z3_value_to_py(v):
    if z3.is_int_value(v):
        return v.as_long()
    if z3.is_true(v):
        return True
    if z3.is_false(v):
        return False
    if z3.is_seq(v):
        items = seq_value_items(v)
        if items is not None:
            return items
    return str(v)


def seq_value_items(v):
    """elements of a concrete sequence value (list of python values) or None"""
    v = z3.simplify(v)
    if z3.is_app_of(v, z3.Z3_OP_SEQ_EMPTY):
        return []
    if z3.is_app_of(v, z3.Z3_OP_SEQ_UNIT):
        e = v.arg(0)
        r = z3_value_to_py(e)
        return [r] if not isinstance(r, str) else None
    if z3.is_app_of(v, z3.Z3_OP_SEQ_CONCAT):
        out = []
        for i in range(v.num_args()):
            sub = seq_value_items(v.arg(i))
            if sub is None:
                return None
            out.extend(sub)
        return out
    return None


def run_cvc5(smt2, timeout_ms):
    with tempfile.NamedTemporaryFile("w", suffix=".smt2", delete=False, dir=os.environ.get("PYVC_TMP", None)) as f:
        f.write("(set-logic ALL)\n")
        f.write(smt2)
        if "(check-sat)" not in smt2:
            f.write("\n(check-sat)\n")
        path = f.name
    try:
        t0 = time.time()
        p = subprocess.run([CVC5, "--strings-exp", "--tlimit=%d" % timeout_ms, path], capture_output=True, text=True, timeout=timeout_ms / 1000 + 10)
        out = (p.stdout or "").strip().split("\n")[0] if p.stdout else ""
        return out, time.time() - t0, (p.stderr or "")[:300]
    except subprocess.TimeoutExpired:
        return "timeout", timeout_ms / 1000, ""
    finally:
        try:
            os.unlink(path)
        except OSError:
            pass


def _symbols(t, acc=None, seen=None):
    acc = set() if acc is None else acc
    seen = set() if seen is None else seen
    stack = [t]
    while stack:
        u = stack.pop()
        i = u.get_id()
        if i in seen:
            continue
        seen.add(i)
        if z3.is_app(u):
            d = u.decl()
            if d.kind() == z3.Z3_OP_UNINTERPRETED:
                acc.add(d.name())
            stack.extend(u.children())
        elif z3.is_quantifier(u):
            stack.append(u.body())
    return acc


def relevant_pc(ob, depth):
    """hypotheses within `depth` symbol-sharing steps of the goal (dropping hypotheses is always sound)"""
    syms = _symbols(ob.goal)
    psyms = [(_symbols(t), t) for t in ob.pc]
    chosen = [False] * len(psyms)
    for _ in range(depth):
        new = set()
        for j, (ss, t) in enumerate(psyms):
            if not chosen[j] and (ss & syms or not ss):
                chosen[j] = True
                new |= ss
        if not new - syms:
            break
        syms |= new
    return [t for j, (ss, t) in enumerate(psyms) if chosen[j]]


def discharge(ob, timeout_ms=20000, use_cvc5=True, cross=False, shared=None):
    """sets ob.verdict: 'proved' | 'refuted' | 'unknown'"""
    t0 = time.time()
    if z3.is_true(z3.simplify(ob.goal)):
        ob.verdict, ob.backend, ob.time_s = "proved", "simplifier", time.time() - t0
        return ob
    # 1. sequence theory abstracted to EUF+LIA with instantiated axioms (sound, incomplete, fast)
    if not cross:
        try:
            from .seqabs import abstract_check

            if shared is not None:
                r1 = shared.prove(ob.pc, ob.goal, min(timeout_ms, 8000))
            else:
                r1 = abstract_check(ob.pc, ob.goal, min(timeout_ms, 8000))
        except Exception as e:  # pragma: no cover - never let the pre-pass break a run
            r1 = None
            ob.note = "seqabs failed: %s" % str(e)[:80]
        if r1 == "unsat":
            ob.verdict, ob.backend, ob.time_s = "proved", "z3-" + z3.get_version_string() + " (sequence axioms instantiated, EUF+LIA)", time.time() - t0
            return ob
    # 2. relevance slicing: hypotheses within 1..3 symbol-sharing steps of the goal (dropping hypotheses is sound;
    #    only an `unsat` answer is used)
    if not cross and len(ob.pc) > 60:
        last = -1
        for depth in (1, 2, 3):
            sub = relevant_pc(ob, depth)
            if len(sub) == last or len(sub) >= len(ob.pc):
                break
            last = len(sub)
            ss = z3.Solver()
            ss.set("timeout", min(timeout_ms, 4000))
            ss.set("random_seed", 0)
            for t in sub:
                ss.add(t)
            ss.add(z3.Not(ob.goal))
            if ss.check() == z3.unsat:
                ob.verdict, ob.backend, ob.time_s = "proved", "z3-%s (hypotheses sliced to %d of %d by relevance)" % (z3.get_version_string(), len(sub), len(ob.pc)), time.time() - t0
                return ob
    # 3. z3 with a short budget, then cvc5, then z3 with the full budget: obligations on which one solver's sequence
    #    procedure stalls are usually immediate for the other
    s = _mk_solver(ob, min(timeout_ms, 3000))
    r = s.check()
    if r == z3.unknown and use_cvc5 and not cross and timeout_ms > 3000:
        smt2 = s.to_smt2().replace("seq.nth_u", "seq.nth").replace("seq.nth_i", "seq.nth")
        res, dt, err = run_cvc5(smt2, timeout_ms)
        if res == "unsat":
            ob.verdict, ob.backend, ob.time_s = "proved", "cvc5-1.0.3", time.time() - t0
            return ob
        s = _mk_solver(ob, timeout_ms)
        r = s.check()
        if r == z3.unknown:
            # the slow queries are the unstable ones: before giving up, two more attempts with other seeds (a proof
            # found under any seed is a proof; `sat` answers go through the same model validation as always)
            for seed in (11, 23):
                s2 = _mk_solver(ob, timeout_ms, seed)
                r2 = s2.check()
                if r2 != z3.unknown:
                    s, r = s2, r2
                    break
        if r == z3.unknown:
            ob.time_s = time.time() - t0
            ob.backend = "z3-" + z3.get_version_string()
            ob.verdict = "unknown"
            ob.note = "z3: " + s.reason_unknown() + " | cvc5: %s %s" % (res, err.strip().replace("\n", " ")[:160])
            if res == "sat":
                ob.note += " | cvc5 answers sat but gives no model to validate or replay: kept undecided"
            return ob
    elif r == z3.unknown and timeout_ms > 3000:
        s = _mk_solver(ob, timeout_ms)
        r = s.check()
    ob.time_s = time.time() - t0
    ob.backend = "z3-" + z3.get_version_string()
    if r == z3.unsat:
        ob.verdict = "proved"
    elif r == z3.sat:
        ob.verdict = "refuted"
        try:
            m = s.model()
            ob.model = model_to_dict(m)
            # z3's sequence procedure occasionally returns `sat` with an assignment that does not satisfy the query;
            # a counter-model is only believed when every hypothesis and the negated goal evaluate to true in it
            bad = 0
            for t in list(ob.pc) + [z3.Not(ob.goal)]:
                v = m.eval(t, model_completion=True)
                if z3.is_false(v):
                    bad += 1
            if bad:
                ob.verdict = "unknown"
                ob.note = "z3 returned sat but its model falsifies %d hypothesis/goal term(s): answer not trusted" % bad
        except Exception as e:  # pragma: no cover
            ob.model = {"_error": str(e)}
    else:
        ob.verdict = "unknown"
        ob.note = "z3: " + s.reason_unknown()
    if (ob.verdict == "unknown" and use_cvc5) or cross:
        smt2 = s.to_smt2().replace("seq.nth_u", "seq.nth").replace("seq.nth_i", "seq.nth")
        res, dt, err = run_cvc5(smt2, timeout_ms)
        if ob.verdict == "unknown":
            ob.time_s += dt
            if res == "unsat":
                ob.verdict, ob.backend = "proved", "cvc5-1.0.3"
            elif res == "sat":
                ob.note += " | cvc5: sat (no model to validate or replay: kept undecided)"
            else:
                ob.note += " | cvc5: %s %s" % (res, err.strip().replace("\n", " ")[:160])
        else:
            # cross validation: a definite disagreement is a checker error
            if res in ("sat", "unsat"):
                z = "unsat" if ob.verdict == "proved" else "sat"
                if res != z:
                    ob.verdict = "solver-disagreement"
                    ob.note = "z3=%s cvc5=%s" % (z, res)
                else:
                    ob.note += " | cvc5 agrees"
            else:
                ob.note += " | cvc5: %s" % res
    return ob


def smt2_head(ob, n=600):
    try:
        s = _mk_solver(ob, 1000)
        return s.to_smt2()[-n:]
    except Exception:
        return ""
