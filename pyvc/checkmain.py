"""Property-level driver: obligations -> verdicts -> replay -> evidence -> exit code."""
from __future__ import annotations

import argparse
import concurrent.futures as cf
import hashlib
import json
import os
import re
import subprocess
import sys
import time

HERE = os.path.dirname(os.path.dirname(os.path.abspath(__file__)))
VENV_PY = "/venv/bin/python"
REPO = os.environ.get("VERIF_REPO", "/repo")

TRUSTED_BASE = [
    "the encoding of the Python subset in pyvc (DESIGN.md 2.2): int->Int, bytes/list/str->Seq, floor div/mod, bit ops by base-2 digits; guarded by the CPython cross-check, not proved",
    "SMT solvers z3 5.1.0 and cvc5 1.0.3",
    "CPython built-ins as documented: bytes/bytearray slicing and slice assignment, struct.pack/unpack (B,<L,<Q), int.to_bytes/from_bytes, io.BytesIO and binary files read/write/seek/tell, functools.reduce, str/bytes utf-16LE codec",
    "modularity: a callee is represented by its contract at every call site; end-to-end statements are chains of proved links (DESIGN.md 7)",
]


def slug(s):
    return re.sub(r"[^A-Za-z0-9_.-]+", "_", s)[:150]


def run_replay(target, mode, model=None, n=200, seed=0, timeout=120):
    cmd = [VENV_PY, "-m", "pyvc.replay", "--target", target, "--mode", mode, "--n", str(n), "--seed", str(seed), "--timeout", str(timeout), "--model", json.dumps(model or {}, default=str)]
    env = dict(os.environ)
    # /venv imports /repo (editable install); a scratch copy under test (VERIF_REPO) must shadow it
    env["PYTHONPATH"] = HERE if os.path.realpath(REPO) == "/repo" else REPO + os.pathsep + HERE
    try:
        p = subprocess.run(cmd, capture_output=True, text=True, timeout=timeout + 20, cwd=HERE, env=env)
    except subprocess.TimeoutExpired:
        return {"error": "replay timed out", "violations": [], "runs": 0, "valid": 0}
    line = (p.stdout or "").strip().split("\n")[-1] if p.stdout.strip() else ""
    try:
        return json.loads(line)
    except Exception:
        return {"error": "replay produced no JSON: rc=%s %s" % (p.returncode, (p.stderr or "")[-400:]), "violations": [], "runs": 0, "valid": 0}


def load_known_findings():
    p = os.path.join(HERE, "known_findings.json")
    if not os.path.exists(p):
        return []
    return json.load(open(p))


def run_witness(entry, timeout=60):
    """re-run the committed witness of a known finding against the real code"""
    script = os.path.join(HERE, entry["witness"])
    env = dict(os.environ)
    env["PYTHONPATH"] = HERE + os.pathsep + REPO
    try:
        p = subprocess.run([VENV_PY, script], capture_output=True, text=True, timeout=timeout, cwd=HERE, env=env)
    except subprocess.TimeoutExpired:
        return {"reproduced": bool(entry.get("hang_is_reproduction")), "detail": "witness timed out after %ds" % timeout}
    line = (p.stdout or "").strip().split("\n")[-1] if p.stdout.strip() else ""
    try:
        return json.loads(line)
    except Exception:
        return {"reproduced": False, "detail": "witness gave no JSON (rc=%s): %s" % (p.returncode, (p.stderr or "")[-300:]), "error": True}


def main(argv):
    ap = argparse.ArgumentParser()
    ap.add_argument("prop")
    ap.add_argument("--tier", default=os.environ.get("VERIF_TIER", "quick"))
    ap.add_argument("--replay")
    ap.add_argument("--procs", type=int, default=int(os.environ.get("VERIF_PROCS", "16")))
    a = ap.parse_args(argv)
    tier = a.tier if a.tier in ("quick", "thorough") else "quick"
    try:
        seed = int(os.environ.get("VERIF_SEED", "0"))
    except ValueError:
        seed = 0
    pid = a.prop
    os.chdir(HERE)
    if a.replay:
        return do_replay_file(pid, a.replay)
    t0 = time.time()
    try:
        return run_check(pid, tier, seed, a.procs, t0)
    except Exception:
        import traceback

        traceback.print_exc()
        print("CHECKER-ERROR property=%s (see traceback)" % pid)
        return 3


def do_replay_file(pid, path):
    rep = json.load(open(path))
    if not rep.get("concrete_input"):
        print("replay file carries no concrete input (status=%s); obligation: %s" % (rep.get("status"), rep.get("obligation")))
        print(json.dumps(rep.get("solver", {}))[:2000])
        return 1
    r = run_replay(rep["fuc"]["target"], "model", rep["concrete_input"])
    print(json.dumps(r, indent=1)[:3000])
    if r.get("violations"):
        print("VIOLATION property=%s replay=%s" % (pid, path))
        return 1
    return 0


def run_check(pid, tier, seed, procs, t0):
    from pyvc.run import load_contracts, verify_many

    reg = load_contracts()
    cts = reg.for_property(pid)
    lemmas = reg.lemmas_for(pid)
    scen = [s for s in reg.scenarios if pid in s.props]
    if not cts and not lemmas and not scen:
        print("no contract is tagged with %s" % pid)
        return 3
    timeout_ms = 20000 if tier == "quick" else 120000
    cross = tier == "thorough"
    targets = [c.target for c in cts]
    results = verify_many(targets, timeout_ms, cross, procs=min(procs, max(1, len(targets)))) if targets else []
    # ---- a refutation must be reproducible: VC generation uses time-capped internal entailment checks, so under heavy
    #      load an obligation can come out in a weaker form; every target with a refuted obligation is verified once
    #      more, alone; an obligation that is discharged on the second run is counted as discharged (noted as unstable)
    again = [r["target"] for r in results if any(o["verdict"] == "refuted" and o["kind"] != "finding" for o in r["obligations"])]
    if again:
        second = {r["target"]: r for r in verify_many(again, timeout_ms, cross, procs=1)}
        for r in results:
            r2 = second.get(r["target"])
            if r2 is None or r2["status"] != "ok":
                continue
            v2 = {}
            for o in r2["obligations"]:
                v2.setdefault(o["name"], []).append(o["verdict"])
            for o in r["obligations"]:
                if o["verdict"] == "refuted" and o["kind"] != "finding" and v2.get(o["name"]) and all(v == "proved" for v in v2[o["name"]]):
                    o["verdict"] = "proved"
                    o["note"] = (o.get("note") or "") + " | unstable: refuted in the parallel run, discharged when verified alone"
    # ---- the same for an obligation left undecided by a timeout: slow queries are the unstable ones and the parallel run
    #      competes for the cores with fifteen other solver processes; such a target is verified once more, alone, with
    #      three times the budget.  Only a proof changes the verdict (an obligation undecided twice stays undecided).
    slow = [r["target"] for r in results if r["status"] == "ok" and any(o["verdict"] in ("unknown", None) and o["kind"] != "finding" for o in r["obligations"])]
    if slow:
        second = {r["target"]: r for r in verify_many(slow, timeout_ms * 3, cross, procs=1)}
        for r in results:
            r2 = second.get(r["target"])
            if r2 is None or r2["status"] != "ok":
                continue
            v2 = {}
            for o in r2["obligations"]:
                v2.setdefault(o["name"], []).append(o["verdict"])
            for o in r["obligations"]:
                if o["verdict"] in ("unknown", None) and o["kind"] != "finding" and v2.get(o["name"]) and all(v == "proved" for v in v2[o["name"]]):
                    o["verdict"] = "proved"
                    o["note"] = (o.get("note") or "") + " | unstable: undecided in the parallel run, discharged when verified alone with three times the budget"
    # ---- lemmas (formulas over contracts/spec only)
    lemma_obs = []
    if lemmas:
        from pyvc.lemmas import prove_lemmas

        lemma_obs = prove_lemmas(lemmas, timeout_ms, cross)
    # ---- CPython cross-check of every exact-mode FUC (concrete contract evaluation on the real code)
    nsamp = 200 if tier == "quick" else 5000
    exact = [c for c in cts if c.is_replayable()]
    xres = {}
    with cf.ThreadPoolExecutor(max_workers=procs) as ex:
        futs = {ex.submit(run_replay, c.target, "sample", None, nsamp, seed, 300 if tier == "quick" else 1500): c.target for c in exact}
        for f in cf.as_completed(futs):
            xres[futs[f]] = f.result()
    # ---- a function that left the supported subset (undecided) gets a deeper BOUNDED look: 5000 sampled real
    #      executions against its contract instead of 200 (a failing one is a violation with a replayable input)
    und_targets = [r["target"] for r in results if r["status"] == "undecided"]
    for tgt in und_targets:
        ctu = reg.contract_for(tgt)
        if ctu is not None and ctu.is_replayable():
            xres[tgt] = run_replay(tgt, "sample", None, 5000, seed, 600)
    # ---- bounded stand-ins / scenario checks registered for this property
    scen_res = []
    for s in scen:
        scen_res.append(s.run(tier, seed))
    # ---- known findings: replay the committed witnesses
    kf_all = load_known_findings()
    kf = [e for e in kf_all if e.get("property") == pid and e.get("status", "open") == "open"]
    kf_lines = []
    kf_state = {}
    for e in kf:
        w = run_witness(e, timeout=e.get("timeout", 60))
        kf_state[e["id"]] = w
        if w.get("reproduced"):
            kf_lines.append("KNOWN-FINDING: property=%s %s [%s]" % (pid, e["what"], e["id"]))
    # ---- collect
    all_obs = []
    status_err = []
    undecided = []
    fucs = []
    for r in results:
        ct = reg.contract_for(r["target"])
        fucs.append({"target": r["target"], "mode": "abstract" if ct.abstract else "exact", "source": r.get("source"), "paths": r["stats"].get("paths"), "wall_s": r.get("wall_s"), "obligations": len(r["obligations"]), "status": r["status"], "opaque_callees": r["stats"].get("opaque_calls", [])})
        if r["status"] == "error":
            status_err.append("%s: %s" % (r["target"], r["error"]))
        elif r["status"] == "undecided":
            undecided.append("%s: %s" % (r["target"], r["error"]))
        for o in r["obligations"]:
            if pid in (o.get("props") or []) or not o.get("props"):
                o["target"] = r["target"]
                all_obs.append(o)
    for o in lemma_obs:
        all_obs.append(o)
    finding_obs = [o for o in all_obs if o["kind"] == "finding"]
    proof_obs = [o for o in all_obs if o["kind"] != "finding"]
    refuted = [o for o in proof_obs if o["verdict"] == "refuted"]
    unknown = [o for o in proof_obs if o["verdict"] in ("unknown", None)]
    disagree = [o for o in proof_obs if o["verdict"] == "solver-disagreement"]
    # cross-check disagreements on obligations that were proved => encoding unsound (exit 3)
    xviol = []
    for tgt, xr in xres.items():
        if xr.get("error"):
            status_err.append("cross-check of %s failed to run: %s" % (tgt, xr["error"]))
        for v in xr.get("violations", []):
            xviol.append((tgt, v))
    violations = []
    import shutil

    shutil.rmtree(os.path.join(HERE, "replays", pid), ignore_errors=True)
    os.makedirs(os.path.join(HERE, "replays", pid), exist_ok=True)
    # ---- triage refuted obligations
    seen_base = set()
    for o in refuted:
        base = re.sub(r"\[k%\d+=\d+\]", "", o["name"])
        if base in seen_base:
            continue
        seen_base.add(base)
        ct = reg.contract_for(o.get("target")) if o.get("target") else None
        rep = {
            "property": pid,
            "obligation": "%s/%s" % (pid, o["name"]),
            "fuc": {"target": o.get("target")},
            "solver": {"backend": o["backend"], "result": "sat", "time_s": o["time_s"], "model": o.get("model"), "query_tail": o.get("smt2_tail", "")[-1200:]},
            "concrete_input": None,
            "real_run": None,
            "status": "no-failing-input-found",
        }
        for f in fucs:
            if f["target"] == o.get("target"):
                rep["fuc"].update(f.get("source") or {})
        if ct is not None and ct.is_replayable():
            r1 = run_replay(ct.target, "model", o.get("model"), seed=seed)
            hit = r1.get("violations")
            if not hit:
                r2 = run_replay(ct.target, "search", o.get("model"), n=3000 if tier == "quick" else 30000, seed=seed, timeout=200 if tier == "quick" else 900)
                hit = r2.get("violations")
                rep["search"] = {"runs": r2.get("runs"), "valid": r2.get("valid")}
            if hit:
                rep["concrete_input"] = hit[0]["inputs"]
                rep["real_run"] = {"interpreter": VENV_PY, "failed_clauses": hit[0]["failed"], "outcome": hit[0].get("outcome"), "details": hit[0].get("details")}
                rep["status"] = "confirmed"
        elif ct is None and any(o["name"].startswith(lm.name + "/") and hasattr(lm, "replay") for lm in lemmas):
            # a refuted lemma that knows how to run the real functions on the counter-model
            lm = [x for x in lemmas if o["name"].startswith(x.name + "/") and hasattr(x, "replay")][0]
            sr = lm.replay(o.get("model"))
            if sr and sr.get("reproduced"):
                rep["concrete_input"] = sr.get("input")
                rep["real_run"] = sr
                rep["status"] = "confirmed"
        elif ct is not None and getattr(ct, "replay_scenario", None):
            sr = ct.replay_scenario(o, tier, seed)
            if sr and sr.get("reproduced"):
                rep["concrete_input"] = sr.get("input")
                rep["real_run"] = sr
                rep["status"] = "confirmed"
        path = os.path.join("replays", pid, slug(o["name"]) + ".json")
        rep["rerun"] = "./check %s --replay %s" % (pid, path)
        json.dump(rep, open(os.path.join(HERE, path), "w"), indent=1, default=str)
        violations.append((o, rep, path))
    # cross-check violations of contracts: on a tree where the obligations were proved this means the engine is
    # unsound; where obligations of the same FUC were refuted it is simply the concrete face of that violation
    refuted_targets = {o.get("target") for o in refuted}
    fully_proved = set()
    for r in results:
        if r["status"] == "ok" and r["obligations"] and all(o["verdict"] == "proved" for o in r["obligations"]):
            fully_proved.add(r["target"])
    seen_x = set()
    for tgt, v in xviol:
        if tgt in refuted_targets:
            continue
        if tgt in fully_proved and not undecided and not refuted_targets:
            status_err.append("CPython cross-check: real execution of %s violates proved contract clauses %s on input %s" % (tgt, v.get("failed"), json.dumps(v.get("inputs"))[:300]))
            continue
        # the FUC - or, when it was proved, a function whose contract its proof relies on - could not be verified on
        # this tree AND a real execution violates its contract: a replayed failing input on the real code is a
        # violation in its own right (modular proofs only hold when every contract in the chain is established)
        if tgt in seen_x:
            continue
        seen_x.add(tgt)
        name = "%s/%s" % (tgt.replace("py7zr.", "", 1).replace(":", "."), (v.get("failed") or ["post"])[0])
        rep = {"property": pid, "obligation": "%s/%s" % (pid, name), "fuc": {"target": tgt}, "solver": {"result": "not-run (function could not be verified on this tree: see evidence.undecided)"},
               "concrete_input": v.get("inputs"), "real_run": {"interpreter": VENV_PY, "failed_clauses": v.get("failed"), "outcome": v.get("outcome"), "details": v.get("details")}, "status": "confirmed"}
        path = os.path.join("replays", pid, slug(name) + ".json")
        rep["rerun"] = "./check %s --replay %s" % (pid, path)
        json.dump(rep, open(os.path.join(HERE, path), "w"), indent=1, default=str)
        violations.append(({"name": name, "kind": "post"}, rep, path))
    # scenario results (bounded stand-ins)
    bounded = []
    for sr in scen_res:
        bounded.append(sr.get("evidence", {}))
        for v in sr.get("violations", []):
            path = os.path.join("replays", pid, slug(v["name"]) + ".json")
            json.dump(v, open(os.path.join(HERE, path), "w"), indent=1, default=str)
            violations.append(({"name": v["name"], "kind": "bounded"}, v, path))
        if sr.get("error"):
            status_err.append("bounded stand-in %s: %s" % (sr.get("name"), sr["error"]))
    # findings: the expected-refuted obligations
    kf_names = {e.get("obligation"): e for e in kf}
    finding_report = []
    for o in finding_obs:
        finding_report.append({"name": o["name"], "verdict": o["verdict"]})
    # ---- evidence
    n_ob = len(proof_obs)
    n_dis = sum(1 for o in proof_obs if o["verdict"] == "proved")
    backends = {}
    for o in proof_obs:
        backends[o["backend"] or "?"] = backends.get(o["backend"] or "?", 0) + 1
    samples = []
    seenk = set()
    for o in proof_obs:
        k = (o.get("target"), o["kind"])
        if k in seenk:
            continue
        seenk.add(k)
        samples.append({"obligation": "%s/%s" % (pid, o["name"]), "kind": o["kind"], "verdict": o["verdict"], "backend": o["backend"], "time_s": o["time_s"]})
        if len(samples) >= 40:
            break
    assumptions = list(TRUSTED_BASE)
    for c in cts:
        for s in getattr(c, "assumptions", ()):
            if s not in assumptions:
                assumptions.append(s)
    for l in lemmas:
        for s in getattr(l, "assumptions", ()):
            if s not in assumptions:
                assumptions.append(s)
    ev = {
        "property_id": pid,
        "tier": tier,
        "seed": seed,
        "level": "proof",
        "coverage": {
            "obligations": n_ob,
            "discharged": n_dis,
            "checker_cmd": "./check %s --tier %s" % (pid, tier),
            "trusted_base": TRUSTED_BASE,
            "distinct_obligation_names": len({o["name"] for o in proof_obs}),
            "functions_under_contract": fucs,
            "backends": backends,
            "solver_time_s": round(sum(o["time_s"] for o in proof_obs), 3),
            "samples": samples,
            "refuted": [{"obligation": o["name"], "replay": p, "status": r["status"]} for o, r, p in violations],
            "undecided": [{"obligation": o["name"], "note": o.get("note", "")[:200]} for o in unknown] + [{"fuc": u} for u in undecided],
            "cpython_cross_check": {t: {"runs": x.get("runs"), "valid_inputs": x.get("valid"), "distinct_inputs": x.get("distinct_outcomes"), "contract_violations": len(x.get("violations", []))} for t, x in sorted(xres.items())},
            "bounded": bounded,
            "known_findings": [{"id": e["id"], "what": e["what"], "witness_reproduced": kf_state.get(e["id"], {}).get("reproduced"), "detail": str(kf_state.get(e["id"], {}).get("detail"))[:300]} for e in kf],
            "finding_obligations": finding_report,
            "vacuity": {f["target"]: "exits reachable" for f in fucs if f["status"] == "ok"},
        },
        "assumptions": assumptions,
        "wall_s": round(time.time() - t0, 2),
        "violations": len(violations),
    }
    # evidence is only written for /repo itself; runs against a scratch copy (mutation self-tests) go elsewhere
    evdir = os.path.join(HERE, "evidence") if os.path.realpath(REPO) == "/repo" else os.path.join(HERE, "scratch", "evidence")
    os.makedirs(evdir, exist_ok=True)
    json.dump(ev, open(os.path.join(evdir, "%s.json" % pid), "w"), indent=1, default=str)
    # ---- report
    print("%s [%s] %d functions under contract, %d obligations, %d discharged, %d refuted, %d undecided, %.1fs" % (pid, tier, len(fucs), n_ob, n_dis, len(refuted), len(unknown) + len(undecided), time.time() - t0))
    for ln in kf_lines:
        print(ln)
    viol_targets = {rep.get("fuc", {}).get("target") for _, rep, _ in violations}
    status_err = [e for e in status_err if not any(t and e.startswith(t + ":") for t in viol_targets)]
    if status_err or disagree:
        for s in status_err:
            print("CHECKER-ERROR: %s" % s[:1500])
        for o in disagree:
            print("CHECKER-ERROR: solvers disagree on %s (%s)" % (o["name"], o["note"]))
        return 3
    if violations:
        for o, rep, path in violations:
            tail = "" if rep.get("status") == "confirmed" else " no-failing-input-found"
            print("VIOLATION property=%s replay=%s%s" % (pid, os.path.join(HERE, path), tail))
            print("  failed obligation: %s/%s (%s)" % (pid, o["name"], rep.get("status")))
        return 1
    if unknown or undecided:
        for o in unknown:
            print("UNDECIDED: %s %s" % (o["name"], o.get("note", "")[:200]))
        for u in undecided:
            print("UNDECIDED: %s" % u[:600])
        return 2
    return 0
