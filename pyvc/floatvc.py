"""Verification conditions for straight-line floating-point code (used for C02: ArchiveTimestamp.from_datetime /
totimestamp in py7zr/helpers.py).

The function bodies are read from /repo's current source on every run and interpreted statement by statement
(supported subset: assignments to local names, `return`, the operators + - * /, unary minus, the calls int(x),
float(x), ArchiveTimestamp(x), names of module-level numeric constants, `self` as the integer value of an int
subclass).  Anything else raises Unsupported -> the lemma is reported undecided, never proved.

Assumed semantics (stated in the evidence): IEEE-754 binary64, round-to-nearest; every float operation returns the
exact real result plus an error of at most half a unit in the last place of the binade that contains the LARGEST
magnitude the result can take on the input range (the bound on that magnitude is itself derived by interval
arithmetic over exact rationals, so it is part of the VC, not a guess); int(x) truncates toward zero; conversion of
an int of magnitude <= 2**53 to float is exact, larger ones are rounded like any other result; no overflow/underflow
on the stated range (checked: all magnitudes stay below 2**1000 and results of the final subtraction are not subnormal-
sensitive at the stated tolerance).  The resulting constraints are linear (or low-degree polynomial) real arithmetic.
"""
from __future__ import annotations

import ast
import os
from fractions import Fraction

import z3

REPO = os.environ.get("VERIF_REPO", "/repo")


class Unsupported(Exception):
    pass


class Val:
    """a symbolic number: z3 real term, python-level kind ('int' | 'float') and a rational enclosure [lo, hi]"""

    def __init__(self, t, kind, lo, hi, is_double=False):
        self.t, self.kind, self.lo, self.hi = t, kind, Fraction(lo), Fraction(hi)
        # the value is known to be exactly a binary64 number (results of float operations, float inputs)
        self.is_double = is_double


def half_ulp(mag: Fraction) -> Fraction:
    """half a unit in the last place for results of magnitude <= mag (binary64)"""
    if mag <= 0:
        return Fraction(0)
    e = 0
    p = Fraction(1)
    while p <= mag:  # smallest power of two strictly greater than mag
        p *= 2
        e += 1
    while p / 2 > mag:
        p /= 2
        e -= 1
    # mag < 2**e : ulp in that binade is 2**(e-53), half of it 2**(e-54)
    return Fraction(2) ** (e - 54)


class FloatVC:
    def __init__(self, module_path, consts=None):
        self.src = open(module_path).read()
        self.tree = ast.parse(self.src)
        self.constraints = []
        self.errors = []  # (name, bound) of every rounding-error variable introduced
        self.n = 0
        self.consts = {}
        for st in self.tree.body:
            if isinstance(st, ast.Assign) and len(st.targets) == 1 and isinstance(st.targets[0], ast.Name):
                try:
                    v = ast.literal_eval(st.value)
                except Exception:
                    continue
                if isinstance(v, (int, float)) and not isinstance(v, bool):
                    self.consts[st.targets[0].id] = v
        self.consts.update(consts or {})

    def func(self, qualname):
        parts = qualname.split(".")
        node = self.tree
        for p in parts:
            found = None
            for ch in node.body:
                if isinstance(ch, (ast.FunctionDef, ast.ClassDef)) and ch.name == p:
                    found = ch
            if found is None:
                raise Unsupported("function %s not found" % qualname)
            node = found
        return node

    def fresh(self, base, sort=z3.RealSort()):
        self.n += 1
        return z3.Const("%s!%d" % (base, self.n), sort)

    # ---- arithmetic
    def const(self, v):
        if isinstance(v, bool):
            raise Unsupported("bool constant")
        if isinstance(v, int):
            return Val(z3.RealVal(v), "int", v, v)
        if isinstance(v, float):
            fr = Fraction(v)  # floats are exact rationals
            return Val(z3.RealVal(str(fr)) if fr.denominator == 1 else z3.Q(fr.numerator, fr.denominator), "float", fr, fr)
        raise Unsupported("constant %r" % (v,))

    def to_float(self, a: Val) -> Val:
        if a.kind == "float":
            return a
        mag = max(abs(a.lo), abs(a.hi))
        if mag <= 2 ** 53 or a.is_double:
            # small ints, and ints obtained by truncating a double that was already integral, convert exactly
            return Val(a.t, "float", a.lo, a.hi, True)
        return self.rounded(a.t, a.lo, a.hi, "int2float")

    def rounded(self, exact, lo, hi, what):
        mag = max(abs(lo), abs(hi))
        if mag >= Fraction(2) ** 1000:
            raise Unsupported("possible overflow in %s" % what)
        E = half_ulp(mag)
        e = self.fresh("err_" + what)
        self.constraints += [e >= z3.Q(-E.numerator, E.denominator), e <= z3.Q(E.numerator, E.denominator)]
        self.errors.append((str(e), E))
        return Val(exact + e, "float", lo - E, hi + E, True)

    def binop(self, op, a: Val, b: Val) -> Val:
        is_float = a.kind == "float" or b.kind == "float" or isinstance(op, ast.Div)
        if is_float:
            a, b = self.to_float(a), self.to_float(b)
        if isinstance(op, ast.Add):
            t, lo, hi = a.t + b.t, a.lo + b.lo, a.hi + b.hi
        elif isinstance(op, ast.Sub):
            t, lo, hi = a.t - b.t, a.lo - b.hi, a.hi - b.lo
        elif isinstance(op, ast.Mult):
            t = a.t * b.t
            c = [a.lo * b.lo, a.lo * b.hi, a.hi * b.lo, a.hi * b.hi]
            lo, hi = min(c), max(c)
        elif isinstance(op, ast.Div):
            if b.lo <= 0 <= b.hi:
                raise Unsupported("division by a value that may be zero")
            t = a.t / b.t
            c = [a.lo / b.lo, a.lo / b.hi, a.hi / b.lo, a.hi / b.hi]
            lo, hi = min(c), max(c)
        elif isinstance(op, ast.FloorDiv) and not is_float:
            if b.lo != b.hi or b.lo <= 0:
                raise Unsupported("floor division by a non-constant or non-positive value")
            q = self.fresh("quot", z3.IntSort())
            d = int(b.lo)
            self.constraints += [z3.ToReal(q) * d <= a.t, a.t < (z3.ToReal(q) + 1) * d]
            lo, hi = Fraction(a.lo.__floor__() // d), Fraction(a.hi.__floor__() // d)
            return Val(z3.ToReal(q), "int", lo, hi)
        else:
            raise Unsupported("operator %s" % type(op).__name__)
        if not is_float:
            return Val(t, "int", lo, hi)
        return self.rounded(t, lo, hi, type(op).__name__.lower())

    def trunc(self, a: Val) -> Val:
        if a.kind == "int":
            return a
        if a.is_double and (a.lo >= 2 ** 52 or a.hi <= -(2 ** 52)):
            # every binary64 number of magnitude >= 2**52 is an integer: truncation changes nothing
            return Val(a.t, "int", a.lo, a.hi, True)
        n = self.fresh("trunc", z3.IntSort())
        r = z3.ToReal(n)
        self.constraints.append(z3.Or(z3.And(a.t >= 0, r <= a.t, a.t < r + 1), z3.And(a.t < 0, r - 1 < a.t, a.t <= r)))
        # truncation toward zero is monotone: T(lo) <= T(x) <= T(hi)
        T = lambda q: Fraction(q.__floor__()) if q >= 0 else Fraction(q.__ceil__())
        lo, hi = T(a.lo), T(a.hi)
        return Val(r, "int", min(lo, hi), max(lo, hi))

    # ---- interpretation of a function body
    def run(self, qualname, args: dict, self_val: Val = None):
        fn = self.func(qualname)
        env = dict(args)
        if self_val is not None:
            env["self"] = self_val
        for st in fn.body:
            if isinstance(st, ast.Expr) and isinstance(st.value, ast.Constant):
                continue  # docstring
            if isinstance(st, ast.Assign) and len(st.targets) == 1 and isinstance(st.targets[0], ast.Name):
                env[st.targets[0].id] = self.eval(st.value, env)
            elif isinstance(st, ast.AnnAssign) and isinstance(st.target, ast.Name) and st.value is not None:
                env[st.target.id] = self.eval(st.value, env)
            elif isinstance(st, ast.Return):
                return self.eval(st.value, env)
            else:
                raise Unsupported("statement %s in %s" % (type(st).__name__, qualname))
        raise Unsupported("%s does not return" % qualname)

    def eval(self, n, env) -> Val:
        if isinstance(n, ast.Constant):
            return self.const(n.value)
        if isinstance(n, ast.Name):
            if n.id in env:
                return env[n.id]
            if n.id in self.consts:
                return self.const(self.consts[n.id])
            raise Unsupported("name %s" % n.id)
        if isinstance(n, ast.UnaryOp) and isinstance(n.op, ast.USub):
            a = self.eval(n.operand, env)
            return Val(-a.t, a.kind, -a.hi, -a.lo)
        if isinstance(n, ast.BinOp):
            return self.binop(n.op, self.eval(n.left, env), self.eval(n.right, env))
        if isinstance(n, ast.Call) and isinstance(n.func, ast.Name) and len(n.args) == 1 and not n.keywords:
            a = self.eval(n.args[0], env)
            if n.func.id in ("int", "ArchiveTimestamp"):
                return self.trunc(a)
            if n.func.id == "float":
                return self.to_float(a)
        raise Unsupported("expression %s" % ast.dump(n)[:80])
