"""debug helper: python3-vt -m pyvc.debug <target> <substring-of-obligation-name> [sat|unknown|N]"""
import sys, time
sys.path.insert(0, '/verif')
from pyvc.run import load_contracts
from pyvc import engine as E, solve as S
import z3

def main():
    reg = load_contracts()
    ct = reg.contract_for(sys.argv[1])
    eng = E.Engine(ct, reg)
    obs = [o for o in eng.run() if sys.argv[2] in o.name]
    print(len(obs), "matching obligations")
    want = sys.argv[3] if len(sys.argv) > 3 else "0"
    pick = None
    if want in ("sat", "unknown"):
        for o in obs:
            s = S._mk_solver(o, 10000)
            r = s.check()
            if str(r) == want:
                pick = o
                break
        if pick is None:
            print("none with verdict", want); return
    else:
        pick = obs[int(want)]
    o = pick
    for t in o.pc:
        print("PC:", str(t).replace("\n", " ")[:400])
    print("GOAL:", str(o.goal).replace("\n", " ")[:3000])
    s = S._mk_solver(o, 30000)
    open("/tmp/ob.smt2", "w").write(s.to_smt2())
    t0 = time.time(); r = s.check(); print(r, time.time() - t0)
    if r == z3.sat:
        m = s.model()
        for d in m.decls():
            if d.arity() == 0:
                print("  M:", d.name(), str(m[d])[:120])

main()
