"""Contract objects, the context handed to contract clauses, and the registry."""
from __future__ import annotations

import ast

try:
    import z3
except Exception:  # concrete-only interpreter (/venv/bin/python)
    z3 = None

from . import values as V
from .engine import ClassRef, EngineError, FuncRef, Ref, get_module
from .values import SBool, SInt, SOpq, SSeq, is_sym


class ForAll:
    """universally quantified clause  forall k. fn(k)  about the elements of sequence `over`.
    Proved by skolemisation (an arbitrary fresh k); when assumed it is attached to `over` and
    instantiated at every index at which `over` is read (explicit instantiation, no quantifiers
    reach the solver)."""

    def __init__(self, fn, over=None, trigger=True, mod=None, n=None, cases=None, guard=None):
        self.body = fn
        self.guard = guard  # forall k. guard(k) => fn(k); the body is evaluated with guard(k) in the path condition
        self.fn = self._full
        self.cases = cases  # fn(k) -> list of conditions: the goal is proved under each (plus their exhaustiveness)
        self.over = over
        self.n = n  # upper bound of the interesting indices (used by concrete evaluation when `over` is None)
        if over is None:
            trigger = False
        self.mod = mod  # prove separately for each residue class k = mod*q + r (keeps bit-position terms concrete)
        # trigger=True: the quantified variable is the element index of `over`, so the fact is instantiated
        # wherever `over` is read; trigger=False (e.g. bit indices): only goal-directed instantiation
        self.trigger = trigger


def _forall_full(self, k):
    from . import values as _V

    if self.guard is None:
        return self.body(k)
    g = self.guard(k)
    eng = _V.ENGINE
    if eng is not None and isinstance(g, _V.SBool):
        if getattr(eng, "_in_inst", 0) > 0 and _V.known(_V.Not(g), 40):
            # instantiation of an assumed fact at an index outside its guard: nothing to learn (skipping is sound)
            return True
        mark = len(eng.pc)
        eng.pc.append(g.t)
        try:
            b = self.body(k)
        finally:
            extra = eng.pc[mark + 1:]
            del eng.pc[mark:]
        # facts instantiated while evaluating the body (byte ranges etc.) hold unconditionally
        eng.pc.extend(extra)
        return _V.Implies(g, b)
    return _V.Implies(g, self.body(k)) if g is not False else True


ForAll._full = _forall_full


class RaiseSpec:
    """`cls` may be raised; `when(c, **bound)` (optional) restricts the pre-states in which it may be;
    with iff=True it is raised exactly then (so a normal return implies not when)."""

    def __init__(self, cls, when=None, iff=False, ensures=None, label=None):
        self.cls = cls
        self.when = when
        self.iff = iff
        self.ensures = ensures
        self.label = label or cls

    def when_formula(self, ctx, bound):
        if self.when is None:
            return None
        return self.when(ctx, **bound)


class LoopSpec:
    def __init__(self, name, inv, variant=None, unfold_init=None, unfold_step=None, target=None, rebind=(), shapes=None, cells=None, case_split=(), ghosts=(), asserts=None, ghost_step=None):
        self.name = name
        # ghost code run at the end of every iteration (before the invariant is re-established): may only assign
        # engine ghost variables (eng.ghost[...]) listed in `ghosts`; it cannot influence the real execution
        self.ghost_step = ghost_step
        self.inv = inv
        self.variant = variant
        self._unfold_init = unfold_init
        self._unfold_step = unfold_step
        self.target = target
        self.rebind = set(rebind)
        self.shapes = shapes or {}
        self.ghosts = list(ghosts)  # names of engine ghost variables modified by the loop (havoc'd at the head)
        self.asserts = asserts  # fn(c, L) -> [(label, formula)]: obligations at the normal end of an iteration
        self.case_split = list(case_split)  # [(local name or None, fn(c, L) -> int expr)]: fork the body on its values
        self.cells = cells or {}  # local name -> (elem kind) of the list cell it refers to when empty at loop entry

    def eval_inv(self, ctx, L):
        out = self.inv(ctx, L)
        return [(lab, f) for lab, f in out]

    def eval_variant(self, ctx, L):
        if self.variant is None:
            return None
        return self.variant(ctx, L)

    def unfold_init(self, ctx, L):
        return list(self._unfold_init(ctx, L)) if self._unfold_init else []

    def unfold_step(self, ctx, L):
        return list(self._unfold_step(ctx, L)) if self._unfold_step else []

    def allow_ref_rebind(self, n):
        return n in self.rebind

    def shape_of(self, n):
        return self.shapes.get(n)


class HeapSnap:
    """read-only view of a heap (pre-state or current state) for contract clauses"""

    def __init__(self, eng, heap):
        self.eng = eng
        self.heap = heap

    def raw(self, ref, name):
        return self.heap[ref.id][name]

    def has(self, ref, name):
        return name in self.heap[ref.id]

    def raw(self, ref, name):
        return self.heap[ref.id][name]

    def f(self, ref, name):
        """field value; list / bytearray cells are dereferenced to their content"""
        v = self.heap[ref.id][name]
        return self.deref(v)

    def deref(self, v):
        if isinstance(v, Ref):
            cell = self.heap[v.id]
            if cell["kind"] in ("list", "bytearray", "set"):
                items = cell["items"]
                if isinstance(items, tuple):
                    if all(not isinstance(e, (Ref, tuple)) and e is not None for e in items):
                        try:
                            return V.to_seq(list(items)) if any(is_sym(e) for e in items) else list(items)
                        except EngineError:
                            return items
                    return items
                return items
        return v

    def items(self, ref):
        return self.deref(ref)

    # streams
    def data(self, ref):
        return self.heap[ref.id]["data"]

    def pos(self, ref):
        return self.heap[ref.id]["pos"]

    def out(self, ref):
        cell = self.heap[ref.id]
        if cell["kind"] == "stream":
            return cell["data"]  # in-memory stream written sequentially at its end
        return cell["out"]

    def rest(self, ref):
        """unread part of an input stream"""
        return V.slice_(self.data(ref), self.pos(ref), None)

    def dict_items(self, ref):
        return self.heap[ref.id]["items"]

    def seeks(self, ref):
        """offsets passed to seek() on an output stream, in order"""
        cell = self.heap[ref.id]
        return [s[0] for s in cell.get("seeks", ())]

    def rl(self, ref):
        """view of a list-of-records cell (or of an object field holding one)"""
        from .reclist import RecView

        return RecView(self.heap[ref.id])


class Ctx(HeapSnap):
    """what contract clauses see: the current state + constructors for symbolic inputs"""

    def __init__(self, eng):
        self.eng = eng
        self._old = None

    @property
    def heap(self):
        return self.eng.heap

    def with_old(self, old):
        c = Ctx(self.eng)
        c._old = old
        return c

    def snapshot(self):
        return HeapSnap(self.eng, dict(self.eng.heap))

    @property
    def old(self):
        return self._old

    @property
    def bound(self):
        return self.eng.contract._bound

    def view(self, v):
        return self.deref(v)

    # --- constructors ---
    def int(self, name):
        return self.eng.fresh_int(name)

    def bool(self, name):
        return self.eng.fresh_bool(name)

    def bytes(self, name):
        return self.eng.fresh_seq(name, "byte", "bytes")

    def str(self, name):
        return self.eng.fresh_seq(name, "char", "str")

    def int_list(self, name):
        return self.eng.new_list(self.eng.fresh_seq(name, "int", "list"))

    def bool_list(self, name):
        return self.eng.new_list(self.eng.fresh_seq(name, "bool", "list"))

    def list_of(self, items):
        return self.eng.new_list(items)

    def dict_of(self, d, presence=None):
        r = self.eng.new_dict(d)
        if presence:
            self.eng.set_field(r, "presence", dict(presence))
        return r

    def opq(self, name):
        return self.eng.fresh_opq(name)

    def cipher(self, name="cipher"):
        """AES-CBC cipher object: `fed` = all bytes passed to encrypt/decrypt so far, `out` = all bytes returned;
        each call returns aes_cbc_stream(fed_before, x) of the same length (assumed contract of Cryptodome, DESIGN 6.4)"""
        fed = self.eng.fresh_seq(name + ".fed", "byte", "bytes")
        out = self.eng.fresh_seq(name + ".out", "byte", "bytes")
        self.eng.assume(V.L(fed) % 16 == 0)
        return self.eng.alloc("cipher", fed=fed, out=out, label=name)

    def regex(self, pattern):
        """a compiled regular expression object (only literal patterns with a model in builtins_model)"""
        return self.eng.alloc("pattern", pattern=pattern)

    def reclist(self, name, schema, as_objects=False, methods=None):
        """list of records with constant keys; with as_objects=True the records are OBJECTS whose attributes are the
        columns and whose listed argument-less methods return the named column (a pure function of the object)"""
        from .reclist import new_reclist

        r = new_reclist(self.eng, name, schema)
        if as_objects:
            self.eng.set_field(r, "as_objects", True)
            self.eng.set_field(r, "methods", dict(methods or {}))
        return r

    def instream(self, name="file", pos0=None):
        """input stream with arbitrary content and arbitrary position 0 <= pos <= len(data)"""
        data = self.eng.fresh_seq(name + ".data", "byte", "bytes")
        pos = self.eng.fresh_int(name + ".pos") if pos0 is None else pos0
        r = self.eng.new_stream(data, pos, name)
        if pos0 is None:
            self.eng.assume(pos >= 0)
            self.eng.assume(pos <= V.L(data))
        return r

    def outstream(self, name="file"):
        base = self.eng.fresh_int(name + ".base")
        self.eng.assume(base >= 0)
        out = self.eng.fresh_seq(name + ".out0", "byte", "bytes")
        return self.eng.new_outstream(base, out, name)

    def obj(self, clsname, module, **fields):
        m = get_module(module)
        cls = m.classes[clsname] if m is not None and clsname in m.classes else clsname
        return self.eng.new_object(cls, **fields)

    def choice(self, n):
        """contract-level case split: the function is verified once for each of the n alternatives"""
        return self.eng.decide([None] * n)

    def skolem(self, name):
        """an arbitrary but fixed integer: proving a clause for it proves it for all integers"""
        return V.fresh_int(name)

    def assume(self, f):
        self.eng.assume(f)

    def lemma(self, label, f):
        """proof hint that is itself PROVED here (an obligation of kind `hint`) and then available as a fact"""
        self.eng.oblig("hint", label, f, assume_after=True)

    def inst(self, k):
        """instantiate every recorded quantified fact at index term k (proof hint; adds only true facts)"""
        self.eng.instantiate_all(k)

    def appended(self, old, file):
        """bytes appended to output stream `file` since the state `old`"""
        cur, prev = self.out(file), old.out(file)
        r = V.strip_prefix(cur, prev)
        if r is not None:
            return r
        return V.slice_(cur, V.L(prev), None)

    def ghost_segments(self, file, names, concrete=None, optional=False):
        """the appended bytes as a sequence of named segments.
        prove mode : the segments this execution appended (one per write / callee / summarised loop), from the trace;
        assume mode: fresh sequences (existentially quantified results of the callee);
        (concrete mode: obtained by parsing, see ConcreteCtx)."""
        eng = self.eng
        if eng.ctx_mode == "assume":
            key = ("segs", file.id, tuple(names))
            if key not in eng._ghost_cache:
                eng._ghost_cache[key] = [eng.fresh_seq("seg_" + n, "byte", "bytes") for n in names]
            return eng._ghost_cache[key]
        segs = [sg for _, sg in eng.segments.get(file.id, [])]
        if not segs and optional:
            return [b""] * len(names)
        if len(segs) != len(names):
            raise EngineError("anchor lost: %s appends %d segments to the stream, the contract names %d (%s)" % (eng.contract.target, len(segs), len(names), ",".join(names)))
        return [V.to_seq(sg, "byte", "bytes") if not isinstance(sg, SSeq) else sg for sg in segs]

    def ghost_seq(self, name, elem="int", concrete=None, default=None):
        """a ghost sequence maintained by ghost code of the function under contract (LoopSpec.ghost_step).
        prove mode : its current value (eng.ghost[name]); `default` when the path never ran the ghost code;
        assume mode: a fresh sequence (existentially quantified ghost result of the callee);
        concrete   : computed from the real outcome by `concrete()` (see ConcreteCtx)."""
        eng = self.eng
        if eng.ctx_mode == "assume":
            key = ("gseq", name)
            if key not in eng._ghost_cache:
                eng._ghost_cache[key] = eng.fresh_seq("ghost_" + name, elem, "list")
            return eng._ghost_cache[key]
        if name not in eng.ghost:
            if default is not None:
                return V.to_seq(default, elem, "list") if not isinstance(default, SSeq) else default
            raise EngineError("anchor lost: ghost sequence %s was never assigned on this path" % name)
        return eng.ghost[name]

    def seq_of(self, name, fn, n, elem="bool"):
        """the sequence [fn(0), ..., fn(n-1)] as a spec-level value (fresh sequence + element facts)"""
        key = ("seq_of", name)
        cache = self.eng.ghost.setdefault("seq_of", {})
        if name in cache:
            return cache[name]
        s = self.eng.fresh_seq(name, elem, "list")
        self.eng.assume(V.L(s) == V.max_(n, 0))
        self.eng.register_forall(ForAll(lambda k: V.Implies(V.And(k >= 0, k < n), V.eq(V.nth(s, k), fn(k))), over=s))
        cache[name] = s
        return s

    def local(self, name):
        return self.view(self.eng.frames[0].env[name])

    def ghost(self):
        return self.eng.ghost

    @property
    def trace(self):
        return self.eng.trace

    def pc_implies(self, f):
        return self.eng.prove_now(f, timeout_ms=5000)

    def oblig(self, kind, label, goal, props=None, assume_after=False):
        self.eng.oblig(kind, label, goal, props=props, assume_after=assume_after)


class Contract:
    target = None  # "py7zr.module:QualName"
    props = ()
    abstract = False
    assert_mode = "raise"  # repo `assert` statements: "raise" = AssertionError path, "check" = obligation
    unroll_limit = 64
    missing_attr_raises = False
    track_raises = False
    ostream_seek_ok = False
    sum_model = None
    inline = ()
    opaque = ()
    pure = ()
    noraise = ()
    stable_attrs = ()
    stmt_hooks = ()
    default_raise = "Exception"
    mode = "exact"
    assumptions = ()  # free-text assumptions specific to this contract (reported in evidence)
    bounded_note = None
    sample_bounds = {}  # input name -> (lo, hi): domain used by concrete sampling / replay search only

    replayable = None  # None: replayable iff not abstract; True/False overrides

    def is_replayable(self):
        """can the contract be evaluated concretely on real executions (replay / cross-check)?"""
        if self.replayable is not None:
            return bool(self.replayable)
        return not self.abstract and getattr(self, "cross_check", True)

    # ---- to be provided by concrete contracts ----
    def setup(self, c):
        raise NotImplementedError

    def requires(self, c, **b):
        return []

    def ensures(self, c, old, result, **b):
        return []

    def raises(self):
        return []

    def modifies(self, c, **b):
        return []

    def fresh_result(self, c, **b):
        return None

    def loops(self):
        return {}

    def hooks(self):
        return {}

    def xensures(self, c, old, exc, **b):
        """exceptional postconditions: list of (label, formula)"""
        return []

    # ---- machinery ----
    def raises_list(self):
        return [r if isinstance(r, RaiseSpec) else RaiseSpec(r) for r in self.raises()]

    def raises_classes(self):
        return [r.cls for r in self.raises_list()]

    def raise_spec(self, cls):
        from .engine import exc_is_subclass

        for r in self.raises_list():
            if exc_is_subclass(cls, r.cls):
                return r
        return None

    def has_xposts(self):
        return type(self).xensures is not Contract.xensures or any(r.when is not None for r in self.raises_list())

    def func(self):
        mod, qn = self.target.split(":")
        m = get_module(mod)
        if m is None:
            raise EngineError("module %s not found" % mod)
        fr = m.find_function(qn)
        return fr

    def param_names(self):
        fr = self.func()
        if fr is None:
            raise EngineError("anchor lost: function %s not found" % self.target)
        a = fr.node.args
        # the receiver is called `self_` in contract clauses (`self` is the contract object itself)
        return [("self_" if x.arg == "self" else x.arg) for x in a.posonlyargs + a.args], fr

    def call_args(self, bound):
        names, fr = self.param_names()
        args = []
        for n in names:
            if n not in bound:
                break
            args.append(bound[n])
        kwargs = {k: v for k, v in bound.items() if k not in names and not k.startswith("_")}
        return args, kwargs

    def bind(self, ctx, args, kwargs):
        names, fr = self.param_names()
        if "staticmethod" in fr.decorators and False:
            pass
        b = {}
        for n, a in zip(names, args):
            b[n] = a
        defaults = fr.node.args.defaults
        dstart = len(names) - len(defaults)
        for i, n in enumerate(names):
            if n in b:
                continue
            if n in kwargs:
                b[n] = kwargs[n]
            elif i >= dstart:
                try:
                    b[n] = ast.literal_eval(defaults[i - dstart])
                except Exception:
                    try:
                        # constant arithmetic such as 1024 * 1024 (no names, no calls)
                        node = defaults[i - dstart]
                        if any(isinstance(x, (ast.Name, ast.Call, ast.Attribute)) for x in ast.walk(node)):
                            raise ValueError
                        b[n] = eval(compile(ast.Expression(node), "<default>", "eval"), {"__builtins__": {}})
                    except Exception:
                        raise EngineError("non-literal default of %s in %s" % (n, self.target))
            else:
                raise EngineError("missing argument %s calling %s" % (n, self.target))
        for a, d in zip(fr.node.args.kwonlyargs, fr.node.args.kw_defaults):
            if a.arg in kwargs:
                b[a.arg] = kwargs[a.arg]
            elif d is not None:
                b[a.arg] = ast.literal_eval(d)
        return b

    def _pub(self, bound):
        return {k: v for k, v in bound.items() if not k.startswith("_")} | {k: v for k, v in bound.items() if k.startswith("_")}

    def eval_requires(self, ctx, bound):
        return list(self.requires(ctx, **bound))

    def eval_ensures(self, ctx, old, bound, result):
        out = []
        for item in self.ensures(ctx, old, result, **bound):
            kind = "post"
            if len(item) > 3 and isinstance(item[3], dict):
                kind = item[3].get("kind", "post")  # "finding": an obligation that is expected to be refuted (known finding)
            if len(item) == 2:
                out.append((kind, item[0], item[1], None))
            else:
                out.append((kind, item[0], item[1], item[2]))
        return out

    def eval_xposts(self, ctx, old, bound, exc):
        out = []
        spec = self.raise_spec(exc.cls)
        if spec is not None and spec.when is not None:
            w = spec.when(ctx.with_old(old), **bound)
            out.append(("xpost", "%s-only-when" % spec.label, w, None))
        for item in self.xensures(ctx, old, exc, **bound):
            kind = "xpost"
            if len(item) > 3 and isinstance(item[3], dict):
                kind = item[3].get("kind", "xpost")
            out.append((kind, item[0], item[1], item[2] if len(item) > 2 else None))
        return out

    def eval_xensures(self, ctx, old, bound, rs):
        if rs.ensures is None:
            return []
        return list(rs.ensures(ctx, old, **bound))

    def apply_modifies(self, ctx, bound):
        eng = ctx.eng
        for loc in self.modifies(ctx, **bound):
            ref, field = loc
            cur = eng.heap[ref.id].get(field)
            if eng.heap[ref.id]["kind"] == "reclist" and field == "cols":
                from .reclist import havoc_cols

                eng.set_field(ref, "cols", havoc_cols(eng, eng.heap[ref.id], eng.heap[ref.id].get("label", "recs") + "_post"))
                continue
            if eng.heap[ref.id]["kind"] == "stream" and field == "out":
                # a writer contract applied to an in-memory stream positioned at its end: appends there
                cell = eng.heap[ref.id]
                if not eng.prove_now(V.eq(cell["pos"], V.L(cell["data"]))):
                    raise EngineError("writer contract applied to a memory stream that is not positioned at its end")
                ext = eng.fresh_seq("%s.ext" % cell.get("label", "mem"), "byte", "bytes")
                eng.set_field(ref, "data", V.concat(cell["data"], ext))
                eng.set_field(ref, "pos", cell["pos"] + V.L(ext))
                continue
            if eng.heap[ref.id]["kind"] == "ostream" and field == "out":
                # append-only: the callee can only have extended the stream
                ext = eng.fresh_seq("%s.ext" % eng.heap[ref.id].get("label", "out"), "byte", "bytes")
                eng.set_field(ref, "out", V.concat(cur, ext))
                continue
            if isinstance(cur, Ref):
                cell = eng.heap[cur.id]
                if cell["kind"] in ("list", "bytearray"):
                    items = cell["items"]
                    eng.set_field(cur, "items", eng.fresh_like(items if not isinstance(items, tuple) else tuple(items), "%s.%s" % (eng.heap[ref.id].get("label", "o"), field)))
                    continue
                raise EngineError("modifies of reference field %s" % field)
            eng.set_field(ref, field, eng.fresh_like(cur, "%s.%s_post" % (eng.heap[ref.id].get("label", "o%d" % ref.id), field)))

    def loop_spec_for(self, key, st):
        spec = self.loops().get(key.replace("py7zr.", "", 1))
        if spec is None:
            spec = self.loops().get(key)
        if spec is not None and spec.target is not None and st is not None:
            txt = ast.unparse(st.target) + " in " + ast.unparse(st.iter) if isinstance(st, ast.For) else ast.unparse(st.test)
            if txt.replace(" ", "") != spec.target.replace(" ", ""):
                raise EngineError("anchor lost: loop %s is now `%s`, contract expects `%s`" % (key, txt, spec.target))
        return spec

    def comp_spec_for(self, fkey, node):
        return self.comprehensions().get(ast.unparse(node).replace(" ", ""))

    def comprehensions(self):
        return {}

    def hooks_for(self, kind, name):
        h = self.hooks()
        out = h.get((kind, name), []) + h.get((kind, None), [])
        short = str(name).split(":")[-1].split(".")[-1]
        if short != name:
            out = out + h.get((kind, short), [])
        return out

    def callee_mode(self, key):
        k = key.replace("py7zr.", "", 1)
        if key in self.inline or k in self.inline:
            return "inline"
        if key in self.opaque or k in self.opaque:
            return "opaque"
        return None

    def global_override(self, modname, name):
        return None

    def pure_function(self, name):
        nm = str(name)
        short = nm.replace("py7zr.", "", 1)
        if nm in self.pure or short in self.pure or short.split(":")[-1] in self.pure:
            def model(ctx, recv, args, kwargs, nm=short):
                from .builtins_model import _box

                eng = ctx.eng
                allargs = ([recv] if recv is not None else []) + list(args) + [kwargs[k] for k in sorted(kwargs)]
                f = V.uf("pure_" + nm.replace(":", "_").replace(".", "_") + "_%d" % len(allargs), *([V.vsort()] * len(allargs) + [V.vsort()]))
                if not allargs:
                    return SOpq(z3.Const("pure_" + nm, V.vsort()))
                return SOpq(f(*[_box(eng, a).t for a in allargs]))

            return model
        return None

    def callee_may_raise(self, name):
        nm = str(name)
        short = nm.replace("py7zr.", "", 1)
        if nm in self.noraise or short in self.noraise or short.split(":")[-1] in self.noraise or nm.split(":")[-1].split(".")[-1] in self.noraise:
            return None
        return self.default_raise

    def attr_model(self, attr):
        return None

    def attr_is_stable(self, attr):
        return attr in self.stable_attrs or "*" in self.stable_attrs

    def getitem_model(self, o):
        return None

    def isinstance_model(self, x, tn):
        return None

    def hasattr_model(self, dotted, name):
        return None

    def reduce_model(self, f, c, init, node):
        return None


class Lemma:
    """formula over contracts / spec functions only (no code): proved directly"""

    name = None
    props = ()

    def statements(self, c):
        """yield (label, hypotheses(list of formulas), goal)"""
        return []


class Registry:
    def __init__(self):
        self.contracts = {}
        self.lemmas = []
        self.inline = set()
        self.bounded = []
        self.scenarios = []

    def add(self, ct):
        inst = ct() if isinstance(ct, type) else ct
        if inst.target in self.contracts:
            raise ValueError("duplicate contract for %s" % inst.target)
        self.contracts[inst.target] = inst
        return ct

    def add_lemma(self, lm):
        inst = lm() if isinstance(lm, type) else lm
        self.lemmas.append(inst)
        return lm

    def contract_for(self, key):
        return self.contracts.get(key)

    def resolve_target(self, target):
        mod, qn = target.split(":")
        m = get_module(mod)
        if m is None:
            raise EngineError("anchor lost: module %s" % mod)
        fr = m.find_function(qn)
        if fr is None:
            raise EngineError("anchor lost: function %s not found in %s" % (qn, mod))
        return fr

    def for_property(self, pid):
        return [c for c in self.contracts.values() if pid in c.props]

    def lemmas_for(self, pid):
        return [l for l in self.lemmas if pid in l.props]


REGISTRY = Registry()


def contract(cls):
    REGISTRY.add(cls)
    return cls


def lemma(cls):
    REGISTRY.add_lemma(cls)
    return cls
