"""Models of the CPython built-ins / stdlib functions the FUCs use (assumed contracts, DESIGN.md 6.3)."""
from __future__ import annotations

import ast
import binascii

try:
    import z3
except Exception:  # concrete-only interpreter (/venv/bin/python)
    z3 = None

from . import values as V
from .engine import (
    BoundMethod,
    BuiltinMethod,
    ClassRef,
    EngineError,
    EnumerateV,
    ExcV,
    ExtRef,
    FuncRef,
    LambdaV,
    PyModuleV,
    PyObjV,
    RaiseExc,
    RangeV,
    Ref,
    RepoModuleV,
    ZipV,
    exc_is_subclass,
)
from .values import SBool, SInt, SOpq, SSeq, is_sym

SEQ_TYPES = (SSeq, bytes, bytearray, str, tuple)


# ------------------------------------------------------------------------------------------------
# helpers


def is_bytes_like(v):
    return isinstance(v, (bytes, bytearray)) or (isinstance(v, SSeq) and v.py in ("bytes", "bytearray"))


def is_str(v):
    return isinstance(v, str) or (isinstance(v, SSeq) and v.py == "str")


def seq_content(eng, v):
    """immutable sequence content of a value (derefs list/bytearray cells)"""
    if isinstance(v, Ref):
        k = eng.kind(v)
        if k in ("list", "bytearray", "set"):
            return eng.get_field(v, "items")
        raise EngineError("not a sequence cell: %s" % k)
    return v


def byte_range_fact(eng, s, e):
    """bytes elements are in 0..255 (type invariant instantiated at access)"""
    if isinstance(s, SSeq) and s.elem == "byte" and isinstance(e, SInt):
        eng.pc.append(z3.And(e.t >= 0, e.t < 256))


def crc_fn():
    return V.uf("crc32", V.seq_sort("byte"), z3.IntSort(), z3.IntSort())


def crc32(eng, data, init=0):
    d = V.to_seq(data, elem="byte", py="bytes") if not isinstance(data, SSeq) else data
    r = SInt(crc_fn()(d.t, V._zi(init)))
    if eng is not None:
        eng.pc.append(z3.And(r.t >= 0, r.t < (1 << 32)))
        # crc of the empty string is the (masked) seed
        eng.pc.append(z3.Implies(z3.Length(d.t) == 0, r.t == V._zi(init) % (1 << 32)))
    return r


# ------------------------------------------------------------------------------------------------
# attribute access


def get_attr(eng, o, attr, node):
    if isinstance(o, Ref):
        k = eng.kind(o)
        if k == "obj":
            if eng.has_field(o, attr):
                return eng.get_field(o, attr)
            cls = eng.get_field(o, "cls")
            if isinstance(cls, ClassRef):
                m = cls.find_method(attr)
                if m is not None:
                    if "property" in m.decorators:
                        return eng.call_funcref(m, [], {}, node, self_v=o)
                    if "staticmethod" in m.decorators:
                        return m
                    return BoundMethod(o, m)
                if attr in cls.class_attrs:
                    return eng.eval(cls.class_attrs[attr]) if not isinstance(cls.class_attrs[attr], ClassRef) else cls.class_attrs[attr]
            if eng.contract.missing_attr_raises:
                raise RaiseExc("AttributeError", (), node, implicit=True)
            raise EngineError("object has no field %s at %s" % (attr, eng._anchor(node)))
        if k in ("pattern", "match", "cipher"):
            return BuiltinMethod(o, attr)
        if k == "path":
            if attr == "parts":
                return eng.get_field(o, "parts")
            return BuiltinMethod(o, attr)
        if k in ("stream", "ostream", "list", "dict", "bytearray", "set"):
            if k in ("stream", "ostream") and attr == "name":
                return eng.get_field(o, "name") if eng.has_field(o, "name") else None
            return BuiltinMethod(o, attr)
        raise EngineError("attribute %s of cell kind %s" % (attr, k))
    if isinstance(o, ClassRef):
        m = o.find_method(attr)
        if m is not None:
            if "classmethod" in m.decorators:
                return BoundMethod(o, m)
            return m
        if attr in o.class_attrs:
            ca = o.class_attrs[attr]
            return ca if isinstance(ca, ClassRef) else eng.eval(ca)
        raise EngineError("class attribute %s.%s" % (o.name, attr))
    if isinstance(o, ExtRef):
        if o.dotted == "builtins.int" and attr == "from_bytes":
            return ExtRef("int.from_bytes")
        if o.dotted == "sys" and attr == "platform":
            return "linux"  # platform assumption of every check (POSIX branch of the code), stated in the evidence
        if o.dotted == "os" and attr == "name":
            return "posix"
        if o.dotted == "os" and attr == "sep":
            return "/"
        if o.dotted == "posixpath" and attr == "sep":
            return "/"
        if o.dotted == "stat":
            import stat as _stat

            if isinstance(getattr(_stat, attr, None), int):
                return getattr(_stat, attr)  # POSIX constants of the stat module (platform assumption)
        return ExtRef(o.dotted + "." + attr)
    if isinstance(o, PyObjV):
        return eng.from_python(getattr(o.obj, attr))
    if isinstance(o, PyModuleV):
        return eng.from_python(getattr(o.mod, attr))
    if isinstance(o, RepoModuleV):
        return eng.lookup_global(o.mod, attr, node)
    if isinstance(o, ExcV):
        if attr == "args":
            return tuple(o.args)
        if attr == "errno":
            return eng.fresh_opq("errno") if eng.abstract else None
        raise EngineError("exception attribute %s" % attr)
    if isinstance(o, SOpq):
        if not eng.abstract:
            raise EngineError("attribute of opaque value outside abstract mode")
        model = eng.contract.attr_model(attr)
        if model is not None:
            return model(eng.ctx, o)
        ver = eng.ghost.get("heapver", 0) if not eng.contract.attr_is_stable(attr) else 0
        f = V.uf("attr_" + attr, V.vsort(), z3.IntSort(), V.vsort())
        val = SOpq(f(o.t, z3.IntVal(ver)))
        for (wo, wv) in eng.attr_log.get(attr, []):
            val = V.ite(V.eq(o, wo), _box(eng, wv), val)
        return val
    if o is None:
        raise RaiseExc("AttributeError", (), node, implicit=True)
    if isinstance(o, (int, SInt, SBool, bytes, bytearray, str, SSeq, tuple, float)):
        return BuiltinMethod(o, attr)
    if isinstance(o, (FuncRef, LambdaV)):
        raise EngineError("attribute of function")
    raise EngineError("attribute %s of %r" % (attr, o))


# ------------------------------------------------------------------------------------------------
# operators


def _as_int(v):
    from .reclist import OptV

    if isinstance(v, SOpq) and V.ENGINE is not None and getattr(V.ENGINE, "abstract", False):
        # an opaque value used as a number: its integer value (abstract mode)
        return SInt(V.uf("to_int", V.vsort(), z3.IntSort())(v.t))
    if isinstance(v, OptV):
        eng = V.ENGINE
        return eng.unopt(v) if eng is not None else v.val
    if isinstance(v, bool):
        return int(v)
    if isinstance(v, SBool):
        return V.ite(v, 1, 0)
    return v


def binop(eng, op, a, b, node):
    if isinstance(a, SOpq) or isinstance(b, SOpq):
        if not eng.abstract:
            raise EngineError("arithmetic on opaque value")
        name = "op_" + type(op).__name__
        f = V.uf(name, V.vsort(), V.vsort(), V.vsort())
        return SOpq(f(_box(eng, a).t, _box(eng, b).t))
    if isinstance(a, Ref) or isinstance(b, Ref):
        # list + list
        if isinstance(op, ast.Add) and isinstance(a, Ref) and isinstance(b, Ref) and eng.kind(a) == eng.kind(b) and eng.kind(a) in ("list", "bytearray"):
            ca, cb = seq_content(eng, a), seq_content(eng, b)
            if isinstance(ca, tuple) and isinstance(cb, tuple):
                return eng.new_list(ca + cb) if eng.kind(a) == "list" else eng.alloc("bytearray", items=ca + cb)
            r = V.concat(_seqify(ca), _seqify(cb))
            return eng.new_list(r) if eng.kind(a) == "list" else eng.alloc("bytearray", items=r)
        if isinstance(op, ast.Add) and (is_bytes_like(a) or is_bytes_like(b)):
            ca = seq_content(eng, a) if isinstance(a, Ref) else a
            cb = seq_content(eng, b) if isinstance(b, Ref) else b
            r = V.concat(ca, cb)
            if isinstance(a, Ref) and eng.kind(a) == "bytearray":
                return eng.alloc("bytearray", items=r)
            return r
        if isinstance(op, ast.Mult):
            lst, n = (a, b) if isinstance(a, Ref) else (b, a)
            if eng.kind(lst) == "list":
                items = eng.list_items(lst)
                if isinstance(items, tuple) and not is_sym(n):
                    return eng.new_list(items * n)
                if isinstance(items, tuple) and len(items) == 1:
                    return eng.new_list(repeat_elem(eng, items[0], n))
        raise EngineError("operator %s on heap cells" % type(op).__name__)
    if isinstance(op, ast.Add):
        if isinstance(a, SEQ_TYPES) or isinstance(b, SEQ_TYPES):
            if isinstance(a, tuple) and isinstance(b, tuple):
                return a + b
            return V.concat(a, b)
        return _as_int(a) + _as_int(b)
    if isinstance(op, ast.Sub):
        return _as_int(a) - _as_int(b)
    if isinstance(op, ast.Mult):
        if isinstance(a, SEQ_TYPES) or isinstance(b, SEQ_TYPES):
            s, n = (a, b) if isinstance(a, SEQ_TYPES) else (b, a)
            if not is_sym(s) and not is_sym(n):
                return s * n
            if not is_sym(s) and len(s) == 1 and is_bytes_like(s):
                if s == b"\x00":
                    return V.repeat_zero_bytes(n)
            raise EngineError("sequence repetition with symbolic operand")
        if isinstance(a, float) or isinstance(b, float):
            raise EngineError("float arithmetic")
        return _as_int(a) * _as_int(b)
    if isinstance(op, ast.FloorDiv):
        a, b = _as_int(a), _as_int(b)
        if is_sym(b):
            eng.safety(b > 0, "ZeroDivisionError", "divisor-positive", node)
        elif b == 0:
            raise RaiseExc("ZeroDivisionError", (), node, implicit=True)
        return V.floordiv(a, b)
    if isinstance(op, ast.Mod):
        if is_str(a):
            return "<formatted>"
        a, b = _as_int(a), _as_int(b)
        if is_sym(b):
            eng.safety(b > 0, "ZeroDivisionError", "divisor-positive", node)
        elif b == 0:
            raise RaiseExc("ZeroDivisionError", (), node, implicit=True)
        return V.mod(a, b)
    if isinstance(op, ast.BitAnd):
        if isinstance(a, (bool, SBool)) and isinstance(b, (bool, SBool)):
            return V.And(a, b)
        a, b = _as_int(a), _as_int(b)
        if is_sym(a) and is_sym(b):
            _need_byte(eng, a, node)
            _need_byte(eng, b, node)
        return V.bitand(a, b)
    if isinstance(op, ast.BitOr):
        if isinstance(a, (bool, SBool)) and isinstance(b, (bool, SBool)):
            return V.Or(a, b)
        a, b = _as_int(a), _as_int(b)
        if is_sym(a) and is_sym(b):
            _need_byte(eng, a, node)
            _need_byte(eng, b, node)
        return V.bitor(a, b)
    if isinstance(op, ast.BitXor):
        a, b = _as_int(a), _as_int(b)
        if is_sym(a) and is_sym(b):
            _need_byte(eng, a, node)
            _need_byte(eng, b, node)
        return V.bitxor(a, b)
    if isinstance(op, ast.LShift):
        a, b = _as_int(a), _as_int(b)
        if is_sym(b):
            eng.safety(b >= 0, "ValueError", "shift-nonneg", node)
            _need_range(eng, b, 0, V.POW2_MAX, node, "shift-amount-bounded")
        elif b < 0:
            raise RaiseExc("ValueError", (), node, implicit=True)
        return V.shl(a, b)
    if isinstance(op, ast.RShift):
        a, b = _as_int(a), _as_int(b)
        if is_sym(b):
            eng.safety(b >= 0, "ValueError", "shift-nonneg", node)
            _need_range(eng, b, 0, V.POW2_MAX, node, "shift-amount-bounded")
        elif b < 0:
            raise RaiseExc("ValueError", (), node, implicit=True)
        return V.shr(a, b)
    if isinstance(op, ast.Div):
        raise EngineError("true division (float)")
    if isinstance(op, ast.Pow):
        if not is_sym(a) and not is_sym(b):
            return a**b
        raise EngineError("symbolic power")
    raise EngineError("operator %s" % type(op).__name__)


def _need_byte(eng, v, node):
    """symbolic & symbolic is encoded byte-wide: the engine must know both operands are bytes"""
    if not eng.prove_now(V.And(v >= 0, v < 256)):
        raise EngineError("bit operation on two symbolic operands not known to be bytes at %s" % eng._anchor(node))


def _need_range(eng, v, lo, hi, node, what):
    if not eng.prove_now(V.And(v >= lo, v <= hi)):
        raise EngineError("%s cannot be established at %s" % (what, eng._anchor(node)))


def _box(eng, v):
    if isinstance(v, Ref):
        f = V.uf("ref", z3.IntSort(), V.vsort())
        return SOpq(f(z3.IntVal(v.id)))
    if isinstance(v, (FuncRef, ClassRef, ExtRef, BoundMethod, BuiltinMethod, LambdaV, ExcV, PyObjV)):
        f = V.uf("pyobj", z3.IntSort(), V.vsort())
        return SOpq(f(z3.IntVal(abs(hash(repr(v))) % (1 << 30))))
    if isinstance(v, float):
        f = V.uf("pyfloat", z3.IntSort(), V.vsort())
        return SOpq(f(z3.IntVal(abs(hash(v)) % (1 << 30))))
    if isinstance(v, tuple):
        f = V.uf("pytuple%d" % len(v), *([V.vsort()] * len(v) + [V.vsort()]))
        if not v:
            return SOpq(z3.Const("empty_tuple", V.vsort()))
        parts = [_box(eng, x).t for x in v]
        r = SOpq(f(*parts))
        if eng.abstract:
            # projections of a boxed tuple (what unpacking an opaque value reads): item(tuple(a, b), 0) == a ...
            it = V.uf("item", V.vsort(), z3.IntSort(), V.vsort())
            for i, pt in enumerate(parts):
                eng.pc.append(it(r.t, z3.IntVal(i)) == pt)
        return r
    return V.box(v)


def _seqify(c):
    if isinstance(c, tuple):
        return V.to_seq(list(c))
    return c


def repeat_elem(eng, x, n):
    """[x] * n with symbolic n: fresh sequence r with |r| = max(n,0) and r[k] = x for the skolem points
    the engine instantiates (represented by an uninterpreted function of (x, n))"""
    if isinstance(x, (bool, SBool)):
        f = V.uf("rep_bool", z3.BoolSort(), z3.IntSort(), V.seq_sort("bool"))
        r = SSeq(f(V._zb(x), V._zi(n)), "bool", "list")
    else:
        f = V.uf("rep_int", z3.IntSort(), z3.IntSort(), V.seq_sort("int"))
        r = SSeq(f(V._zi(x), V._zi(n)), "int", "list")
    from .contract import ForAll

    eng.pc.append(z3.Length(r.t) == z3.If(V._zi(n) >= 0, V._zi(n), 0))
    eng.register_forall(ForAll(lambda k: rep_facts(r, x, n, k), over=r))
    return r


def rep_facts(r, x, n, k):
    """r = [x]*n  =>  (0 <= k < n => r[k] == x)"""
    return V.Implies(V.And(k >= 0, k < n), V.eq(V.nth(r, k), x))


def compare(eng, op, a, b, node):
    if isinstance(op, (ast.Is, ast.IsNot)):
        r = _identity(eng, a, b)
        return V.Not(r) if isinstance(op, ast.IsNot) else r
    if isinstance(op, (ast.In, ast.NotIn)):
        r = _contains(eng, b, a, node)
        return V.Not(r) if isinstance(op, ast.NotIn) else r
    if isinstance(a, Ref) and isinstance(b, Ref) and eng.kind(a) in ("list", "bytearray") and eng.kind(b) == eng.kind(a):
        a, b = seq_content(eng, a), seq_content(eng, b)
        a = list(a) if isinstance(a, tuple) else a
        b = list(b) if isinstance(b, tuple) else b
    elif isinstance(a, Ref) and eng.kind(a) == "bytearray":
        a = seq_content(eng, a)
    elif isinstance(b, Ref) and eng.kind(b) == "bytearray":
        b = seq_content(eng, b)
    if isinstance(op, ast.Eq):
        return _eq(eng, a, b)
    if isinstance(op, ast.NotEq):
        return V.Not(_eq(eng, a, b))
    if isinstance(a, SOpq) or isinstance(b, SOpq):
        if not eng.abstract:
            raise EngineError("ordering of opaque values")
        f = V.uf("cmp_" + type(op).__name__, V.vsort(), V.vsort(), z3.BoolSort())
        return SBool(f(_box(eng, a).t, _box(eng, b).t))
    if isinstance(a, tuple) and isinstance(b, tuple):
        if not any(is_sym(x) for x in a + b):
            return _pycmp(op, a, b)
        raise EngineError("tuple ordering with symbolic members")
    if isinstance(a, SEQ_TYPES) or isinstance(b, SEQ_TYPES):
        if not is_sym(a) and not is_sym(b):
            return _pycmp(op, a, b)
        raise EngineError("ordering of symbolic sequences")
    a, b = _as_int(a), _as_int(b)
    if a is None or b is None:
        raise RaiseExc("TypeError", (), node, implicit=True)
    return _pycmp(op, a, b)


def _pycmp(op, a, b):
    if isinstance(op, ast.Lt):
        return a < b
    if isinstance(op, ast.LtE):
        return a <= b
    if isinstance(op, ast.Gt):
        return a > b
    if isinstance(op, ast.GtE):
        return a >= b
    raise EngineError("comparison op")


def _eq(eng, a, b):
    if isinstance(a, Ref) or isinstance(b, Ref):
        if isinstance(a, Ref) and isinstance(b, Ref):
            return a.id == b.id
        if isinstance(a, SOpq) or isinstance(b, SOpq):
            return V.eq(_box(eng, a), _box(eng, b))
        return False
    if isinstance(a, SOpq) or isinstance(b, SOpq):
        return V.eq(_box(eng, a), _box(eng, b))
    if isinstance(a, (FuncRef, ClassRef, ExtRef, PyObjV)) or isinstance(b, (FuncRef, ClassRef, ExtRef, PyObjV)):
        return a is b or (isinstance(a, ExtRef) and a == b)
    if isinstance(a, float) or isinstance(b, float):
        if not is_sym(a) and not is_sym(b):
            return a == b
        raise EngineError("float comparison")
    return V.eq(a, b)


def _identity(eng, a, b):
    from .reclist import OptV

    if a is None or b is None:
        other = b if a is None else a
        if other is None:
            return True
        if isinstance(other, OptV):
            return other.none
        if isinstance(other, SOpq):
            return V.eq(other, None)
        return False
    if isinstance(a, bool) and isinstance(b, bool):
        return a is b
    if isinstance(a, (SBool, bool)) and isinstance(b, (SBool, bool)):
        return V.eq(a, b)  # `x is True` on a bool-typed value
    if isinstance(a, Ref) and isinstance(b, Ref):
        return a.id == b.id
    if isinstance(a, SOpq) or isinstance(b, SOpq):
        return V.eq(_box(eng, a), _box(eng, b))
    if isinstance(a, (int, SInt)) and isinstance(b, (bool,)):
        return False
    if isinstance(b, (int, SInt)) and isinstance(a, (bool,)):
        return False
    return a is b


def _contains(eng, container, x, node):
    if isinstance(container, Ref):
        k = eng.kind(container)
        if k == "dict":
            if isinstance(x, SOpq) and eng.abstract:
                # abstract mode: membership of an opaque key is unconstrained (every outcome explored)
                return eng.fresh_bool("in_dict")
            if is_sym(x):
                raise EngineError("symbolic key lookup")
            if eng.has_field(container, "sym_written") and eng.get_field(container, "sym_written"):
                raise EngineError("concrete lookup in a dict written under an opaque key")
            d = eng.get_field(container, "items")
            if x in d:
                return True
            # optional keys with symbolic presence
            pres = eng.get_field(container, "presence") if eng.has_field(container, "presence") else {}
            if x in pres:
                return pres[x]
            return False
        items = seq_content(eng, container)
        if isinstance(items, tuple):
            return V.Or(*[_eq(eng, x, e) for e in items]) if items else False
        if isinstance(items, SSeq):
            if items.elem == "bool":
                raise EngineError("`in` over a symbolic bool list")
            return SBool(z3.Contains(items.t, z3.Unit(V._zi(x))))
    if isinstance(container, tuple):
        return V.Or(*[_eq(eng, x, e) for e in container]) if container else False
    if isinstance(container, (bytes, str)) and not is_sym(x):
        return x in container
    if isinstance(container, BuiltinMethod):
        pass
    if isinstance(container, SOpq):
        if not eng.abstract:
            raise EngineError("`in` on opaque value")
        f = V.uf("contains", V.vsort(), V.vsort(), z3.BoolSort())
        return SBool(f(container.t, _box(eng, x).t))
    if isinstance(container, SSeq) or is_sym(x):
        c = V.to_seq(container)
        if isinstance(x, (SSeq, bytes, str)):
            return SBool(z3.Contains(c.t, V.to_seq(x).t))
        return SBool(z3.Contains(c.t, z3.Unit(V._zi(x))))
    raise EngineError("`in` on %r" % (container,))


# ------------------------------------------------------------------------------------------------
# subscripts


def get_item(eng, o, idx, node):
    from . import reclist as RL

    if isinstance(o, RL.RecElem):
        if is_sym(idx):
            raise EngineError("symbolic key in record access")
        return RL.elem_get(eng, o, idx, node)
    if isinstance(o, Ref) and eng.kind(o) == "reclist":
        n = eng.heap[o.id]["n"]
        idx = _as_int(idx)
        eng.safety(V.And(idx >= -n, idx < n), "IndexError", "index-in-range", node)
        if is_sym(idx):
            i2 = idx if V.known(idx >= 0) else V.ite(idx < 0, idx + n, idx)
        else:
            i2 = idx if idx >= 0 else n + idx
        return RL.RecElem(o, i2)
    if isinstance(o, Ref):
        k = eng.kind(o)
        if k == "dict":
            if isinstance(idx, (SOpq,)) and eng.abstract:
                return eng.opaque_call("dict.__getitem__", o, [idx], {}, node)
            d = eng.get_field(o, "items")
            if is_sym(idx):
                # symbolic key into a dict with concrete keys: case split over the keys, KeyError otherwise
                for kk in list(d.keys()):
                    if is_sym(kk):
                        raise EngineError("symbolic dict key")
                    if isinstance(kk, (str, bytes)) and eng.branch(V.eq(idx, kk)):
                        return d[kk]
                raise RaiseExc("KeyError", (idx,), node, implicit=True)
            pres = eng.get_field(o, "presence") if eng.has_field(o, "presence") else {}
            if idx in pres:
                eng.safety(pres[idx], "KeyError", "key-present", node)
            if idx in d:
                return d[idx]
            raise RaiseExc("KeyError", (idx,), node, implicit=True)
        if k in ("list", "bytearray"):
            items = eng.get_field(o, "items")
            return _seq_index(eng, items, idx, node, k)
        raise EngineError("subscript of cell %s" % k)
    if isinstance(o, (SSeq, bytes, bytearray, str, tuple)):
        return _seq_index(eng, o, idx, node, None)
    if isinstance(o, SOpq):
        if not eng.abstract:
            raise EngineError("subscript of opaque")
        model = eng.contract.getitem_model(o)
        if model is not None:
            return model(eng.ctx, o, idx)
        f = V.uf("getitem", V.vsort(), V.vsort(), z3.IntSort(), V.vsort())
        ver = 0 if getattr(eng.contract, "stable_getitem", False) else eng.ghost.get("heapver", 0)
        return SOpq(f(o.t, _box(eng, idx).t, z3.IntVal(ver)))
    if isinstance(o, PyObjV):
        return eng.from_python(o.obj[idx])
    if isinstance(o, ExtRef):
        return o  # typing generics like list[int]
    raise EngineError("subscript of %r" % (o,))


def _seq_index(eng, items, idx, node, cellkind):
    idx = _as_int(idx)
    if isinstance(items, (tuple, bytes, bytearray, str)) and not is_sym(idx):
        if -len(items) <= idx < len(items):
            r = items[idx]
            return r
        raise RaiseExc("IndexError", (), node, implicit=True)
    if isinstance(items, tuple):
        # concrete spine, symbolic index
        if any(isinstance(e, Ref) or e is None or isinstance(e, (tuple, bytes, str)) for e in items):
            n = eng.concretize_int(idx, "index into heterogeneous list", limit=max(16, len(items) + 2))
            return _seq_index(eng, items, n, node, cellkind)
        items = V.to_seq(list(items))
    n = V.L(items)
    eng.safety(V.And(idx >= -n, idx < n) if True else True, "IndexError", "index-in-range", node)
    if is_sym(idx):
        i2 = idx if V.known(idx >= 0) else V.ite(idx < 0, idx + n, idx)
    else:
        i2 = idx if idx >= 0 else n + idx
    e = V.nth(items, i2)
    if isinstance(items, SSeq):
        byte_range_fact(eng, items, e)
        if items.py == "str":
            # indexing a str yields a 1-char str
            return SSeq(z3.Unit(e.t), "char", "str")
    return e


def get_slice(eng, o, lo, hi, step, node):
    if step is not None and step != 1:
        raise EngineError("slice step")
    lo, hi = _as_int(lo) if lo is not None else None, _as_int(hi) if hi is not None else None
    if isinstance(o, Ref):
        k = eng.kind(o)
        items = seq_content(eng, o)
        if isinstance(items, tuple) and not is_sym(lo) and not is_sym(hi):
            r = items[lo:hi]
        else:
            r = V.slice_(_seqify(items), lo, hi)
        if k == "list":
            return eng.new_list(r)
        if k == "bytearray":
            return eng.alloc("bytearray", items=r)
        raise EngineError("slice of %s" % k)
    if isinstance(o, tuple):
        if is_sym(lo) or is_sym(hi):
            raise EngineError("symbolic slice of tuple")
        return o[lo:hi]
    if isinstance(o, (SSeq, bytes, bytearray, str)):
        return V.slice_(o, lo, hi)
    if isinstance(o, SOpq) and eng.abstract:
        f = V.uf("getslice", V.vsort(), V.vsort(), V.vsort(), V.vsort())
        return SOpq(f(o.t, _box(eng, lo).t, _box(eng, hi).t))
    raise EngineError("slice of %r" % (o,))


def set_item(eng, o, idx, v, node):
    from . import reclist as RL

    if isinstance(o, RL.RecElem):
        if is_sym(idx):
            raise EngineError("symbolic key in record store")
        RL.elem_set(eng, o, idx, v)
        return
    if isinstance(o, Ref):
        k = eng.kind(o)
        if k == "dict":
            if isinstance(idx, SOpq) and eng.abstract:
                eng.set_field(o, "sym_written", True)  # later opaque-key reads are opaque calls, concrete-key reads are refused
                return
            if is_sym(idx):
                raise EngineError("symbolic dict key store")
            d = dict(eng.get_field(o, "items"))
            d[idx] = v
            eng.set_field(o, "items", d)
            if eng.has_field(o, "presence"):
                p = dict(eng.get_field(o, "presence"))
                if idx in p:
                    p.pop(idx)
                    eng.set_field(o, "presence", p)
            return
        if k in ("list", "bytearray"):
            items = eng.get_field(o, "items")
            idx = _as_int(idx)
            if k == "bytearray":
                v = _as_int(v)
                eng.safety(V.And(v >= 0, v < 256), "ValueError", "byte-range", node)
            if isinstance(items, (tuple, bytes, bytearray)) and not is_sym(idx):
                if not (-len(items) <= idx < len(items)):
                    raise RaiseExc("IndexError", (), node, implicit=True)
                lst = list(items)
                lst[idx] = v
                eng.set_field(o, "items", tuple(lst) if k == "list" else (bytes(lst) if not any(is_sym(x) for x in lst) else V.to_seq(lst, "byte", "bytearray")))
                return
            from .contract import ForAll

            s = _seqify(items) if isinstance(items, tuple) else V.to_seq(items) if not isinstance(items, SSeq) else items
            n = V.L(s)
            eng.safety(V.And(idx >= -n, idx < n), "IndexError", "index-in-range", node)
            if is_sym(idx):
                i2 = idx if V.known(idx >= 0) else V.ite(idx < 0, idx + n, idx)
            else:
                i2 = idx if idx >= 0 else n + idx
            # array-store axiomatisation: fresh sequence, same length, element i2 replaced, rest unchanged
            # (the frame fact is instantiated wherever the new sequence is read)
            new = eng.fresh_seq("upd", s.elem, s.py)
            eng.pc.append(z3.Length(new.t) == V._zi(n))
            eng.pc.append((new.t[V._zi(i2)] == V._zi(v)) if s.elem != "bool" else (new.t[V._zi(i2)] == V._zb(v)))
            eng.register_forall(ForAll(lambda k: V.Implies(V.And(k >= 0, k < n, k != i2), V.eq(V.nth(new, k), V.nth(s, k))), over=new))
            eng.set_field(o, "items", new)
            return
    if isinstance(o, SOpq) and eng.abstract:
        eng.event("setitem", "setitem", o, (idx, v), {}, node)
        eng.ghost["heapver"] = eng.ghost.get("heapver", 0) + 1
        return
    raise EngineError("item assignment on %r" % (o,))


def set_slice(eng, o, lo, hi, v, node):
    if isinstance(o, Ref) and eng.kind(o) in ("bytearray", "list"):
        items = eng.get_field(o, "items")
        src = seq_content(eng, v) if isinstance(v, Ref) else v
        s = _seqify(items) if isinstance(items, tuple) else (items if isinstance(items, SSeq) else V.to_seq(items))
        srcs = _seqify(src) if isinstance(src, tuple) else (src if isinstance(src, SSeq) else V.to_seq(src))
        if not is_sym(items) and not is_sym(src) and not is_sym(lo) and not is_sym(hi) and not isinstance(items, tuple):
            ba = bytearray(items)
            ba[lo:hi] = bytes(src)
            eng.set_field(o, "items", bytes(ba))
            return
        head = V.slice_(s, 0, 0 if lo is None else lo)
        new = V.concat(head, srcs)
        if hi is not None:
            # Python: stop is clamped to >= start
            n = V.L(s)
            a = V._clamp_index(0 if lo is None else lo, n)
            b = V._clamp_index(hi, n)
            b = V.max_(a, b)
            new = V.concat(new, V.slice_(s, b, None))
        eng.set_field(o, "items", SSeq(V.to_seq(new).t, s.elem, s.py))
        return
    raise EngineError("slice assignment on %r" % (o,))


# ------------------------------------------------------------------------------------------------
# methods of modelled values


def call_method(eng, o, name, args, kwargs, node):
    from . import reclist as RL

    if isinstance(o, RL.RecElem):
        cell0 = eng.heap[o.ref.id]
        if cell0.get("as_objects") and name in cell0.get("methods", {}):
            return RL.elem_get(eng, o, cell0["methods"][name], node)
        if name == "keys":
            return RecKeys(o)
        if name == "get":
            cell = eng.heap[o.ref.id]
            key = args[0]
            default = args[1] if len(args) > 1 else None
            if key not in cell["cols"]:
                return default
            if eng.branch(RL.col_has(cell, key, o.idx)):
                return RL.elem_get(eng, o, key, node)
            return default
        if name == "update":
            src = args[0]
            sd = eng.get_field(src, "items") if isinstance(src, Ref) else src
            for k, v in sd.items():
                RL.elem_set(eng, o, k, v)
            return None
        raise EngineError("record method %s" % name)
    if isinstance(o, Ref):
        k = eng.kind(o)
        if k == "stream":
            return stream_method(eng, o, name, args, kwargs, node)
        if k == "ostream":
            return ostream_method(eng, o, name, args, kwargs, node)
        if k == "list":
            return list_method(eng, o, name, args, kwargs, node)
        if k == "dict":
            return dict_method(eng, o, name, args, kwargs, node)
        if k == "bytearray":
            return bytearray_method(eng, o, name, args, kwargs, node)
        if k == "cipher":
            if name in ("encrypt", "decrypt"):
                x = args[0]
                x = seq_content(eng, x) if isinstance(x, Ref) else x
                # Cryptodome AES-CBC: the data length must be a multiple of the 16-byte block (else ValueError)
                eng.safety(V.L(x) % 16 == 0, "ValueError", "cipher-input-aligned", node)
                fed = eng.get_field(o, "fed")
                fx = V.to_seq(fed, "byte", "bytes") if not isinstance(fed, SSeq) else fed
                xx = V.to_seq(x, "byte", "bytes") if not isinstance(x, SSeq) else x
                r = SSeq(V.uf("aes_cbc_stream_" + name, V.seq_sort("byte"), V.seq_sort("byte"), V.seq_sort("byte"))(fx.t, xx.t), "byte", "bytes")
                eng.pc.append(z3.Length(r.t) == V._zi(V.L(x)))
                eng.set_field(o, "fed", V.concat(fed, x))
                eng.set_field(o, "out", V.concat(eng.get_field(o, "out"), r))
                eng.event("cipher", name, o, (x,), {}, node, r)
                return r
            raise EngineError("cipher method %s" % name)
        if k == "pattern":
            if name == "match" and eng.get_field(o, "pattern") == UNIT_PATTERN:
                return match_unit_pattern(eng, args[0], node)
            raise EngineError("regex pattern %r is not modelled" % eng.get_field(o, "pattern"))
        if k == "match":
            if name == "group":
                return eng.get_field(o, "groups")[args[0]]
            raise EngineError("match method %s" % name)
        if k == "path":
            return path_method(eng, o, name, args, kwargs, node)
        if k == "set":
            if name == "add":
                eng.set_field(o, "items", tuple(eng.get_field(o, "items")) + (args[0],))
                return None
    if isinstance(o, (int, SInt)) and not isinstance(o, bool):
        return int_method(eng, o, name, args, kwargs, node)
    if is_bytes_like(o):
        return bytes_method(eng, o, name, args, kwargs, node)
    if is_str(o):
        return str_method(eng, o, name, args, kwargs, node)
    if isinstance(o, tuple):
        if name == "count" and not any(is_sym(x) for x in o):
            return o.count(args[0])
    raise EngineError("method %s of %r" % (name, o))


def _out_data(v):
    return v


def stream_method(eng, o, name, args, kwargs, node):
    """in-memory / input stream {data, pos}: assumed contract of io.BytesIO / binary files (DESIGN 2.2)"""
    data = eng.get_field(o, "data")
    pos = eng.get_field(o, "pos")
    if name == "read":
        n = args[0] if args else kwargs.get("size", None)
        n = _as_int(n) if n is not None else None
        if n is None:
            r = V.slice_(data, pos, None)
            eng.set_field(o, "pos", V.max_(pos, V.L(data)))
            return _mk_bytes(r)
        if is_sym(n):
            neg = eng.branch(n < 0)
            if neg:
                r = V.slice_(data, pos, None)
                eng.set_field(o, "pos", V.max_(pos, V.L(data)))
                return _mk_bytes(r)
        elif n < 0:
            r = V.slice_(data, pos, None)
            eng.set_field(o, "pos", V.max_(pos, V.L(data)))
            return _mk_bytes(r)
        r = V.slice_(data, pos, pos + n)
        eng.set_field(o, "pos", pos + V.L(r))
        eng.event("read", "read", o, (n,), {}, node, r)
        return _mk_bytes(r)
    if name == "write":
        b = args[0]
        b = seq_content(eng, b) if isinstance(b, Ref) else b
        if not is_bytes_like(b):
            raise RaiseExc("TypeError", (), node, implicit=True)
        n = V.L(b)
        atend = eng.prove_now(V.eq(pos, V.L(data))) if (is_sym(pos) or is_sym(data)) else pos == len(data)
        if atend:
            new = V.concat(data, b)
        else:
            new = V.concat(V.concat(V.slice_(data, 0, pos), b), V.slice_(data, pos + n, None))
            if not eng.prove_now(pos <= V.L(data)):
                raise EngineError("write beyond the end of a memory stream")
        eng.set_field(o, "data", _mk_bytes(new))
        eng.set_field(o, "pos", pos + n)
        eng.event("write", "write", o, (b,), {}, node)
        return n
    if name == "seek":
        off = _as_int(args[0])
        whence = args[1] if len(args) > 1 else kwargs.get("whence", 0)
        if isinstance(whence, ExtRef):
            whence = {"os.SEEK_SET": 0, "os.SEEK_CUR": 1, "os.SEEK_END": 2, "io.SEEK_SET": 0, "io.SEEK_CUR": 1, "io.SEEK_END": 2}.get(whence.dotted, whence)
        if whence == 0:
            if is_sym(off):
                eng.safety(off >= 0, "ValueError", "seek-nonneg", node)
            elif off < 0:
                raise RaiseExc("ValueError", (), node, implicit=True)
            newpos = off
        elif whence == 1:
            newpos = V.max_(pos + off, 0)
        elif whence == 2:
            newpos = V.max_(V.L(data) + off, 0)
        else:
            raise EngineError("seek whence")
        eng.set_field(o, "pos", newpos)
        eng.event("seek", "seek", o, (off, whence), {}, node)
        return newpos
    if name == "tell":
        return pos
    if name == "getvalue":
        return _mk_bytes(data)
    if name == "getbuffer":
        return eng.alloc("obj", cls="memoryview", nbytes=V.L(data))
    if name in ("close", "flush"):
        return None
    raise EngineError("stream method %s" % name)


def _mk_bytes(s):
    if isinstance(s, SSeq):
        return s.with_py("bytes")
    return bytes(s)


def ostream_method(eng, o, name, args, kwargs, node):
    """output stream {base, out}: sequential writes are appended to `out`; tell() = base + |out|"""
    if name == "write":
        b = args[0]
        b = seq_content(eng, b) if isinstance(b, Ref) else b
        if not is_bytes_like(b):
            raise RaiseExc("TypeError", (), node, implicit=True)
        out = eng.get_field(o, "out")
        eng.set_field(o, "out", _mk_bytes(V.concat(out, b)))
        eng.segments.setdefault(o.id, []).append(("write", b))
        eng.event("write", "write", o, (b,), {}, node)
        return V.L(b)
    if name == "tell":
        return eng.get_field(o, "base") + V.L(eng.get_field(o, "out"))
    if name in ("flush", "close"):
        return None
    if name == "seek":
        # random access on an output stream is recorded as an event; contracts that need it (C14) read the trace
        eng.event("seek", "seek", o, tuple(args), {}, node)
        if eng.contract.ostream_seek_ok:
            eng.set_field(o, "seeks", eng.get_field(o, "seeks") + ((args[0], eng.get_field(o, "out")),) if eng.has_field(o, "seeks") else ((args[0], eng.get_field(o, "out")),))
            return args[0]
        raise EngineError("seek on output stream")
    raise EngineError("ostream method %s" % name)


def list_method(eng, o, name, args, kwargs, node):
    items = eng.get_field(o, "items")
    if name == "append":
        x = eng.unopt(args[0], node)
        if isinstance(items, tuple):
            eng.set_field(o, "items", items + (x,))
        else:
            if items.elem == "str" and (isinstance(x, str) or (isinstance(x, SSeq) and x.py == "str")):
                pass
            elif items.elem == "opq" and isinstance(x, SOpq):
                pass
            elif items.elem == "opq" and isinstance(x, tuple) and eng.abstract:
                x = _box(eng, x)
            elif isinstance(x, (Ref, tuple)) or x is None or isinstance(x, (bytes, str)):
                raise EngineError("append of non-scalar to symbolic list")
            unit = V.to_seq([x], elem=items.elem, py="list")
            eng.set_field(o, "items", SSeq(z3.Concat(items.t, unit.t), items.elem, "list"))
        return None
    if name == "extend":
        x = args[0]
        xs = seq_content(eng, x) if isinstance(x, Ref) else x
        if isinstance(items, tuple) and isinstance(xs, (tuple, list)):
            eng.set_field(o, "items", items + tuple(xs))
        else:
            a = _seqify(items)
            b = _seqify(tuple(xs)) if isinstance(xs, (tuple, list)) else xs
            r = V.concat(a, b)
            eng.set_field(o, "items", SSeq(V.to_seq(r).t, V.to_seq(a).elem if isinstance(a, SSeq) else V.to_seq(r).elem, "list"))
        return None
    if name == "insert":
        idx, x = args
        if isinstance(items, tuple) and not is_sym(idx):
            lst = list(items)
            lst.insert(idx, x)
            eng.set_field(o, "items", tuple(lst))
            return None
        raise EngineError("list.insert symbolic")
    if name == "pop":
        if isinstance(items, tuple):
            if not items:
                raise RaiseExc("IndexError", (), node, implicit=True)
            idx = args[0] if args else -1
            lst = list(items)
            x = lst.pop(idx)
            eng.set_field(o, "items", tuple(lst))
            return x
        n = V.L(items)
        eng.safety(n > 0, "IndexError", "pop-nonempty", node)
        if args:
            raise EngineError("list.pop(i) symbolic")
        x = V.nth(items, n - 1)
        eng.set_field(o, "items", V.slice_(items, 0, n - 1))
        return x
    if name == "count":
        x = args[0]
        if isinstance(items, tuple):
            acc = 0
            for e in items:
                acc = acc + V.ite(_eq(eng, e, x), 1, 0) if is_sym(_eq(eng, e, x)) else acc + (1 if _eq(eng, e, x) else 0)
            return acc
        # symbolic list: count via uninterpreted fold (contracts unfold it)
        if items.elem == "bool" and x is True:
            f = V.uf("count_true", V.seq_sort("bool"), z3.IntSort())
            r = SInt(f(items.t))
            eng.pc.append(z3.And(r.t >= 0, r.t <= z3.Length(items.t)))
            return r
        raise EngineError("list.count symbolic")
    if name == "copy":
        return eng.alloc("list", items=items)
    if name == "clear":
        eng.set_field(o, "items", ())
        return None
    if name == "index":
        if isinstance(items, tuple) and not any(is_sym(e) for e in items) and not is_sym(args[0]):
            try:
                return list(items).index(args[0])
            except ValueError:
                raise RaiseExc("ValueError", (), node, implicit=True)
    raise EngineError("list method %s" % name)


def dict_method(eng, o, name, args, kwargs, node):
    d = eng.get_field(o, "items")
    pres = eng.get_field(o, "presence") if eng.has_field(o, "presence") else {}
    if name == "get":
        k = args[0]
        default = args[1] if len(args) > 1 else None
        if is_sym(k):
            raise EngineError("symbolic dict key")
        if k in pres:
            if eng.branch(pres[k]):
                return d[k]
            return default
        return d.get(k, default)
    if name == "keys":
        if pres:
            # keys() is only used for membership tests in the FUCs
            return KeysView(o)
        return tuple(d.keys())
    if name == "items":
        if pres:
            raise EngineError("items() of dict with optional keys")
        return tuple(d.items())
    if name == "values":
        if pres:
            raise EngineError("values() of dict with optional keys")
        return tuple(d.values())
    if name == "update":
        src = args[0]
        sd = eng.get_field(src, "items") if isinstance(src, Ref) else src
        nd = dict(d)
        nd.update(sd)
        eng.set_field(o, "items", nd)
        return None
    if name == "pop":
        k = args[0]
        nd = dict(d)
        if k in nd:
            v = nd.pop(k)
            eng.set_field(o, "items", nd)
            return v
        if len(args) > 1:
            return args[1]
        raise RaiseExc("KeyError", (k,), node, implicit=True)
    if name == "setdefault":
        k = args[0]
        if k in d:
            return d[k]
        nd = dict(d)
        nd[k] = args[1] if len(args) > 1 else None
        eng.set_field(o, "items", nd)
        return nd[k]
    raise EngineError("dict method %s" % name)


class KeysView:
    def __init__(self, ref):
        self.ref = ref


class RecKeys:
    def __init__(self, elem):
        self.elem = elem


def bytearray_method(eng, o, name, args, kwargs, node):
    items = eng.get_field(o, "items")
    if name == "extend":
        x = args[0]
        xs = seq_content(eng, x) if isinstance(x, Ref) else x
        eng.set_field(o, "items", V.concat(items, xs))
        return None
    if name == "append":
        x = _as_int(args[0])
        eng.safety(V.And(x >= 0, x < 256), "ValueError", "byte-range", node)
        eng.set_field(o, "items", V.concat(items, V.to_seq([x], "byte", "bytearray")))
        return None
    if name == "decode":
        return bytes_method(eng, items, name, args, kwargs, node)
    raise EngineError("bytearray method %s" % name)


def int_method(eng, o, name, args, kwargs, node):
    if name == "to_bytes":
        n = args[0] if args else kwargs.get("length", 1)
        order = args[1] if len(args) > 1 else kwargs.get("byteorder", "big")
        if kwargs.get("signed", False):
            raise EngineError("signed to_bytes")
        n = eng.concretize_int(_as_int(n), "to_bytes length")
        if order != "little" and n > 1:
            raise EngineError("big-endian to_bytes")
        if is_sym(o):
            eng.safety(V.And(o >= 0, o < (1 << (8 * n))), "OverflowError", "to_bytes-fits", node)
        elif not (0 <= o < (1 << (8 * n))):
            raise RaiseExc("OverflowError", (), node, implicit=True)
        return V.to_bytes_le(o, n)
    if name == "bit_length":
        if is_sym(o):
            if not eng.prove_now(V.And(o >= 0, o < (1 << 64))):
                raise EngineError("bit_length of an int not known to be in 0..2^64-1")
        return V.bit_length(o)
    if name == "__int__":
        return o
    raise EngineError("int method %s" % name)


def bytes_method(eng, o, name, args, kwargs, node):
    if name == "decode":
        enc = (args[0] if args else kwargs.get("encoding", "utf-8")).lower().replace("_", "-")
        if not is_sym(o):
            try:
                return bytes(o).decode(enc)
            except UnicodeDecodeError:
                raise RaiseExc("UnicodeDecodeError", (), node, implicit=True)
        if enc in ("utf-16le", "utf-16-le"):
            return utf16_decode(eng, o, node)
        if eng.abstract:
            f = V.uf("decode_" + enc.replace("-", ""), V.seq_sort("byte"), V.vsort())
            return SOpq(f(o.t))
        raise EngineError("decode(%s) of symbolic bytes" % enc)
    if name == "startswith" and not is_sym(args[0]):
        p = args[0]
        if not is_sym(o):
            return bytes(o).startswith(p)
        return SBool(z3.PrefixOf(V.to_seq(p, "byte", "bytes").t, o.t))
    if name == "hex" and not is_sym(o):
        return bytes(o).hex()
    raise EngineError("bytes method %s" % name)


def utf16_units_fn():
    return V.uf("utf16_decode", V.seq_sort("byte"), V.seq_sort("char"))


def utf16_decode(eng, b, node):
    """bytes.decode('utf-16LE'): assumed contract (DESIGN 6.3) - an uninterpreted function with the
    per-call facts contracts need being supplied by spec.utf16 lemmas; may raise UnicodeDecodeError"""
    ok = SBool(V.uf("utf16_valid", V.seq_sort("byte"), z3.BoolSort())(b.t))
    eng.safety(ok, "UnicodeDecodeError", "utf16-valid", node)
    return SSeq(utf16_units_fn()(b.t), "char", "str")


def str_method(eng, o, name, args, kwargs, node):
    if not is_sym(o) and not any(is_sym(a) for a in args):
        if name == "encode":
            try:
                return o.encode(*args, **kwargs)
            except UnicodeEncodeError:
                raise RaiseExc("UnicodeEncodeError", (), node, implicit=True)
        if name in ("startswith", "endswith", "lstrip", "rstrip", "strip", "replace", "lower", "upper", "isdecimal", "split", "join", "format", "find", "rfind", "splitlines", "isdigit"):
            cargs = [tuple(a) if isinstance(a, tuple) else a for a in args]
            r = getattr(o, name)(*cargs, **kwargs)
            return eng.new_list(r) if isinstance(r, list) else r
    s = V.to_seq(o)
    if name == "startswith":
        p = args[0]
        if isinstance(p, tuple):
            return V.Or(*[SBool(z3.PrefixOf(V.to_seq(x).t, s.t)) for x in p])
        return SBool(z3.PrefixOf(V.to_seq(p).t, s.t))
    if name == "endswith":
        p = args[0]
        if isinstance(p, tuple):
            return V.Or(*[SBool(z3.SuffixOf(V.to_seq(x).t, s.t)) for x in p])
        return SBool(z3.SuffixOf(V.to_seq(p).t, s.t))
    if name == "encode":
        enc = (args[0] if args else kwargs.get("encoding", "utf-8")).lower().replace("_", "-")
        if enc in ("utf-16le", "utf-16-le"):
            f = V.uf("utf16_encode", V.seq_sort("char"), V.seq_sort("byte"))
            ok = SBool(V.uf("utf16_encodable", V.seq_sort("char"), z3.BoolSort())(s.t))
            eng.safety(ok, "UnicodeEncodeError", "utf16-encodable", node)
            r = SSeq(f(s.t), "byte", "bytes")
            eng.pc.append(z3.Length(r.t) >= 2 * z3.Length(s.t))
            eng.pc.append(z3.Length(r.t) <= 4 * z3.Length(s.t))
            eng.pc.append(z3.Length(r.t) % 2 == 0)
            return r
        if enc in ("utf-8", "utf8"):
            f = V.uf("utf8_encode", V.seq_sort("char"), V.seq_sort("byte"))
            return SSeq(f(s.t), "byte", "bytes")
        raise EngineError("encode(%s)" % enc)
    if name == "lstrip" and args and not is_sym(args[0]):
        chars = "".join(sorted(set(args[0])))
        f = V.uf("lstrip_" + "_".join(str(ord(c)) for c in chars), V.seq_sort("char"), V.seq_sort("char"))
        r = SSeq(f(s.t), "char", "str")
        # r is a suffix of s, the removed prefix has only chars from `chars`, r does not start with one
        eng.pc.append(z3.SuffixOf(r.t, s.t))
        for c in chars:
            eng.pc.append(z3.Not(z3.PrefixOf(V.to_seq(c).t, r.t)))
        eng.ghost.setdefault("lstrips", []).append((s, r, chars))
        return r
    if name == "replace" and not is_sym(args[0]) and not is_sym(args[1]) and len(args[0]) == 1 and len(args[1]) == 1:
        a, b = ord(args[0]), ord(args[1])
        f = V.uf("replace_%d_%d" % (a, b), V.seq_sort("char"), V.seq_sort("char"))
        r = SSeq(f(s.t), "char", "str")
        eng.pc.append(z3.Length(r.t) == z3.Length(s.t))
        eng.ghost.setdefault("replaces", []).append((s, r, a, b))
        return r
    raise EngineError("str method %s on symbolic string" % name)


# ------------------------------------------------------------------------------------------------
# external functions


_NONE_OK = {"isinstance", "str", "repr", "print", "bool", "hasattr", "getattr", "list", "tuple", "set", "dict", "map", "zip", "enumerate", "functools.reduce", "reduce"}


def call_ext(eng, dotted, args, kwargs, node):
    short0 = dotted[len("builtins."):] if dotted.startswith("builtins.") else dotted
    if short0 not in _NONE_OK:
        args = [eng.unopt(a, node) for a in args]
    h = EXT.get(dotted)
    if h is None and dotted.startswith("builtins."):
        h = EXT.get(dotted[len("builtins."):])
    if h is not None:
        return h(eng, args, kwargs, node)
    short = dotted[len("builtins."):] if dotted.startswith("builtins.") else dotted
    if short in eng_exception_names():
        return ExcV(short, args)
    if dotted.split(".")[-1] in eng_exception_names() and dotted.split(".")[-1][0].isupper():
        return ExcV(dotted.split(".")[-1], args)
    if eng.abstract:
        return eng.opaque_call(dotted, None, args, kwargs, node)
    raise EngineError("no model for external function %s at %s" % (dotted, eng._anchor(node)))


def eng_exception_names():
    from .engine import EXC_PARENT

    return EXC_PARENT


EXT = {}


def ext(*names):
    def deco(f):
        for n in names:
            EXT[n] = f
        return f

    return deco


@ext("len")
def _len(eng, args, kwargs, node):
    x = args[0]
    if isinstance(x, Ref) and eng.kind(x) == "reclist":
        return eng.heap[x.id]["n"]
    if isinstance(x, Ref):
        k = eng.kind(x)
        if k == "dict":
            if eng.has_field(x, "presence") and eng.get_field(x, "presence"):
                raise EngineError("len of dict with optional keys")
            return len(eng.get_field(x, "items"))
        if k == "obj":
            cls = eng.get_field(x, "cls")
            m = cls.find_method("__len__") if isinstance(cls, ClassRef) else None
            if m is not None:
                return eng.call_funcref(m, [], {}, node, self_v=x)
            raise RaiseExc("TypeError", (), node, implicit=True)
        return V.L(seq_content(eng, x))
    if isinstance(x, SOpq):
        if not eng.abstract:
            raise EngineError("len of opaque")
        f = V.uf("len", V.vsort(), z3.IntSort(), z3.IntSort())
        ver = 0 if x.t.get_id() in eng.immutable_ids else eng.ghost.get("heapver", 0)
        r = SInt(f(x.t, z3.IntVal(ver)))
        eng.pc.append(r.t >= 0)
        return r
    if x is None or isinstance(x, (int, SInt, SBool)):
        raise RaiseExc("TypeError", (), node, implicit=True)
    return V.L(x)


@ext("range")
def _range(eng, args, kwargs, node):
    args = [_as_int(a) for a in args]
    if len(args) == 1:
        return RangeV(0, args[0], 1)
    if len(args) == 2:
        return RangeV(args[0], args[1], 1)
    return RangeV(*args)


@ext("enumerate")
def _enumerate(eng, args, kwargs, node):
    return EnumerateV(args[0], args[1] if len(args) > 1 else kwargs.get("start", 0))


@ext("zip")
def _zip(eng, args, kwargs, node):
    return ZipV(list(args))


@ext("ord")
def _ord(eng, args, kwargs, node):
    if isinstance(args[0], SOpq) and eng.abstract:
        return SInt(V.uf("ord_of", V.vsort(), z3.IntSort())(args[0].t))
    x = args[0]
    if not is_sym(x):
        if isinstance(x, (bytes, str)) and len(x) == 1:
            return ord(x)
        raise RaiseExc("TypeError", (), node, implicit=True)
    eng.safety(V.L(x) == 1, "TypeError", "ord-length-1", node)
    e = V.nth(x, 0)
    byte_range_fact(eng, x, e)
    return e


@ext("chr")
def _chr(eng, args, kwargs, node):
    x = args[0]
    if not is_sym(x):
        return chr(x)
    return SSeq(z3.Unit(x.t), "char", "str")


@ext("int")
def _int(eng, args, kwargs, node):
    if not args:
        return 0
    x = args[0]
    if isinstance(x, bool):
        return int(x)
    if isinstance(x, SBool):
        return V.ite(x, 1, 0)
    if isinstance(x, (int, SInt)):
        return x
    if isinstance(x, float):
        return int(x)
    if isinstance(x, str):
        try:
            return int(x, *args[1:])
        except ValueError:
            raise RaiseExc("ValueError", (), node, implicit=True)
    if isinstance(x, SSeq) and x.py == "str":
        # decimal digits only (the CLI unit parser): value via uninterpreted function, contracts constrain it
        f = V.uf("str_to_int", V.seq_sort("char"), z3.IntSort())
        ok = SBool(V.uf("is_decimal", V.seq_sort("char"), z3.BoolSort())(x.t))
        eng.safety(ok, "ValueError", "int-of-decimal", node)
        r = SInt(f(x.t))
        eng.pc.append(r.t >= 0)
        return r
    if isinstance(x, SOpq) and eng.abstract:
        f = V.uf("to_int", V.vsort(), z3.IntSort())
        return SInt(f(x.t))
    raise EngineError("int() of %r" % (x,))


@ext("bool")
def _bool(eng, args, kwargs, node):
    return V.truthy(args[0]) if args else False


@ext("str", "repr")
def _str(eng, args, kwargs, node):
    if not args:
        return ""
    x = args[0]
    if isinstance(x, (str,)):
        return x
    if isinstance(x, SSeq) and x.py == "str":
        return x
    if not is_sym(x) and isinstance(x, (int, bytes, bool)) :
        return str(x)
    if x is None:
        return "None"
    if eng.abstract:
        f = V.uf("str", V.vsort(), V.vsort())
        return SOpq(f(_box(eng, x).t))
    if isinstance(x, SInt):
        f = V.uf("int_to_str", z3.IntSort(), V.seq_sort("char"))
        return SSeq(f(x.t), "char", "str")
    return "<str>"


@ext("bytes")
def _bytes(eng, args, kwargs, node):
    if not args:
        return b""
    x = args[0]
    if isinstance(x, str) and len(args) > 1 and not is_sym(x):
        return bytes(x, args[1])
    if isinstance(x, Ref):
        k = eng.kind(x)
        if k == "obj":
            cls = eng.get_field(x, "cls")
            m = cls.find_method("__bytes__") if isinstance(cls, ClassRef) else None
            if m is not None:
                return eng.call_funcref(m, [], {}, node, self_v=x)
        c = seq_content(eng, x)
        if isinstance(c, tuple):
            for e in c:
                e = _as_int(e)
                eng.safety(V.And(e >= 0, e < 256), "ValueError", "byte-range", node)
            return V.to_seq(list(c), "byte", "bytes") if any(is_sym(e) for e in c) else bytes(c)
        return _mk_bytes(c)
    if isinstance(x, (bytes, bytearray)):
        return bytes(x)
    if isinstance(x, SSeq):
        if x.elem != "byte":
            raise EngineError("bytes() of non-byte sequence")
        return x.with_py("bytes")
    if isinstance(x, (int, SInt)) and not isinstance(x, bool):
        if is_sym(x):
            eng.safety(x >= 0, "ValueError", "bytes-count-nonneg", node)
            from .contract import ForAll

            z = V.repeat_zero_bytes(x)
            eng.pc.append(z3.Length(z.t) == x.t)
            eng.register_forall(ForAll(lambda k: V.Implies(V.And(k >= 0, k < x), V.nth(z, k) == 0), over=z))
            return z
        if x < 0:
            raise RaiseExc("ValueError", (), node, implicit=True)
        return bytes(x)
    if isinstance(x, SOpq) and eng.abstract:
        return eng.opaque_call("bytes", None, args, kwargs, node)
    raise EngineError("bytes() of %r" % (x,))


@ext("bytearray")
def _bytearray(eng, args, kwargs, node):
    if not args:
        return eng.alloc("bytearray", items=b"")
    x = args[0]
    if isinstance(x, Ref) and eng.kind(x) == "bytearray":
        return eng.alloc("bytearray", items=eng.get_field(x, "items"))
    b = _bytes(eng, args, kwargs, node)
    if isinstance(b, SSeq):
        b = b.with_py("bytearray")
    return eng.alloc("bytearray", items=b)


@ext("memoryview")
def _memoryview(eng, args, kwargs, node):
    # modelled as an immutable snapshot of the bytes (assumption: FUCs only take views of fresh copies)
    x = args[0]
    if isinstance(x, Ref):
        return _mk_bytes(seq_content(eng, x))
    return x


@ext("list")
def _list(eng, args, kwargs, node):
    if not args:
        return eng.new_list([])
    x = args[0]
    if isinstance(x, Ref) and eng.kind(x) in ("list", "set"):
        return eng.alloc("list", items=eng.get_field(x, "items"))
    if isinstance(x, MapV):
        r = x.force(eng, node)
        return eng.new_list(r)
    if isinstance(x, (RangeV, EnumerateV, ZipV, tuple)):
        return eng.new_list(eng.static_items(x))
    if isinstance(x, (SSeq, bytes, str)):
        if isinstance(x, SSeq):
            return eng.new_list(x.with_py("list"))
        return eng.new_list(list(x))
    if isinstance(x, SOpq) and eng.abstract:
        return eng.opaque_call("list", None, args, kwargs, node)
    raise EngineError("list() of %r" % (x,))


@ext("tuple")
def _tuple(eng, args, kwargs, node):
    if not args:
        return ()
    return tuple(eng.static_items(args[0]))


@ext("set")
def _set(eng, args, kwargs, node):
    if not args:
        return eng.alloc("set", items=())
    x = args[0]
    if isinstance(x, SOpq) and eng.abstract:
        return eng.opaque_call("set", None, args, kwargs, node)
    items = eng.static_items(x)
    return eng.alloc("set", items=tuple(items))


@ext("dict")
def _dict(eng, args, kwargs, node):
    if not args:
        return eng.new_dict(dict(kwargs))
    raise EngineError("dict(...)")


@ext("min")
def _min(eng, args, kwargs, node):
    xs = args if len(args) > 1 else eng.static_items(args[0])
    r = _as_int(xs[0])
    for x in xs[1:]:
        r = V.min_(r, _as_int(x))
    return r


@ext("max")
def _max(eng, args, kwargs, node):
    if len(args) == 1 and isinstance(args[0], SOpq) and eng.abstract:
        # max over an opaque collection: an integer that is a function of the collection
        r = SInt(V.uf("max_of", V.vsort(), z3.IntSort())(args[0].t))
        eng.event("pure", "max", None, args, {}, node, r)
        return r
    xs = args if len(args) > 1 else eng.static_items(args[0])
    if not xs:
        raise RaiseExc("ValueError", (), node, implicit=True)
    r = _as_int(xs[0])
    for x in xs[1:]:
        r = V.max_(r, _as_int(x))
    return r


@ext("abs")
def _abs(eng, args, kwargs, node):
    x = args[0]
    return V.ite(x < 0, -x, x) if is_sym(x) else abs(x)


@ext("sum")
def _sum(eng, args, kwargs, node):
    x = args[0]
    start = args[1] if len(args) > 1 else 0
    if isinstance(x, SOpq) and eng.abstract:
        r = SInt(V.uf("sum_of", V.vsort(), z3.IntSort())(x.t))
        eng.event("pure", "sum", None, args, {}, node, r)
        return start + r
    c = seq_content(eng, x) if isinstance(x, Ref) else x
    if isinstance(c, SSeq):
        spec = eng.contract.sum_model
        if spec is not None:
            return start + spec(eng.ctx, c)
        f = V.uf("sum_int", V.seq_sort("int"), z3.IntSort())
        return start + SInt(f(c.t))
    acc = start
    for e in eng.static_items(x):
        acc = acc + _as_int(e)
    return acc


@ext("any")
def _any(eng, args, kwargs, node):
    if isinstance(args[0], SOpq) and eng.abstract:
        r = SBool(V.uf("any_of", V.vsort(), z3.BoolSort())(args[0].t))
        eng.event("pure", "any", None, args, {}, node, r)
        return r
    items = eng.static_items(args[0])
    return V.Or(*[V.truthy(e) for e in items]) if items else False


@ext("all")
def _all(eng, args, kwargs, node):
    if isinstance(args[0], SOpq) and eng.abstract:
        r = SBool(V.uf("all_of", V.vsort(), z3.BoolSort())(args[0].t))
        eng.event("pure", "all", None, args, {}, node, r)
        return r
    items = eng.static_items(args[0])
    return V.And(*[V.truthy(e) for e in items]) if items else True


class MapV:
    def __init__(self, f, its):
        self.f = f
        self.its = its

    def force(self, eng, node):
        if len(self.its) == 1:
            src = self.its[0]
            c = seq_content(eng, src) if isinstance(src, Ref) and eng.kind(src) in ("list",) else src
            if isinstance(c, SSeq):
                return symbolic_map(eng, self.f, c, node)
        cols = [eng.static_items(x) for x in self.its]
        return [eng.call(self.f, list(row), {}, node) for row in zip(*cols)]


def symbolic_map(eng, f, c, node):
    """list(map(f, xs)) for xs of unknown length and a side-effect free f: r with |r| = |xs| and r[j] = f(xs[j])
    (f's REAL body is evaluated at every index the proof needs)"""
    from .contract import ForAll
    from .engine import Frame

    n = V.L(c)
    cap_heap = dict(eng.heap)

    def at(j):
        cur = eng.heap
        eng.heap = dict(cap_heap)
        old = eng._assume_safety
        eng._assume_safety = True
        try:
            v = eng.call(f, [V.nth(c, j)], {}, node)
            for oid, cell in eng.heap.items():
                if oid in cap_heap and cap_heap[oid] is not cell:
                    raise EngineError("map() function has side effects")
        finally:
            eng._assume_safety = old
            eng.heap = cur
        return v

    k = eng.fresh_int("k@map")
    mark = len(eng.pc)
    eng.pc.append(z3.And(k.t >= 0, k.t < V._zi(n)))
    v0 = at(k)
    del eng.pc[mark:]
    elem = "bool" if isinstance(v0, (bool, SBool)) else ("opq" if isinstance(v0, SOpq) else ("str" if is_str(v0) else "int"))
    res = eng.fresh_seq("mapped", elem, "list")
    eng.pc.append(z3.Length(res.t) == V._zi(n))
    eng.register_forall(ForAll(lambda j: V.eq(V.nth(res, j), at(j)), guard=lambda j: V.And(j >= 0, j < n), over=res))
    return res


class FilterV:
    def __init__(self, f, it):
        self.f = f
        self.it = it


@ext("filter")
def _filter(eng, args, kwargs, node):
    return FilterV(args[0], args[1])


@ext("map")
def _map(eng, args, kwargs, node):
    if eng.abstract and any(isinstance(a, SOpq) for a in args[1:]):
        # map over an opaque collection: an unknown callee that may run the function on the elements (it can modify
        # whatever the function can reach: the heap version is bumped by opaque_call)
        return eng.opaque_call("builtins.map", None, list(args), kwargs, node)
    return MapV(args[0], list(args[1:]))


@ext("isinstance")
def _isinstance(eng, args, kwargs, node):
    x, t = args
    ts = t if isinstance(t, tuple) else (t,)
    res = False
    for tt in ts:
        res = V.Or(res, _isinstance1(eng, x, tt, node))
    return res


def _typename(t):
    if isinstance(t, ExtRef):
        return t.dotted.replace("builtins.", "")
    if isinstance(t, ClassRef):
        return t.name
    return repr(t)


def _isinstance1(eng, x, t, node):
    tn = _typename(t)
    if isinstance(x, SOpq):
        if not eng.abstract:
            raise EngineError("isinstance of opaque")
        model = eng.contract.isinstance_model(x, tn)
        if model is not None:
            return model
        f = V.uf("isinstance_" + tn.replace(".", "_"), V.vsort(), z3.BoolSort())
        return SBool(f(x.t))
    if x is None:
        return False
    if isinstance(x, (bool, SBool)):
        return tn in ("bool", "int")
    if isinstance(x, (int, SInt)):
        if tn == "int":
            return True
        if tn in ("py7zr.helpers.ArchiveTimestamp", "ArchiveTimestamp"):
            return False
        return False
    if is_bytes_like(x):
        py = x.py if isinstance(x, SSeq) else type(x).__name__
        return tn == py
    if is_str(x):
        return tn == "str"
    if isinstance(x, tuple):
        return tn == "tuple"
    if isinstance(x, float):
        return tn == "float"
    if isinstance(x, Ref):
        k = eng.kind(x)
        if k == "list":
            return tn == "list"
        if k == "dict":
            return tn == "dict"
        if k == "set":
            return tn == "set"
        if k == "bytearray":
            return tn == "bytearray"
        if k in ("stream", "ostream"):
            kinds = eng.get_field(x, "isa") if eng.has_field(x, "isa") else ("io.BytesIO", "io.IOBase", "io.BufferedIOBase", "BinaryIO")
            return tn in kinds
        if k == "obj":
            cls = eng.get_field(x, "cls")
            while isinstance(cls, ClassRef):
                if cls.name == tn:
                    return True
                nxt = None
                for b in cls.bases:
                    if b == tn or b.split(".")[-1] == tn.split(".")[-1]:
                        return True
                    bc = cls.module.lookup_class(b)
                    if bc is not None:
                        nxt = bc
                cls = nxt
            return False
    if isinstance(x, ExcV):
        return exc_is_subclass(x.cls, tn.split(".")[-1])
    raise EngineError("isinstance(%r, %s)" % (x, tn))


@ext("hasattr")
def _hasattr(eng, args, kwargs, node):
    o, name = args
    if isinstance(o, Ref) and eng.kind(o) == "obj":
        if eng.has_field(o, name):
            return True
        cls = eng.get_field(o, "cls")
        if isinstance(cls, ClassRef) and (cls.find_method(name) is not None or name in cls.class_attrs):
            return True
        return False
    if isinstance(o, ExtRef):
        m = eng.contract.hasattr_model(o.dotted, name)
        if m is not None:
            return m
        if o.dotted == "stat":
            import stat as _stat

            return hasattr(_stat, name)
        if o.dotted == "sys":
            import sys as _sys

            return hasattr(_sys, name)
    if isinstance(o, SOpq) and eng.abstract:
        f = V.uf("hasattr_" + str(name), V.vsort(), z3.BoolSort())
        return SBool(f(o.t))
    raise EngineError("hasattr(%r, %r)" % (o, name))


@ext("getattr")
def _getattr(eng, args, kwargs, node):
    o, name = args[0], args[1]
    if isinstance(o, ExtRef) and o.dotted == "stat":
        import stat as _stat

        if hasattr(_stat, name):
            return getattr(_stat, name)
        if len(args) > 2:
            return args[2]
        raise RaiseExc("AttributeError", (), node, implicit=True)
    if isinstance(o, Ref) and eng.kind(o) == "obj":
        if _hasattr(eng, [o, name], {}, node) is True:
            return get_attr(eng, o, name, node)
        if len(args) > 2:
            return args[2]
        raise RaiseExc("AttributeError", (), node, implicit=True)
    if isinstance(o, Ref) and eng.kind(o) in ("stream", "ostream") and name == "name":
        v = eng.get_field(o, "name") if eng.has_field(o, "name") else None
        return v if v is not None or len(args) < 3 else args[2]
    if isinstance(o, SOpq) and eng.abstract:
        if len(args) > 2:
            has = _hasattr(eng, [o, name], {}, node)
            if eng.branch(has):
                return get_attr(eng, o, name, node)
            return args[2]
        return get_attr(eng, o, name, node)
    raise EngineError("getattr(%r, %r)" % (o, name))


@ext("struct.pack", "pack")
def _pack(eng, args, kwargs, node):
    fmt = args[0]
    vals = [_as_int(a) for a in args[1:]]
    if fmt.startswith("<"):
        body = fmt[1:]
    else:
        body = fmt
        if any(c in body for c in "LQHI") and len(body) > 1:
            raise EngineError("native-alignment struct format %s" % fmt)
    sizes = {"B": 1, "L": 4, "Q": 8, "H": 2, "I": 4}
    if len(body) != len(vals):
        raise RaiseExc("struct.error", (), node, implicit=True)
    out = b""
    for c, v in zip(body, vals):
        if c not in sizes:
            raise EngineError("struct format %s" % fmt)
        n = sizes[c]
        if v is None or isinstance(v, (bytes, str, SSeq, Ref, tuple)):
            raise RaiseExc("struct.error", (), node, implicit=True)
        if is_sym(v):
            eng.safety(V.And(v >= 0, v < (1 << (8 * n))), "struct.error", "pack-%s-range" % c, node)
        elif not (0 <= v < (1 << (8 * n))):
            raise RaiseExc("struct.error", (), node, implicit=True)
        out = V.concat(out, V.to_bytes_le(v, n))
    return out


@ext("struct.unpack", "unpack")
def _unpack(eng, args, kwargs, node):
    fmt, data = args
    data = seq_content(eng, data) if isinstance(data, Ref) else data
    body = fmt[1:] if fmt.startswith("<") else fmt
    if not fmt.startswith("<") and len(body) > 1 and any(c in body for c in "LQHI"):
        raise EngineError("native-alignment struct format %s" % fmt)
    sizes = {"B": 1, "L": 4, "Q": 8, "H": 2, "I": 4}
    total = sum(sizes[c] for c in body)
    if is_sym(data):
        eng.safety(V.L(data) == total, "struct.error", "unpack-length", node)
    elif len(data) != total:
        raise RaiseExc("struct.error", (), node, implicit=True)
    out = []
    off = 0
    for c in body:
        n = sizes[c]
        chunk = V.slice_(data, off, off + n) if is_sym(data) else data[off:off + n]
        if is_sym(chunk):
            for i in range(n):
                byte_range_fact(eng, data, V.nth(data, off + i))
            val = 0
            for i in range(n):
                val = val + V.nth(data, off + i) * (1 << (8 * i))
        else:
            val = int.from_bytes(chunk, "little")
        out.append(val)
        off += n
    return tuple(out)


@ext("int.from_bytes")
def _from_bytes(eng, args, kwargs, node):
    b = args[0]
    order = args[1] if len(args) > 1 else kwargs.get("byteorder", "big")
    b = seq_content(eng, b) if isinstance(b, Ref) else b
    if not is_sym(b):
        return int.from_bytes(bytes(b), order)
    n = eng.concretize_int(V.L(b), "length of int.from_bytes argument", limit=16)
    if order != "little" and n > 1:
        raise EngineError("big-endian from_bytes")
    for i in range(n):
        byte_range_fact(eng, b, V.nth(b, i))
    return V.from_bytes_le(b, n)


@ext("binascii.unhexlify", "unhexlify")
def _unhexlify(eng, args, kwargs, node):
    return binascii.unhexlify(args[0])


@ext("functools.reduce", "reduce")
def _reduce(eng, args, kwargs, node):
    f, xs = args[0], args[1]
    has_init = len(args) > 2
    c = seq_content(eng, xs) if isinstance(xs, Ref) else xs
    if isinstance(c, SSeq) and has_init:
        # fold over a list of unknown length: handled through a contract-supplied model (quantified all/any)
        m = eng.contract.reduce_model(f, c, args[2], node)
        if m is not None:
            return m
        return builtin_reduce_model(eng, f, c, args[2], node)
    if isinstance(c, SSeq) and not has_init:
        # no initial value: TypeError on an empty sequence, otherwise the fold of the tail starting from the head
        if eng.branch(V.L(c) == 0):
            raise RaiseExc("TypeError", (), node, implicit=True)
        nm = f.dotted.split(".")[-1] if isinstance(f, ExtRef) else None
        if c.elem == "int" and (nm == "add" or _is_add_lambda(f)):
            r = SInt(V.uf("sum_int", V.seq_sort("int"), z3.IntSort())(c.t))
            eng.event("pure", "reduce-sum", None, [c, None], {}, node, r)
            return r
    items = eng.static_items(xs)
    if not has_init:
        if not items:
            raise RaiseExc("TypeError", (), node, implicit=True)
        acc, items = items[0], items[1:]
    else:
        acc = args[2]
    for x in items:
        acc = eng.call(f, [acc, x], {}, node)
    return acc


def all_true_fn():
    return V.uf("all_true", V.seq_sort("bool"), z3.BoolSort())


def any_true_fn():
    return V.uf("any_true", V.seq_sort("bool"), z3.BoolSort())


def all_true(eng, c):
    """reduce(and_, c, True) over a bool list of unknown length: uninterpreted term + its two defining
    facts (assumed contract of functools.reduce/operator.and_): all_true => every element; not all_true =>
    some witness element is False"""
    from .contract import ForAll

    r = SBool(all_true_fn()(c.t))
    key = ("alltrue", c.t.get_id())
    if key not in eng._inst_seen:
        eng._inst_seen.add(key)
        n = V.L(c)
        eng.register_forall(ForAll(lambda k: V.Implies(V.And(r, k >= 0, k < n), V.nth(c, k)), over=c))
        w = SInt(V.uf("all_true_witness", V.seq_sort("bool"), z3.IntSort())(c.t))
        eng.pc.append(z3.Implies(z3.Not(r.t), z3.And(w.t >= 0, w.t < V._zi(n))))
        eng.pc.append(z3.Implies(z3.Not(r.t), z3.Not(c.t[w.t])))
        if hasattr(eng, "add_index_term"):
            eng.add_index_term(w)
    return r


def any_true(eng, c):
    from .contract import ForAll

    r = SBool(any_true_fn()(c.t))
    key = ("anytrue", c.t.get_id())
    if key not in eng._inst_seen:
        eng._inst_seen.add(key)
        n = V.L(c)
        eng.register_forall(ForAll(lambda k: V.Implies(V.And(V.Not(r), k >= 0, k < n), V.Not(V.nth(c, k))), over=c))
        w = SInt(V.uf("any_true_witness", V.seq_sort("bool"), z3.IntSort())(c.t))
        eng.pc.append(z3.Implies(r.t, z3.And(w.t >= 0, w.t < V._zi(n))))
        eng.pc.append(z3.Implies(r.t, c.t[w.t]))
        if hasattr(eng, "add_index_term"):
            eng.add_index_term(w)
    return r


def builtin_reduce_model(eng, f, c, init, node):
    """reduce(and_/or_, bools, init) over a symbolic bool list"""
    name = f.dotted.split(".")[-1] if isinstance(f, ExtRef) else None
    if c.elem == "bool" and name == "and_":
        return V.And(init, all_true(eng, c))
    if c.elem == "bool" and name == "or_":
        return V.Or(init, any_true(eng, c))
    lam = _or_lambda(f)
    if lam is not None:
        return exists_model(eng, lam, c, init, node)
    if c.elem == "int" and (name == "add" or _is_add_lambda(f)):
        # reduce(lambda x, y: x + y, ints, init) == init + sum(ints): `sum_int` is the same uninterpreted fold the
        # model of the built-in sum() uses (assumed contract of functools.reduce, DESIGN 6.3)
        r = init + SInt(V.uf("sum_int", V.seq_sort("int"), z3.IntSort())(c.t))
        eng.event("pure", "reduce-sum", None, [c, init], {}, node, r)
        return r
    raise EngineError("reduce over a symbolic sequence with an unmodelled function")


def _is_add_lambda(f):
    """`lambda x, y: x + y`"""
    from .engine import LambdaV

    if not isinstance(f, LambdaV):
        return False
    a = f.node.args
    if len(a.args) != 2 or a.vararg or a.kwarg or a.kwonlyargs:
        return False
    x, y = a.args[0].arg, a.args[1].arg
    b = f.node.body
    return isinstance(b, ast.BinOp) and isinstance(b.op, ast.Add) and isinstance(b.left, ast.Name) and isinstance(b.right, ast.Name) and {b.left.id, b.right.id} == {x, y} and x != y


def _or_lambda(f):
    """`lambda x, y: x or P(y)` (P mentions y only): returns a one-argument lambda for P, else None"""
    from .engine import LambdaV

    if not isinstance(f, LambdaV):
        return None
    a = f.node.args
    if len(a.args) != 2 or a.vararg or a.kwarg or a.kwonlyargs:
        return None
    x, y = a.args[0].arg, a.args[1].arg
    b = f.node.body
    if not (isinstance(b, ast.BoolOp) and isinstance(b.op, ast.Or) and len(b.values) == 2 and isinstance(b.values[0], ast.Name) and b.values[0].id == x):
        return None
    if any(isinstance(nd, ast.Name) and nd.id == x for nd in ast.walk(b.values[1])):
        return None
    node = ast.Lambda(args=ast.arguments(posonlyargs=[], args=[ast.arg(arg=y)], kwonlyargs=[], kw_defaults=[], defaults=[]), body=b.values[1])
    ast.copy_location(node, f.node)
    ast.fix_missing_locations(node)
    return LambdaV(node, f.env, f.module)


def exists_model(eng, pred, c, init, node):
    """reduce(lambda x, y: x or P(y), c, init) over a list of unknown length == init or (exists k. P(c[k])):
    a fresh boolean r with its two defining facts (assumed contract of functools.reduce, DESIGN 6.3):
    not r => init is false and P fails for every element;  r => init or P holds for a witness element"""
    from .contract import ForAll

    n = V.L(c)

    def P(k):
        return V.truthy(eng.call(pred, [V.nth(c, k)], {}, node))

    r = eng.fresh_bool("exists_" + ast.unparse(pred.node.body)[:30])
    i0 = V.truthy(init)
    eng.register_forall(ForAll(lambda k: V.Implies(V.And(V.Not(r), k >= 0, k < n), V.Not(P(k))), over=c))
    w = eng.fresh_int("exists_witness")
    eng.assume(V.Implies(V.Not(r), V.Not(i0)))
    eng.assume(V.Implies(r, V.Or(i0, V.And(w >= 0, w < n, P(w)))))
    if hasattr(eng, "add_index_term"):
        eng.add_index_term(w, over=c)
    return r


@ext("operator.and_", "and_")
def _and_(eng, args, kwargs, node):
    return binop(eng, ast.BitAnd(), args[0], args[1], node)


@ext("operator.or_", "or_")
def _or_(eng, args, kwargs, node):
    return binop(eng, ast.BitOr(), args[0], args[1], node)


def path_parts_fn():
    return V.uf("pathlib_parts", V.seq_sort("char"), V.seq_sort("str"))


def path_abs_fn():
    return V.uf("pathlib_is_absolute", V.seq_sort("char"), z3.BoolSort())


ROOTS = ("/", "//")


def _is_root(x):
    return V.Or(V.eq(x, "/"), V.eq(x, "//"))


def new_path(eng, parts, text=None, parsed=False):
    """heap cell of kind `path`: PurePosixPath represented by its `parts` (assumed contract of pathlib, DESIGN 6.3):
    is_absolute() <=> the first part is a root ('/' or '//'); roots occur only at index 0; no '' and no '.' parts"""
    from .contract import ForAll

    if not isinstance(parts, SSeq):
        parts = V.to_seq(list(parts), elem="str", py="tuple") if len(parts) else SSeq(z3.Empty(V.seq_sort("str")), "str", "tuple")
    isabs = V.And(V.L(parts) >= 1, _is_root(V.nth(parts, 0)))
    if parsed:
        eng.register_forall(ForAll(lambda k: V.And(V.Not(V.eq(V.nth(parts, k), "")), V.Not(V.eq(V.nth(parts, k), ".")), V.Implies(k >= 1, V.Not(_is_root(V.nth(parts, k))))), guard=lambda k: V.And(k >= 0, k < V.L(parts)), over=parts))
    return eng.alloc("path", parts=parts, absolute=isabs, text=text)


class StarSeq:
    """*xs with xs a list of unknown length (only understood by pathlib.Path(*xs))"""

    def __init__(self, seq):
        self.seq = seq


@ext("pathlib.Path", "pathlib.PurePath", "pathlib.PurePosixPath")
def _pathlib_path(eng, args, kwargs, node):
    if eng.abstract and not getattr(eng.contract, "model_pathlib", False):
        return eng.opaque_call("pathlib.Path", None, args, kwargs, node)
    if len(args) == 1 and isinstance(args[0], StarSeq):
        # Path(*parts) for a list of valid parts (roots only first, no '' / '.'): the parts are kept as they are
        return new_path(eng, args[0].seq.with_py("tuple"))
    if len(args) != 1:
        raise EngineError("pathlib.Path with %d arguments" % len(args))
    s0 = args[0]
    if isinstance(s0, Ref) and eng.kind(s0) == "path":
        return s0
    if not is_str(s0):
        raise RaiseExc("TypeError", (), node, implicit=True)
    ss = V.to_seq(s0)
    parts = SSeq(path_parts_fn()(ss.t), "str", "tuple")
    p = new_path(eng, parts, text=s0, parsed=True)
    eng.pc.append(V._zb(V.Iff(SBool(path_abs_fn()(ss.t)), eng.get_field(p, "absolute"))))
    # a string starting with '/' parses to an absolute path and vice versa (POSIX)
    eng.pc.append(V._zb(V.Iff(eng.get_field(p, "absolute"), V.And(V.L(ss) >= 1, V.nth(ss, 0) == 47))))
    return p


@ext("pathlib.Path.cwd")
def _pathlib_cwd(eng, args, kwargs, node):
    if eng.abstract and not getattr(eng.contract, "model_pathlib", False):
        return eng.opaque_call("pathlib.Path.cwd", None, args, kwargs, node)
    if "cwd" not in eng.ghost:
        parts = eng.fresh_seq("cwd.parts", "str", "tuple")
        p = new_path(eng, parts, parsed=True)
        eng.assume(eng.get_field(p, "absolute"))
        eng.assume(V.eq(V.nth(parts, 0), "/"))  # os.getcwd() is an absolute POSIX path with the single-slash root
        from .contract import ForAll

        eng.register_forall(ForAll(lambda k: V.Not(V.eq(V.nth(parts, k), "..")), guard=lambda k: V.And(k >= 0, k < V.L(parts)), over=parts))
        eng.pc.append(V.uf("no_dotdot", V.seq_sort("str"), z3.BoolSort())(parts.t))  # os.getcwd() is a resolved path
        eng.ghost["cwd"] = p
    return eng.ghost["cwd"]


def path_method(eng, o, name, args, kwargs, node):
    parts = eng.get_field(o, "parts")
    if name == "is_absolute":
        return eng.get_field(o, "absolute")
    if name == "joinpath":
        x = args[0]
        if is_str(x):
            x = _pathlib_path(eng, [x], {}, node)
        if not (isinstance(x, Ref) and eng.kind(x) == "path"):
            raise EngineError("joinpath argument")
        xp = eng.get_field(x, "parts")
        if eng.branch(eng.get_field(x, "absolute")):
            return x
        return new_path(eng, SSeq(z3.Concat(parts.t, xp.t), "str", "tuple"))
    if name == "relative_to":
        other = args[0]
        if not (isinstance(other, Ref) and eng.kind(other) == "path"):
            raise EngineError("relative_to argument")
        op = eng.get_field(other, "parts")
        # PurePath.relative_to: ValueError unless `other` is a (lexical) prefix of self
        eng.safety(SBool(z3.PrefixOf(op.t, parts.t)), "ValueError", "relative_to-prefix", node)
        return new_path(eng, V.slice_(parts, V.L(op), None).with_py("tuple"))
    if name == "as_posix":
        f = V.uf("path_as_posix", V.seq_sort("str"), V.seq_sort("char"))
        return SSeq(f(parts.t), "char", "str")
    raise EngineError("pathlib method %s is not modelled" % name)


def _is_alpha(ch):
    return V.Or(V.And(ch >= 65, ch <= 90), V.And(ch >= 97, ch <= 122))


UNIT_PATTERN = r"^([0-9]+)([bkmg]?)$"


def match_unit_pattern(eng, s0, node):
    """re.compile(r"^([0-9]+)([bkmg]?)$", re.IGNORECASE).match(s): either None or a match whose groups D, U satisfy
    s == D ++ U ++ T, D one or more ASCII digits, U empty or one of bkmgBKMG, T empty or a single newline
    (`$` also matches before a trailing newline) - assumed contract of `re` for this literal pattern"""
    from .contract import ForAll

    ss = V.to_seq(s0)
    if not eng.branch(eng.fresh_bool("unit_pattern_matches")):
        eng.ghost["unit_match"] = None
        return None
    D = eng.fresh_seq("digits", "char", "str")
    U = eng.fresh_seq("unit", "char", "str")
    T = eng.fresh_seq("tail", "char", "str")
    eng.assume(V.eq(ss, V.cat(D, U, T)))
    eng.assume(V.L(D) >= 1)
    eng.register_forall(ForAll(lambda k: V.And(V.nth(D, k) >= 48, V.nth(D, k) <= 57), guard=lambda k: V.And(k >= 0, k < V.L(D)), over=D))
    units = [ord(ch) for ch in "bkmgBKMG"]
    eng.assume(V.Or(V.L(U) == 0, V.And(V.L(U) == 1, V.Or(*[V.nth(U, 0) == u for u in units]))))
    eng.assume(V.Or(V.L(T) == 0, V.And(V.L(T) == 1, V.nth(T, 0) == 10)))
    eng.pc.append(V.uf("is_decimal", V.seq_sort("char"), z3.BoolSort())(D.t))
    eng.ghost["unit_match"] = (D, U, T)
    return eng.alloc("match", groups=(ss, D, U))


@ext("re.match")
def _re_match(eng, args, kwargs, node):
    """re.match for the literal patterns used by the FUCs (assumed: `re` matches as documented)"""
    pat, s0 = args[0], args[1]
    if pat == "^[a-zA-Z]:":
        if not is_sym(s0):
            import re as _re

            return _re.match(pat, s0) is not None
        ss = V.to_seq(s0)
        return V.And(V.L(ss) >= 2, _is_alpha(V.nth(ss, 0)), V.nth(ss, 1) == 58)
    raise EngineError("re.match with pattern %r is not modelled" % (pat,))


@ext("os.path.isabs", "posixpath.isabs")
def _isabs(eng, args, kwargs, node):
    s0 = args[0]
    if not is_sym(s0):
        return s0.startswith("/")
    ss = V.to_seq(s0)
    return V.And(V.L(ss) >= 1, V.nth(ss, 0) == 47)


@ext("io.BytesIO", "BytesIO")
def _bytesio(eng, args, kwargs, node):
    data = args[0] if args else b""
    data = seq_content(eng, data) if isinstance(data, Ref) else data
    if isinstance(data, SOpq) and eng.abstract:
        return eng.opaque_call("io.BytesIO", None, args, kwargs, node)
    return eng.new_stream(_mk_bytes(data), 0, "bytesio")


@ext("zlib.crc32")
def _crc32(eng, args, kwargs, node):
    data = args[0]
    init = args[1] if len(args) > 1 else 0
    data = seq_content(eng, data) if isinstance(data, Ref) else data
    return crc32(eng, data, init)


@ext("print")
def _print(eng, args, kwargs, node):
    if eng.abstract:
        eng.event("call", "print", None, args, kwargs, node)
    return None


@ext("next")
def _next(eng, args, kwargs, node):
    """next(filter(pred, xs), default): the first element satisfying pred, else default"""
    from .contract import ForAll

    it = args[0]
    if not isinstance(it, FilterV) or len(args) != 2:
        raise EngineError("next() is only modelled as next(filter(pred, xs), default)")
    default = args[1]
    src = it.it
    c = seq_content(eng, src) if isinstance(src, Ref) else src
    if not isinstance(c, SSeq):
        items = eng.static_items(src)
        for x in items:
            if eng.branch(V.truthy(eng.call(it.f, [x], {}, node))):
                return x
        return default
    n = V.L(c)

    def pred(j):
        old = eng._assume_safety
        eng._assume_safety = True
        try:
            return V.truthy(eng.call(it.f, [V.nth(c, j)], {}, node))
        finally:
            eng._assume_safety = old

    w = eng.fresh_int("first_match")
    found = eng.branch(V.And(w >= 0, w < n))
    if found:
        eng.assume(pred(w))
        eng.register_forall(ForAll(lambda j: V.Not(pred(j)), guard=lambda j: V.And(j >= 0, j < w), over=c))
        eng.add_index_term(w)
        eng.ghost["first_match"] = w
        return V.nth(c, w)
    eng.register_forall(ForAll(lambda j: V.Not(pred(j)), guard=lambda j: V.And(j >= 0, j < n), over=c))
    eng.ghost["first_match"] = None
    return default


@ext("sorted")
def _sorted(eng, args, kwargs, node):
    if eng.abstract:
        return eng.opaque_call("sorted", None, args, kwargs, node)
    raise EngineError("sorted()")


@ext("super")
def _super(eng, args, kwargs, node):
    fr = eng.frame
    cls = fr.func.cls if fr.func is not None else None
    if cls is None:
        raise EngineError("super() outside method")
    selfv = fr.env.get("self")
    return SuperV(cls, selfv)


class SuperV:
    def __init__(self, cls, selfv):
        self.cls = cls
        self.selfv = selfv


_orig_get_attr = get_attr


def get_attr(eng, o, attr, node):  # noqa: F811
    from .reclist import RecElem, OptV

    if isinstance(o, OptV):
        o = eng.unopt(o, node)
    if isinstance(o, RecElem):
        cell = eng.heap[o.ref.id]
        if cell.get("as_objects"):
            # a list of record-like OBJECTS (e.g. Folder): attributes are the columns, methods are modelled columns
            if attr in cell["cols"]:
                from .reclist import elem_get

                return elem_get(eng, o, attr, node)
            if attr in cell.get("methods", {}):
                return BuiltinMethod(o, attr)
            raise EngineError("attribute %s of a modelled record object" % attr)
        return BuiltinMethod(o, attr)
    if isinstance(o, SuperV):
        for b in o.cls.bases:
            bc = o.cls.module.lookup_class(b)
            if bc is not None:
                m = bc.find_method(attr)
                if m is not None:
                    return BoundMethod(o.selfv, m)
        if attr == "__init__":
            return ExtRef("builtins.object.__init__")
        raise EngineError("super().%s" % attr)
    if isinstance(o, KeysView):
        return BuiltinMethod(o, attr)
    return _orig_get_attr(eng, o, attr, node)


@ext("builtins.object.__init__")
def _obj_init(eng, args, kwargs, node):
    return None


_orig_contains = _contains


def _contains(eng, container, x, node):  # noqa: F811
    from . import reclist as RL

    if isinstance(container, RecKeys):
        container = container.elem
    if isinstance(container, RL.RecElem):
        if is_sym(x):
            raise EngineError("symbolic key lookup in record")
        return RL.col_has(eng.heap[container.ref.id], x, container.idx)
    if isinstance(container, KeysView):
        return _orig_contains(eng, container.ref, x, node)
    return _orig_contains(eng, container, x, node)
