"""'List of dicts with constant string keys' (FilesInfo.files) as a struct of arrays.

A reclist cell holds its length `n` and, per key, three z3 arrays indexed by position:
  has[k]  - the key is present in element k        (constant True for mandatory keys)
  none[k] - the stored value is None               (constant False for non-nullable keys)
  val[k]  - the stored value (Int, Bool or Seq)
Element access is Select, element update is Store (exact, no abstraction of the data).
"""
from __future__ import annotations

try:
    import z3
except Exception:
    z3 = None

from . import values as V
from .values import EngineError, SBool, SInt, SSeq, is_sym


def _sort_of(t):
    if t == "bool":
        return z3.BoolSort()
    if t in ("str", "bytes"):
        return z3.SeqSort(z3.IntSort())
    return z3.IntSort()


class Col:
    __slots__ = ("type", "has", "none", "val")

    def __init__(self, type, has, none, val):
        self.type = type
        self.has = has  # z3 Array Int->Bool, or python bool constant
        self.none = none
        self.val = val

    def copy(self):
        return Col(self.type, self.has, self.none, self.val)


class RecElem:
    """element `idx` of reclist cell `ref` (a dict-like value)"""

    __slots__ = ("ref", "idx")

    def __init__(self, ref, idx):
        self.ref = ref
        self.idx = idx


class OptV:
    """value that may be None: (isnone, value)"""

    __slots__ = ("none", "val")

    def __init__(self, none, val):
        self.none = none
        self.val = val


def fresh_col(eng, name, spec):
    t = spec.get("type", "int")
    has = z3.Array(eng.fresh_name(name + ".has"), z3.IntSort(), z3.BoolSort()) if spec.get("optional") else True
    none = z3.Array(eng.fresh_name(name + ".none"), z3.IntSort(), z3.BoolSort()) if spec.get("nullable") else False
    val = z3.Array(eng.fresh_name(name + ".val"), z3.IntSort(), _sort_of(t))
    return Col(t, has, none, val)


def new_reclist(eng, name, schema, n=None):
    cols = {k: fresh_col(eng, "%s.%s" % (name, k), spec) for k, spec in schema.items()}
    if n is None:
        n = eng.fresh_int(name + ".n")
        eng.assume(n >= 0)
    return eng.alloc("reclist", n=n, cols=cols, schema=dict(schema), label=name)


def havoc_cols(eng, cell, base):
    return {k: fresh_col(eng, "%s.%s" % (base, k), cell["schema"].get(k, {"type": c.type, "optional": c.has is not True, "nullable": c.none is not False})) for k, c in cell["cols"].items()}


def _sel(arr, idx, const_ok=True):
    if isinstance(arr, bool):
        return arr
    return SBool(z3.Select(arr, V._zi(idx)))


def col_has(cell, field, idx):
    c = cell["cols"].get(field)
    if c is None:
        return False
    return _sel(c.has, idx)


def col_none(cell, field, idx):
    c = cell["cols"][field]
    return _sel(c.none, idx)


def col_val(cell, field, idx):
    c = cell["cols"][field]
    t = z3.Select(c.val, V._zi(idx))
    if c.type == "bool":
        return SBool(t)
    if c.type == "str":
        return SSeq(t, "char", "str")
    if c.type == "bytes":
        return SSeq(t, "byte", "bytes")
    return SInt(t)


def elem_get(eng, elem, field, node=None):
    """f[field]"""
    from .engine import RaiseExc

    cell = eng.heap[elem.ref.id]
    if field not in cell["cols"]:
        raise RaiseExc("KeyError", (field,), node, implicit=True)
    eng.safety(col_has(cell, field, elem.idx), "KeyError", "key-present:" + field, node)
    c = cell["cols"][field]
    v = col_val(cell, field, elem.idx)
    if c.none is False:
        return v
    return OptV(col_none(cell, field, elem.idx), v)


def elem_set(eng, elem, field, value):
    cell = eng.heap[elem.ref.id]
    cols = dict(cell["cols"])
    idx = V._zi(elem.idx)
    if field in cols:
        c = cols[field].copy()
    else:
        t = "bool" if isinstance(value, (bool, SBool)) else ("str" if (isinstance(value, str) or (isinstance(value, SSeq) and value.py == "str")) else "int")
        c = Col(t, z3.K(z3.IntSort(), z3.BoolVal(False)), False, z3.K(z3.IntSort(), _default(t)))
    isnone = False
    if isinstance(value, OptV):
        isnone, value = value.none, value.val
    elif value is None:
        isnone = True
        value = None
    if c.has is not True:
        c.has = z3.Store(c.has, idx, z3.BoolVal(True))
    if isnone is not False or c.none is not False:
        if c.none is False:
            c.none = z3.K(z3.IntSort(), z3.BoolVal(False))
        c.none = z3.Store(c.none, idx, V._zb(isnone) if not isinstance(isnone, bool) else z3.BoolVal(isnone))
    if value is not None:
        if c.type == "bool":
            zv = V._zb(value)
        elif c.type in ("str", "bytes"):
            zv = V.to_seq(value).t
        else:
            zv = V._zi(value)
        c.val = z3.Store(c.val, idx, zv)
    cols[field] = c
    eng.set_field(elem.ref, "cols", cols)


def _default(t):
    if t == "bool":
        return z3.BoolVal(False)
    if t in ("str", "bytes"):
        return z3.Empty(z3.SeqSort(z3.IntSort()))
    return z3.IntVal(0)


def const_reclist(eng, n, fields):
    """[{k: const, ...} for _ in range(n)]"""
    cols = {}
    for k, v in fields.items():
        t = "bool" if isinstance(v, bool) else ("str" if isinstance(v, str) else "int")
        if v is None:
            cols[k] = Col("int", True, z3.K(z3.IntSort(), z3.BoolVal(True)), z3.K(z3.IntSort(), z3.IntVal(0)))
        else:
            zv = z3.BoolVal(v) if t == "bool" else (V.to_seq(v).t if t == "str" else z3.IntVal(v))
            cols[k] = Col(t, True, False, z3.K(z3.IntSort(), zv))
    schema = {k: {"type": c.type} for k, c in cols.items()}
    return eng.alloc("reclist", n=n, cols=cols, schema=schema, label="recs")


# ---- contract-side view (symbolic and concrete) ----------------------------------------------------
class RecView:
    def __init__(self, cell):
        self.cell = cell

    @property
    def n(self):
        return self.cell["n"]

    def has(self, field, k):
        return col_has(self.cell, field, k)

    def isnone(self, field, k):
        if field not in self.cell["cols"]:
            return True
        return col_none(self.cell, field, k)

    def val(self, field, k):
        return col_val(self.cell, field, k)

    def defined(self, field, k):
        """key present and value not None"""
        if field not in self.cell["cols"]:
            return False
        return V.And(self.has(field, k), V.Not(self.isnone(field, k)))


class ConcreteRecView:
    def __init__(self, lst):
        self.lst = lst

    @property
    def n(self):
        return len(self.lst)

    def _ok(self, k):
        return 0 <= k < len(self.lst)

    def has(self, field, k):
        return self._ok(k) and field in self.lst[k]

    def isnone(self, field, k):
        return (not self.has(field, k)) or self.lst[k][field] is None

    def val(self, field, k):
        if not self.has(field, k) or self.lst[k][field] is None:
            return 0
        return self.lst[k][field]

    def defined(self, field, k):
        return self.has(field, k) and self.lst[k][field] is not None
