"""AST -> verification-condition generator for a Python subset (DESIGN.md section 2).

Forward symbolic execution of the *real* source of a function under contract (FUC), re-read
from /repo on every run.  Paths are explored by deterministic re-execution with a recorded list
of branch decisions (no state copying).  Every obligation is one SMT query  PC => goal.
"""
from __future__ import annotations

import ast
import hashlib
import json
import importlib.util
import os
import sys
import time

try:
    import z3
except Exception:  # concrete-only interpreter (/venv/bin/python)
    z3 = None

from . import values as V
from .values import EngineError, SBool, SInt, SOpq, SSeq, Sym, is_sym

REPO = os.environ.get("VERIF_REPO", "/repo")

# ------------------------------------------------------------------------------------------------
# control-flow exceptions of the interpreter


class PathEnd(Exception):
    """this path is finished (cut at a loop head, or infeasible)"""


class ReturnExc(Exception):
    def __init__(self, value):
        self.value = value


class BreakExc(Exception):
    pass


class ContinueExc(Exception):
    pass


class RaiseExc(Exception):
    """a Python exception raised by the interpreted code"""

    def __init__(self, cls, args=(), node=None, implicit=False):
        self.cls = cls  # class name (str)
        self.args_v = tuple(args)
        self.node = node
        self.implicit = implicit


class RestartFUC(Exception):
    pass


# ------------------------------------------------------------------------------------------------
# engine-level values


class Ref:
    """reference to a heap cell"""

    __slots__ = ("id",)

    def __init__(self, id):
        self.id = id

    def __repr__(self):
        return "Ref(%d)" % self.id

    def __eq__(self, o):
        return isinstance(o, Ref) and o.id == self.id

    def __hash__(self):
        return hash(("Ref", self.id))


class FuncRef:
    def __init__(self, module, qualname, node, cls=None):
        self.module = module
        self.qualname = qualname
        self.node = node
        self.cls = cls
        decos = []
        for d in node.decorator_list:
            if isinstance(d, ast.Name):
                decos.append(d.id)
            elif isinstance(d, ast.Attribute):
                decos.append(d.attr)
        self.decorators = decos

    @property
    def key(self):
        return "%s:%s" % (self.module.name, self.qualname)

    def __repr__(self):
        return "FuncRef(%s)" % self.key


class ClassRef:
    def __init__(self, module, name, node):
        self.module = module
        self.name = name
        self.node = node
        self.methods = {}
        self.class_attrs = {}
        self.bases = []
        for b in node.bases:
            if isinstance(b, ast.Name):
                self.bases.append(b.id)
            elif isinstance(b, ast.Attribute):
                self.bases.append(b.attr)
        for st in node.body:
            if isinstance(st, ast.FunctionDef):
                self.methods[st.name] = FuncRef(module, name + "." + st.name, st, cls=self)
            elif isinstance(st, ast.Assign) and len(st.targets) == 1 and isinstance(st.targets[0], ast.Name):
                self.class_attrs[st.targets[0].id] = st.value
            elif isinstance(st, ast.ClassDef):
                self.class_attrs[st.name] = ClassRef(module, name + "." + st.name, st)

    def find_method(self, name):
        if name in self.methods:
            return self.methods[name]
        for b in self.bases:
            bc = self.module.lookup_class(b)
            if bc is not None:
                m = bc.find_method(name)
                if m is not None:
                    return m
        return None

    def is_exception(self):
        return self.name in EXC_PARENT or any(b in EXC_PARENT or b == "Exception" for b in self.bases)

    def __repr__(self):
        return "ClassRef(%s.%s)" % (self.module.name, self.name)


class ExtRef:
    """external (stdlib / third-party) name, identified by dotted path"""

    def __init__(self, dotted):
        self.dotted = dotted

    def __repr__(self):
        return "ExtRef(%s)" % self.dotted

    def __eq__(self, o):
        return isinstance(o, ExtRef) and o.dotted == self.dotted

    def __hash__(self):
        return hash(self.dotted)


class BoundMethod:
    def __init__(self, self_v, func):
        self.self_v = self_v
        self.func = func


class BuiltinMethod:
    """method of a modelled built-in value (bytes, list, stream, ...)"""

    def __init__(self, self_v, name):
        self.self_v = self_v
        self.name = name


class LambdaV:
    def __init__(self, node, env, module):
        self.node = node
        self.env = env
        self.module = module


class ExcV:
    """exception instance value"""

    def __init__(self, cls, args):
        self.cls = cls
        self.args = tuple(args)


class RangeV:
    def __init__(self, start, stop, step=1):
        self.start, self.stop, self.step = start, stop, step


class EnumerateV:
    def __init__(self, it, start=0):
        self.it = it
        self.start = start


class ZipV:
    def __init__(self, its):
        self.its = its


# exception hierarchy (builtin part; repo classes are added from py7zr/exceptions.py)
EXC_PARENT = {
    "BaseException": None,
    "Exception": "BaseException",
    "ArithmeticError": "Exception",
    "ZeroDivisionError": "ArithmeticError",
    "OverflowError": "ArithmeticError",
    "AssertionError": "Exception",
    "AttributeError": "Exception",
    "EOFError": "Exception",
    "LookupError": "Exception",
    "IndexError": "LookupError",
    "KeyError": "LookupError",
    "OSError": "Exception",
    "FileExistsError": "OSError",
    "FileNotFoundError": "OSError",
    "PermissionError": "OSError",
    "RuntimeError": "Exception",
    "NotImplementedError": "RuntimeError",
    "StopIteration": "Exception",
    "TypeError": "Exception",
    "ValueError": "Exception",
    "UnicodeError": "ValueError",
    "UnicodeDecodeError": "UnicodeError",
    "UnicodeEncodeError": "UnicodeError",
    "struct.error": "Exception",
    "error": "Exception",
    "LZMAError": "Exception",
    "MemoryError": "Exception",
    "queue.Empty": "Exception",
    "Empty": "Exception",
    "GetPassWarning": "Exception",
}


def exc_is_subclass(cls, parent):
    seen = 0
    while cls is not None and seen < 20:
        if cls == parent:
            return True
        cls = EXC_PARENT.get(cls)
        seen += 1
    return False


# ------------------------------------------------------------------------------------------------
# module loader

_MODULES = {}
_PROPS_MODULE = None


def load_properties_module():
    """py7zr/properties.py imports only the standard library: load the REAL file stand-alone
    (without importing the py7zr package) so that constants come from the code under verification."""
    global _PROPS_MODULE
    if _PROPS_MODULE is None:
        path = os.path.join(REPO, "py7zr", "properties.py")
        spec = importlib.util.spec_from_file_location("_py7zr_properties_standalone", path)
        mod = importlib.util.module_from_spec(spec)
        spec.loader.exec_module(mod)
        _PROPS_MODULE = mod
    return _PROPS_MODULE


class Module:
    def __init__(self, name):
        self.name = name
        self.path = os.path.join(REPO, *name.split(".")) + ".py"
        with open(self.path, encoding="utf-8") as f:
            self.source = f.read()
        self.tree = ast.parse(self.source)
        self.funcs = {}
        self.classes = {}
        self.assigns = {}
        self.imports = {}  # local name -> dotted origin
        self._const_cache = {}
        self._index(self.tree.body)

    def _index(self, body):
        for st in body:
            if isinstance(st, ast.FunctionDef):
                self.funcs[st.name] = FuncRef(self, st.name, st)
            elif isinstance(st, ast.ClassDef):
                self.classes[st.name] = ClassRef(self, st.name, st)
            elif isinstance(st, ast.Assign):
                for t in st.targets:
                    if isinstance(t, ast.Name):
                        self.assigns[t.id] = st.value
            elif isinstance(st, ast.AnnAssign) and isinstance(st.target, ast.Name) and st.value is not None:
                self.assigns[st.target.id] = st.value
            elif isinstance(st, ast.Import):
                for a in st.names:
                    self.imports[a.asname or a.name.split(".")[0]] = a.name if a.asname else a.name.split(".")[0]
            elif isinstance(st, ast.ImportFrom):
                for a in st.names:
                    self.imports[a.asname or a.name] = (st.module or "") + "." + a.name
            elif isinstance(st, (ast.If, ast.Try)):
                # platform / optional-import switches at module level: index every arm
                for sub in ast.iter_child_nodes(st):
                    pass
                bodies = []
                if isinstance(st, ast.If):
                    bodies = [st.body, st.orelse]
                else:
                    bodies = [st.body] + [h.body for h in st.handlers] + [st.orelse, st.finalbody]
                for b in bodies:
                    self._index_conditional(b)

    def _index_conditional(self, body):
        for st in body:
            if isinstance(st, (ast.Import, ast.ImportFrom)):
                self._index([st])
            elif isinstance(st, ast.Assign):
                for t in st.targets:
                    if isinstance(t, ast.Name) and t.id not in self.assigns:
                        self.assigns[t.id] = st.value

    def lookup_class(self, name):
        if name in self.classes:
            return self.classes[name]
        org = self.imports.get(name)
        if org and org.startswith("py7zr."):
            parts = org.split(".")
            m = get_module(".".join(parts[:-1])) if len(parts) > 2 else None
            if m is not None:
                return m.lookup_class(parts[-1])
        if org and org.startswith("py7zr") and len(org.split(".")) == 2:
            for mn in ("py7zr.exceptions",):
                m = get_module(mn)
                if org.split(".")[1] in m.classes:
                    return m.classes[org.split(".")[1]]
        return None

    def find_function(self, qualname):
        parts = qualname.split(".")
        if len(parts) == 1:
            return self.funcs.get(parts[0])
        c = self.classes.get(parts[0])
        for p in parts[1:-1]:
            if c is None:
                return None
            c = c.class_attrs.get(p)
        if c is None or not isinstance(c, ClassRef):
            return None
        return c.methods.get(parts[-1])


def get_module(name):
    m = _MODULES.get(name)
    if m is None:
        path = os.path.join(REPO, *name.split(".")) + ".py"
        if not os.path.exists(path):
            return None
        m = Module(name)
        _MODULES[name] = m
        if name == "py7zr.exceptions":
            for cn, c in m.classes.items():
                EXC_PARENT[cn] = c.bases[0] if c.bases else "Exception"
    return m


def reset_modules():
    global _PROPS_MODULE
    _MODULES.clear()
    _PROPS_MODULE = None


def func_source_info(fr: FuncRef):
    seg = ast.get_source_segment(fr.module.source, fr.node) or ""
    return {
        "file": os.path.relpath(fr.module.path, REPO),
        "qualname": fr.qualname,
        "lines": [fr.node.lineno, fr.node.end_lineno],
        "sha256": hashlib.sha256(seg.encode()).hexdigest(),
    }


# ------------------------------------------------------------------------------------------------


class Obligation:
    __slots__ = ("name", "kind", "label", "pc", "goal", "props", "path", "verdict", "backend", "time_s", "model", "note", "fuc")

    def __init__(self, name, kind, label, pc, goal, props, path):
        self.name = name
        self.kind = kind
        self.label = label
        self.pc = pc
        self.goal = goal
        self.props = props
        self.path = path
        self.verdict = None
        self.backend = None
        self.time_s = 0.0
        self.model = None
        self.note = ""
        self.fuc = None


class Event:
    __slots__ = ("kind", "name", "recv", "args", "kwargs", "pc_len", "node", "result", "pre")

    def __init__(self, kind, name, recv, args, kwargs, pc_len, node, result=None):
        self.kind = kind
        self.name = name
        self.recv = recv
        self.args = args
        self.kwargs = kwargs
        self.pc_len = pc_len
        self.node = node
        self.result = result
        self.pre = {}  # opaque calls: content of the list arguments at the time of the call (index -> items)

    def __repr__(self):
        return "Event(%s %s)" % (self.kind, self.name)


class Frame:
    def __init__(self, func, env, module, contract=None):
        self.func = func
        self.env = env
        self.module = module
        self.contract = contract
        self.loop_ord = 0


MAX_PATHS = int(os.environ.get("PYVC_MAX_PATHS", "4000"))
BRANCH_TIMEOUT_MS = 3000


class PCList(list):
    """path condition: a list that keeps every term ever appended alive for the whole path, so that z3 AST ids
    (used as cache keys) are never reused by later terms after an entry has been removed again"""

    def __init__(self, *a):
        super().__init__(*a)
        self.keep = list(self)

    def append(self, x):
        self.keep.append(x)
        super().append(x)

    def extend(self, xs):
        xs = list(xs)
        self.keep.extend(xs)
        super().extend(xs)


class Engine:
    """One Engine verifies one FUC against its contract."""

    def __init__(self, contract, registry, mode_opts=None):
        self.contract = contract
        self.registry = registry
        self.opts = mode_opts or {}
        self.abstract = bool(getattr(contract, "abstract", False))
        self.obligations = []
        self._oblig_keys = set()
        self.loop_havoc = {}  # loop key -> set of heap locations
        self.paths = 0
        self.stats = {"branch_checks": 0, "branch_time": 0.0, "paths": 0, "restarts": 0, "havocs": [], "opaque_calls": set()}
        self.notes = []
        self._branch_solver = None
        self.cover = {}  # cover label -> reached?
        self.canaries = {}

    # ---------------- path state -----------------
    def _reset_path(self, prefix):
        self.prefix = list(prefix)
        self.dpos = 0
        self.pc = PCList()
        self._keep = []
        self.heap = {}
        self.next_id = 1
        self.sym_counter = {}
        self.trace = []
        self.frames = []
        self.ghost = {}
        self.path_id = self.paths
        self.loop_ctx = []  # active cut loops
        self.exc_stack = []
        self._pure_guard = []
        self._assume_safety = False
        self.index_terms = []
        self._index_keys = set()
        self._byte_facts = set()
        self._isolver = None
        self._isolver_ids = []
        self._abs = None
        self._known_cache = {}
        self._known_sig = {}
        self.immutable_ids = set()
        self.attr_log = {}
        self.segments = {}  # ostream id -> [(producer, appended segment)] in program order on this path
        self.ctx_mode = "prove"
        self.seq_facts = {}
        self._inst_seen = set()
        self._in_inst = 0

    # ---------------- fresh symbols -----------------
    def fresh_name(self, base):
        n = self.sym_counter.get(base, 0)
        self.sym_counter[base] = n + 1
        return "%s!%d" % (base, n) if n else base

    def fresh_int(self, base="i"):
        return V.fresh_int(self.fresh_name(base))

    def fresh_bool(self, base="b"):
        return V.fresh_bool(self.fresh_name(base))

    def fresh_seq(self, base="s", elem="byte", py="bytes"):
        return V.fresh_seq(self.fresh_name(base), elem, py)

    def fresh_opq(self, base="o"):
        return V.fresh_opq(self.fresh_name(base))

    def fresh_like(self, v, base="h"):
        if isinstance(v, bool) or isinstance(v, SBool):
            return self.fresh_bool(base)
        if isinstance(v, (int, SInt)):
            return self.fresh_int(base)
        if isinstance(v, SSeq):
            return self.fresh_seq(base, v.elem, v.py)
        if isinstance(v, (bytes, bytearray, str)):
            k, p = V.elem_kind_of(v)
            return self.fresh_seq(base, k, p)
        if isinstance(v, (SOpq,)) or v is None:
            return self.fresh_opq(base)
        if isinstance(v, tuple):
            k, p = V.elem_kind_of(list(v))
            return self.fresh_seq(base, k, "list")
        raise EngineError("cannot havoc value of this shape: %r" % (v,))

    # ---------------- heap -----------------
    def alloc(self, kind, **fields):
        i = self.next_id
        self.next_id += 1
        d = {"kind": kind}
        d.update(fields)
        self.heap[i] = d
        return Ref(i)

    def cell(self, ref):
        return self.heap[ref.id]

    def get_field(self, ref, name):
        return self.heap[ref.id][name]

    def has_field(self, ref, name):
        return name in self.heap[ref.id]

    def set_field(self, ref, name, value):
        d = dict(self.heap[ref.id])
        d[name] = value
        self.heap[ref.id] = d
        self._note_write(ref.id, name)

    def _note_write(self, oid, field):
        for lc in self.loop_ctx:
            if oid < lc["first_new_id"]:
                key = (oid, field)
                if key not in lc["havoc_set"]:
                    self.loop_havoc.setdefault(lc["key"], set()).add(key)
                    self.stats["restarts"] += 1
                    raise RestartFUC()

    def new_list(self, items):
        """items: python sequence of values, or SSeq"""
        if isinstance(items, SSeq):
            return self.alloc("list", items=items.with_py("list"))
        return self.alloc("list", items=tuple(items))

    def list_items(self, ref):
        return self.heap[ref.id]["items"]

    def new_dict(self, d):
        return self.alloc("dict", items=dict(d))

    def new_stream(self, data, pos=0, name="stream"):
        return self.alloc("stream", data=data, pos=pos, label=name)

    def new_outstream(self, base, out=b"", name="out"):
        return self.alloc("ostream", base=base, out=out, label=name)

    def new_object(self, cls, **fields):
        return self.alloc("obj", cls=cls, **fields)

    def kind(self, v):
        if isinstance(v, Ref):
            return self.heap[v.id]["kind"]
        return None

    # ---------------- path condition / obligations -----------------
    def assume(self, f):
        if f is True:
            return
        if f is False:
            raise PathEnd()
        if not isinstance(f, SBool):
            raise EngineError("assume of non-bool %r" % (f,))
        self.pc.append(f.t)
        self._learn_concat(f.t)

    def _learn_concat(self, t):
        """X == A ++ B (X a sequence constant): element-wise consequences as instantiable facts
        (X[j] == A[j] for j < |A|, X[|A|+j] == B[j] for j < |B|) - spares the seq solver nth-over-concat."""
        from .contract import ForAll

        try:
            if z3.is_and(t):
                for ch in t.children():
                    self._learn_concat(ch)
                return
            if not z3.is_eq(t):
                return
            a, b = t.arg(0), t.arg(1)
            if not z3.is_seq(a):
                return
            if not z3.is_app_of(a, z3.Z3_OP_SEQ_CONCAT) and not z3.is_app_of(b, z3.Z3_OP_SEQ_CONCAT):
                # X == Y: facts recorded for one sequence are instantiated on reads of the other as well
                ia, ib = a.get_id(), b.get_id()
                self._keep.extend([a, b])
                la = self.seq_facts.setdefault(ia, [])
                lb = self.seq_facts.get(ib)
                if lb is not None and lb is not la:
                    la.extend(x for x in lb if x not in la)
                self.seq_facts[ib] = la
                return
            if z3.is_app_of(a, z3.Z3_OP_SEQ_CONCAT) and not z3.is_app_of(b, z3.Z3_OP_SEQ_CONCAT):
                a, b = b, a
            if not (z3.is_const(a) and a.decl().kind() == z3.Z3_OP_UNINTERPRETED and z3.is_app_of(b, z3.Z3_OP_SEQ_CONCAT)):
                return
            elem = "bool" if a.sort().basis() == z3.BoolSort() else "int"
            X = SSeq(a, elem, "list")
            parts = b.children()
            off = z3.IntVal(0)
            for part in parts:
                P = SSeq(part, elem, "list")
                o = SInt(off)
                ln = SInt(z3.Length(part))

                def fact(j, P=P, o=o, ln=ln):
                    return V.Implies(V.And(j >= o, j < o + ln), V.eq(V.nth(X, j), V.nth(P, j - o)))

                self.register_forall(ForAll(fact, over=X))
                off = off + z3.Length(part)
        except z3.Z3Exception:
            return

    def byte_fact(self, e):
        k = e.get_id()
        if k not in self._byte_facts:
            self._byte_facts.add(k)
            self._keep.append(e)
            self.pc.append(z3.And(e >= 0, e < 256))

    def add_index_term(self, t, over=None):
        """a term at which quantified facts are instantiated (witnesses of all_true/any_true, hints): every recorded
        fact, or - when `over` is given - only the facts about that sequence (a witness index of `over`)"""
        oid = over.t.get_id() if isinstance(over, SSeq) else None
        key = (t.t.get_id() if is_sym(t) else ("c", t), oid)
        if key not in self._index_keys:
            self._index_keys.add(key)
            self.index_terms.append((t, oid))
            if over is not None:
                self._keep.append(over)

    def saturate(self):
        """instantiate the recorded quantified facts at every registered index term (one round)"""
        for t, oid in list(self.index_terms):
            self.instantiate_all(t, only_over=oid)

    def oblig(self, kind, label, goal, props=None, assume_after=True, fuc=None):
        """emit obligation  PC => goal"""
        if self.index_terms:
            self.saturate()
        if isinstance(goal, (list, tuple)):
            goal = V.And(*goal)
        if goal is True:
            g = z3.BoolVal(True)
        elif goal is False:
            g = z3.BoolVal(False)
        elif isinstance(goal, SBool):
            g = goal.t
        else:
            raise EngineError("obligation %s#%s: goal is not a formula: %r" % (kind, label, goal))
        fucname = fuc or self.contract.target
        name = "%s/%s#%s" % (fucname.replace("py7zr.", "", 1).replace(":", "."), kind, label)
        o = Obligation(name, kind, label, list(self.pc), g, props or self.contract.props, self.path_id)
        o.fuc = fucname
        key = (name, hash(tuple(t.get_id() for t in self.pc)), g.get_id())
        if key not in self._oblig_keys:
            self._oblig_keys.add(key)
            self.obligations.append(o)
        if assume_after and goal is not True:
            if goal is False:
                raise PathEnd()
            self.pc.append(g)

    def canary(self, where):
        """vacuity guard: `False` must NOT be provable here (some path condition reaching `where` is satisfiable)"""
        if self.canaries.get(where):
            return
        s = z3.Solver()
        s.set("timeout", 10000)
        for t in self.pc:
            s.add(t)
        r = s.check()
        if r == z3.sat:
            self.canaries[where] = True
        elif r == z3.unsat:
            self.canaries.setdefault(where, False)
        else:
            # satisfiability undecided within the budget: not a proof of vacuity; recorded, retried on other paths
            self.canaries.setdefault(where, "unknown")

    def _solver(self):
        if self._branch_solver is None:
            self._branch_solver = z3.Solver()
            self._branch_solver.set("timeout", BRANCH_TIMEOUT_MS)
        return self._branch_solver

    def feasible(self, extra=None):
        s = z3.Solver()
        s.set("timeout", BRANCH_TIMEOUT_MS)
        for t in self.pc:
            s.add(t)
        if extra is not None:
            s.add(extra)
        t0 = time.time()
        r = s.check()
        self.stats["branch_checks"] += 1
        self.stats["branch_time"] += time.time() - t0
        return r != z3.unsat

    def decide(self, options):
        """options: list of z3 conditions (or None for unconditional alternatives).
        returns index of the alternative taken on this path"""
        if self.dpos < len(self.prefix):
            idx = self.prefix[self.dpos]
            self.dpos += 1
            return idx
        feas = []
        for i, c in enumerate(options):
            if c is None or self.feasible(c):
                feas.append(i)
        if not feas:
            raise PathEnd()
        for alt in feas[1:]:
            self.worklist.append(self.prefix + [alt])
        self.prefix.append(feas[0])
        self.dpos += 1
        return feas[0]

    def branch(self, cond):
        """evaluate a condition to a concrete bool on this path, forking when symbolic"""
        cond = V.truthy(cond) if not isinstance(cond, (bool, SBool)) else cond
        cond = V.simplify_bool(cond)
        if isinstance(cond, bool):
            return cond
        idx = self.decide([cond.t, z3.Not(cond.t)])
        if idx == 0:
            self.pc.append(cond.t)
            return True
        self.pc.append(z3.Not(cond.t))
        return False

    def concretize_int(self, v, what="value", limit=16):
        """fork over all values of a symbolic int when there are finitely (<= limit) many"""
        if not is_sym(v):
            return v
        if self.dpos < len(self.prefix):
            val = self.prefix[self.dpos]
            self.dpos += 1
            self.pc.append(v.t == val)
            return val
        s = z3.Solver()
        s.set("timeout", BRANCH_TIMEOUT_MS * 2)
        for t in self.pc:
            s.add(t)
        vals = []
        while len(vals) <= limit:
            r = s.check()
            if r == z3.unsat:
                break
            if r != z3.sat:
                raise EngineError("cannot enumerate values of %s (solver: %s)" % (what, r))
            m = s.model()
            val = m.eval(v.t, model_completion=True).as_long()
            vals.append(val)
            s.add(v.t != val)
        if len(vals) > limit:
            raise EngineError("%s is not statically bounded (needs a loop invariant)" % what)
        if not vals:
            raise PathEnd()
        vals.sort()
        for alt in vals[1:]:
            self.worklist.append(self.prefix + [alt])
        self.prefix.append(vals[0])
        self.dpos += 1
        self.pc.append(v.t == vals[0])
        return vals[0]

    def prove_now(self, f, timeout_ms=2000):
        """quick internal entailment check PC |= f (used for engine-internal simplifications only).
        Decided on the EUF+LIA abstraction of the sequence theory (pyvc.seqabs): `unsat` there is sound for the
        real theory, a `sat`/`unknown` answer just means "not known".  One incremental solver per path; every
        path-condition entry is guarded by an indicator literal and selected through check-assumptions."""
        f = V.simplify_bool(f)
        if isinstance(f, bool):
            return f
        key = f.t.get_id()
        self._keep.append(f)
        hit = self._known_cache.get(key)
        if hit is not None and hit[0] <= len(self.pc) and self._pc_hash(hit[0]) == hit[1]:
            return True  # proved under a path condition that is still a prefix of the current one
        self.stats["branch_checks"] += 1
        r = self._abs_entails(f.t, timeout_ms)
        if r:
            n = len(self.pc)
            self._known_cache[key] = (n, self._pc_hash(n))
            return True
        return False

    def prove_strong(self, f, timeout_ms=300):
        """entailment check PC |= f with the full theory solver (incremental, one per path); only `unsat` counts"""
        f = V.simplify_bool(f)
        if isinstance(f, bool):
            return f
        key = f.t.get_id()
        self._keep.append(f)
        hit = self._known_cache.get(key)
        if hit is not None and hit[0] <= len(self.pc) and self._pc_hash(hit[0]) == hit[1]:
            return True
        s = self._sync_isolver()
        s.push()
        try:
            s.set("timeout", int(timeout_ms))
            s.add(z3.Not(f.t))
            r = s.check() == z3.unsat
        finally:
            s.pop()
        if r:
            n = len(self.pc)
            self._known_cache[key] = (n, self._pc_hash(n))
        return r

    def model_of_pc(self, timeout_ms=300):
        """some model of the current path condition (or None): used only to GUESS, every guess is then proved"""
        s = self._sync_isolver()
        s.set("timeout", int(timeout_ms))
        if s.check() != z3.sat:
            return None
        return s.model()

    def _abs_entails(self, goal, timeout_ms):
        from .seqabs import Abstractor, Unsupported

        if self._abs is None:
            self._abs = Abstractor()
            self._abs._extract_info = {}
            self._abs._cat_info = {}
            self._abs_solver = z3.Solver()
            self._abs_lits = {}
            self._abs_nax = 0
            self._abs_bad = set()
        ab, s = self._abs, self._abs_solver
        lits = []
        try:
            for t in self.pc:
                i = t.get_id()
                if i in self._abs_bad:
                    continue
                p = self._abs_lits.get(i)
                if p is None:
                    try:
                        tt = ab.tr(t)
                    except (Unsupported, z3.Z3Exception, RecursionError):
                        self._abs_bad.add(i)  # hypothesis dropped (sound)
                        continue
                    p = z3.Bool("pc!%d" % i)
                    s.add(z3.Implies(p, tt))
                    self._abs_lits[i] = p
                lits.append(p)
            g = ab.tr(goal)
        except (Unsupported, z3.Z3Exception, RecursionError):
            return False
        q = z3.Bool("goal!%d" % goal.get_id())
        s.add(z3.Implies(q, z3.Not(g)))
        for a in ab.axioms[self._abs_nax:]:
            s.add(a)
        self._abs_nax = len(ab.axioms)
        s.set("timeout", max(min(timeout_ms, 50), int(getattr(self.contract, "known_floor_ms", 0))))
        return s.check(*(lits + [q])) == z3.unsat

    def _pc_hash(self, n):
        return hash(tuple(t.get_id() for t in self.pc[:n]))

    def _sync_isolver(self):
        s = self._isolver
        if s is None:
            s = self._isolver = z3.Solver()
            self._isolver_ids = []
        ids = self._isolver_ids
        pc = self.pc
        common = 0
        m = min(len(ids), len(pc))
        while common < m and ids[common] == pc[common].get_id():
            common += 1
        if common < len(ids):
            s.pop(len(ids) - common)
            del ids[common:]
        for t in pc[common:]:
            s.push()
            s.add(t)
            ids.append(t.get_id())
        return s

    # ---------------- quantified facts about sequence elements -----------------
    def register_forall(self, fa):
        over = fa.over
        if over is None:
            self.seq_facts.setdefault(0, []).append((fa.fn, False))
            return
        if isinstance(over, Ref):
            over = self.heap[over.id]["items"]
        if not isinstance(over, SSeq):
            # concrete spine: instantiate at every position now
            n = len(over)
            for k in range(n):
                f = fa.fn(k)
                if f is not True:
                    self.assume(f)
            return
        self._keep.append(over)
        self.seq_facts.setdefault(over.t.get_id(), []).append((fa.fn, fa.trigger))

    def on_nth(self, ss, i):
        facts = self.seq_facts.get(ss.t.get_id())
        if not facts or self._in_inst >= 3:
            return
        iid = i.t.get_id() if is_sym(i) else ("c", i)
        self._keep.append(i)
        self._keep.append(ss)
        self._in_inst += 1
        try:
            for n, (fn, trig) in enumerate(list(facts)):
                key = (ss.t.get_id(), n, iid)
                if not trig or key in self._inst_seen:
                    continue
                self._inst_seen.add(key)
                f = fn(i)
                if isinstance(f, SBool):
                    self.pc.append(f.t)
                elif f is False:
                    raise PathEnd()
        finally:
            self._in_inst -= 1

    def instantiate_all(self, k, only_over=None):
        """instantiate every recorded quantified fact at index term k (goal-directed instantiation)"""
        kid = k.t.get_id() if is_sym(k) else ("c", k)
        self._keep.append(k)
        self._in_inst += 1
        try:
            for sid, facts in list(self.seq_facts.items()):
                if only_over is not None and sid != only_over:
                    continue
                for n, (fn, trig) in enumerate(list(facts)):
                    key = (sid, n, kid)
                    if key in self._inst_seen:
                        continue
                    self._inst_seen.add(key)
                    f = fn(k)
                    if isinstance(f, SBool):
                        self.pc.append(f.t)
        finally:
            self._in_inst -= 1

    def _guarded_goal(self, f, k):
        """goal of `forall k. guard(k) => body(k)` at skolem k: guard goes into the path condition first so that
        facts instantiated at k and sequence-index resolution can use it"""
        if f.guard is not None:
            g = f.guard(k)
            if isinstance(g, SBool):
                self.pc.append(g.t)
            elif g is False:
                return True
            self.instantiate_all(k)
            return f.body(k)
        self.instantiate_all(k)
        return f.fn(k)

    def assume_item(self, f):
        from .contract import ForAll

        if isinstance(f, ForAll):
            self.register_forall(f)
        else:
            self.assume(f)

    def prove_item(self, kind, label, f, props=None, assume_after=True):
        from .contract import ForAll

        if isinstance(f, ForAll):
            if f.mod:
                for r in range(f.mod):
                    q = self.fresh_int("kq@%s" % label)
                    k = q * f.mod + r
                    mark = len(self.pc)
                    goal = self._guarded_goal(f, k)
                    self.oblig(kind, "%s[k%%%d=%d]" % (label, f.mod, r), goal, props=props, assume_after=False)
                    del self.pc[mark:]
            elif f.cases:
                k = self.fresh_int("k@" + label)
                conds = f.cases(k)
                self.oblig(kind, label + "[cases-exhaustive]", V.Or(*conds), props=props, assume_after=False)
                for ci, cnd in enumerate(conds):
                    if ci > 0:
                        # a fresh skolem constant per case: facts instantiated at the previous one were dropped with
                        # the previous case's path-condition suffix
                        k = self.fresh_int("k@" + label)
                        cnd = f.cases(k)[ci]
                    mark = len(self.pc)
                    if isinstance(cnd, SBool):
                        self.pc.append(cnd.t)
                    elif cnd is False:
                        continue
                    goal = self._guarded_goal(f, k)
                    self.oblig(kind, "%s[case%d]" % (label, ci), goal, props=props, assume_after=False)
                    del self.pc[mark:]
            else:
                k = self.fresh_int("k@" + label)
                mark = len(self.pc)
                goal = self._guarded_goal(f, k)
                self.oblig(kind, label, goal, props=props, assume_after=False)
                del self.pc[mark:]
            if assume_after:
                self.register_forall(f)
        else:
            self.oblig(kind, label, f, props=props, assume_after=assume_after)

    # ---------------- safety -----------------
    def allows(self, exc_cls):
        c = self.frames[0].contract if self.frames else self.contract
        for a in self.contract.raises_classes():
            if exc_is_subclass(exc_cls, a):
                return True
        return False

    def safety(self, cond, exc_cls, label, node=None):
        """implicit exception `exc_cls` is raised unless cond"""
        cond = V.simplify_bool(cond)
        if cond is True:
            return
        if self._assume_safety:
            # re-evaluation of an element expression on the normal path: no element raised
            if cond is False:
                self.pc.append(z3.BoolVal(False))
            else:
                self.pc.append(cond.t)
            return
        if self.allows(exc_cls) or self._in_try_catching(exc_cls):
            if self.branch(cond):
                return
            raise RaiseExc(exc_cls, (), node, implicit=True)
        line = getattr(node, "lineno", 0)
        self.oblig("safety", "%s@%s" % (label, self._anchor(node)), cond)

    def _anchor(self, node):
        # structural anchor: function-relative statement text, not a line number
        if node is None:
            return "?"
        try:
            txt = ast.unparse(node)
        except Exception:
            txt = "?"
        txt = txt.split("\n")[0]
        return txt[:48].replace(" ", "")

    def _in_try_catching(self, exc_cls):
        for handlers in self.exc_stack:
            for h in handlers:
                if h is None or exc_is_subclass(exc_cls, h):
                    return True
        return False

    # ---------------- events (abstract mode / effect trace) -----------------
    def event(self, kind, name, recv=None, args=(), kwargs=None, node=None, result=None):
        ev = Event(kind, name, recv, tuple(args), kwargs or {}, len(self.pc), node, result)
        self.trace.append(ev)
        for hook in self.contract.hooks_for(kind, name):
            hook(self.ctx, ev)
        return ev

    # =============================================================================================
    # driver
    # ---- cache of loop havoc sets ------------------------------------------------------------------------------
    # Which heap locations a loop writes is discovered by restarting the whole exploration each time a new one shows
    # up.  The final sets are a deterministic function of (function source, contract module, engine sources); they are
    # cached under that key so that an unchanged function is explored once.  A stale or missing entry only costs the
    # restarts again (a missing location is still detected and triggers a restart; the key excludes stale supersets).
    _HAVOC_CACHE = os.path.join(os.path.dirname(os.path.abspath(__file__)), "havoc_cache")  # one small file per key

    def _havoc_key(self, fr):
        import hashlib
        import inspect

        h = hashlib.sha256()
        h.update(self.contract.target.encode())
        try:
            h.update(ast.get_source_segment(fr.module.source, fr.node).encode())
        except Exception:
            h.update(ast.dump(fr.node).encode())
        try:
            h.update(open(inspect.getsourcefile(type(self.contract)), "rb").read())
        except Exception:
            return None
        here = os.path.dirname(os.path.abspath(__file__))
        for fn in ("engine.py", "builtins_model.py", "values.py", "reclist.py", "contract.py"):
            h.update(open(os.path.join(here, fn), "rb").read())
        return h.hexdigest()

    def _havoc_load(self, key):
        if key is None or os.environ.get("VERIF_NO_HAVOC_CACHE"):
            return
        try:
            ent = json.load(open(os.path.join(self._HAVOC_CACHE, key[:32] + ".json")))
        except Exception:
            return
        if ent.get("key") == key:
            self.loop_havoc = {k: {(int(o), f) for o, f in v} for k, v in ent["loops"].items()}

    def _havoc_store(self, key):
        if key is None or not os.environ.get("VERIF_UPDATE_HAVOC_CACHE") or not self.stats.get("restarts"):
            return
        os.makedirs(self._HAVOC_CACHE, exist_ok=True)
        ent = {"key": key, "target": self.contract.target, "loops": {k: sorted([int(o), f] for o, f in v if isinstance(f, str)) for k, v in self.loop_havoc.items()}}
        path = os.path.join(self._HAVOC_CACHE, key[:32] + ".json")
        tmp = path + ".%d.tmp" % os.getpid()
        json.dump(ent, open(tmp, "w"), sort_keys=True)
        os.replace(tmp, path)

    def run(self):
        """explore all paths of the FUC; returns list of obligations"""
        fr = self.registry.resolve_target(self.contract.target)
        self.target_func = fr
        hkey = self._havoc_key(fr)
        self._havoc_load(hkey)
        try:
            return self._run(fr)
        finally:
            try:
                self._havoc_store(hkey)
            except Exception:
                pass

    def _run(self, fr):
        while True:
            try:
                self.obligations = []
                self._oblig_keys = set()
                self.worklist = [[]]
                self.paths = 0
                self.cover = {}
                self.canaries = {}
                while self.worklist:
                    prefix = self.worklist.pop()
                    self._run_path(fr, prefix)
                    self.paths += 1
                    if self.paths > MAX_PATHS:
                        raise EngineError("path limit exceeded (%d)" % MAX_PATHS)
                break
            except RestartFUC:
                continue
        self.stats["paths"] = self.paths
        return self.obligations

    def _run_path(self, fr, prefix):
        from .contract import Ctx

        self._reset_path(prefix)
        V.ENGINE = self
        V.LAZY_NTH = bool(getattr(self.contract, "lazy_nth", False))
        self.ctx = Ctx(self)
        c = self.contract
        try:
            bound = c.setup(self.ctx)
            c._bound = bound
            for label, f in c.eval_requires(self.ctx, bound):
                self.assume_item(f)
            if not self.feasible():
                self.cover.setdefault("requires", False)
                raise PathEnd()
            self.cover["requires"] = True
            old = self.ctx.snapshot()
            self.ctx._old = old
            args, kwargs = c.call_args(bound)
            try:
                result = self.call_function(fr, args, kwargs, top=True)
                outcome = ("return", result)
            except RaiseExc as e:
                outcome = ("raise", e)
            self._check_exit(c, old, bound, outcome)
        except PathEnd:
            pass

    def _check_exit(self, c, old, bound, outcome):
        ctx = self.ctx
        if outcome[0] == "return":
            self.cover["normal-exit"] = True
            self.canary("normal-exit")
            for kind, label, f, props in c.eval_ensures(ctx, old, bound, outcome[1]):
                self.prove_item(kind, label, f, props=props, assume_after=False)
        else:
            e = outcome[1]
            spec = c.raise_spec(e.cls)
            if spec is None:
                lab = "no-%s@%s" % (e.cls, self._anchor(e.node))
                self.oblig("safety" if e.implicit else "xpost", lab, False, assume_after=False)
            else:
                self.cover["raise-" + e.cls] = True
                for kind, label, f, props in c.eval_xposts(ctx, old, bound, e):
                    self.prove_item(kind, label, f, props=props, assume_after=False)

    # =============================================================================================
    # function calls
    def call_function(self, fr: FuncRef, args, kwargs, top=False, self_v=None):
        node = fr.node
        env = {}
        params = node.args
        names = [a.arg for a in params.posonlyargs + params.args]
        args = list(args)
        if self_v is not None:
            args = [self_v] + args
        if len(args) > len(names) and params.vararg is None:
            raise EngineError("too many arguments for %s" % fr.key)
        for n, a in zip(names, args):
            env[n] = a
        if params.vararg is not None:
            env[params.vararg.arg] = tuple(args[len(names):])
        defaults = params.defaults
        dstart = len(names) - len(defaults)
        mod_frame = Frame(fr, env, fr.module)
        for i, n in enumerate(names):
            if n in env:
                continue
            if n in kwargs:
                env[n] = kwargs[n]
            elif i >= dstart:
                self.frames.append(mod_frame)
                mark = len(self.trace)
                try:
                    env[n] = self.eval(defaults[i - dstart])
                finally:
                    self.frames.pop()
                # Python evaluates a default ONCE, when the function is defined: whatever the expression calls did
                # not happen during this call (a default `iv=get_random_bytes(16)` is one value for the whole process)
                for e in self.trace[mark:]:
                    e.kind = "deftime:" + e.kind
            else:
                raise EngineError("missing argument %s for %s" % (n, fr.key))
        for a, d in zip(params.kwonlyargs, params.kw_defaults):
            if a.arg in kwargs:
                env[a.arg] = kwargs[a.arg]
            elif d is not None:
                self.frames.append(mod_frame)
                mark = len(self.trace)
                try:
                    env[a.arg] = self.eval(d)
                finally:
                    self.frames.pop()
                for e in self.trace[mark:]:
                    e.kind = "deftime:" + e.kind
            else:
                raise EngineError("missing kw argument %s" % a.arg)
        for k in kwargs:
            if k not in names and k not in [a.arg for a in params.kwonlyargs]:
                if params.kwarg is None:
                    raise EngineError("unexpected kw argument %s for %s" % (k, fr.key))
        frame = Frame(fr, env, fr.module, self.contract if top else None)
        if top:
            self.top_env = env  # locals of the function under contract (still readable after it has exited)
        self.frames.append(frame)
        if len(self.frames) > 40:
            raise EngineError("call depth")
        try:
            try:
                self.exec_block(node.body)
            except ReturnExc as r:
                return r.value
            return None
        finally:
            self.frames.pop()

    def call(self, f, args, kwargs, node=None):
        from . import builtins_model as B

        if isinstance(f, FuncRef):
            return self.call_funcref(f, args, kwargs, node)
        if isinstance(f, BoundMethod):
            return self.call_funcref(f.func, args, kwargs, node, self_v=f.self_v)
        if isinstance(f, BuiltinMethod):
            return B.call_method(self, f.self_v, f.name, args, kwargs, node)
        if isinstance(f, ExtRef):
            return B.call_ext(self, f.dotted, args, kwargs, node)
        if isinstance(f, ClassRef):
            return self.instantiate(f, args, kwargs, node)
        if isinstance(f, LambdaV):
            return self.call_lambda(f, args)
        if isinstance(f, SOpq):
            return self.opaque_call("call", f, args, kwargs, node)
        raise EngineError("call of unsupported value %r at %s" % (f, self._anchor(node)))

    def call_lambda(self, lam, args):
        env = dict(lam.env)
        names = [a.arg for a in lam.node.args.args]
        if len(names) != len(args):
            raise EngineError("lambda arity")
        env.update(zip(names, args))
        fr = Frame(None, env, lam.module)
        self.frames.append(fr)
        try:
            return self.eval(lam.node.body)
        finally:
            self.frames.pop()

    def call_funcref(self, fr, args, kwargs, node, self_v=None):
        if "staticmethod" in fr.decorators:
            self_v = None
        elif "classmethod" in fr.decorators:
            self_v = fr.cls
        ct = self.registry.contract_for(fr.key)
        mode = self.contract.callee_mode(fr.key)
        if mode == "inline" or (ct is None and fr.key in self.registry.inline):
            return self.call_function(fr, args, kwargs, self_v=self_v)
        if ct is not None and mode != "opaque":
            allargs = ([self_v] if self_v is not None else []) + list(args)
            return self.apply_contract(ct, fr, allargs, kwargs, node)
        if self.abstract or mode == "opaque":
            return self.opaque_call(fr.key, None, ([self_v] if self_v is not None else []) + list(args), kwargs, node)
        raise EngineError("callee %s has no contract and is not inlinable" % fr.key)

    def instantiate(self, cls: ClassRef, args, kwargs, node):
        if cls.is_exception():
            return ExcV(cls.name, args)
        if "int" in cls.bases and cls.find_method("__init__") is None and cls.find_method("__new__") is None:
            # int subclass without constructor logic (ArchiveTimestamp): the value is the int
            x = self.unopt(args[0], node) if args else 0
            if isinstance(x, (int, SInt)) and not isinstance(x, bool):
                return x
            if isinstance(x, float):
                return int(x)
            if isinstance(x, SOpq) and self.abstract:
                return self.opaque_call("%s:%s" % (cls.module.name, cls.name), None, args, kwargs, node)
            raise EngineError("construction of %s from %r" % (cls.name, x))
        ct = self.registry.contract_for("%s:%s" % (cls.module.name, cls.name))
        if ct is not None:
            return self.apply_contract(ct, None, list(args), kwargs, node)
        init = cls.find_method("__init__")
        mode = self.contract.callee_mode("%s:%s" % (cls.module.name, cls.name))
        if mode == "opaque" or (self.abstract and mode != "inline" and ("%s:%s" % (cls.module.name, cls.name)) not in self.registry.inline):
            return self.opaque_call("%s:%s" % (cls.module.name, cls.name), None, args, kwargs, node)
        obj = self.new_object(cls)
        if init is not None:
            ict = self.registry.contract_for(init.key)
            if ict is not None and self.contract.callee_mode(init.key) != "inline":
                self.apply_contract(ict, init, [obj] + list(args), kwargs, node)
            else:
                self.call_function(init, args, kwargs, self_v=obj)
        return obj

    # ---- modular use of a callee's contract --------------------------------------------------
    def apply_contract(self, ct, fr, args, kwargs, node):
        ctx = self.ctx
        args = [self.unopt(a, node) for a in args]
        kwargs = {k: self.unopt(v, node) for k, v in kwargs.items()}
        bound = ct.bind(ctx, args, kwargs)
        tgt = ct.target
        for label, f in ct.eval_requires(ctx, bound):
            self.prove_item("pre@callsite", "%s.%s@%s" % (tgt.split(":")[1], label, self._anchor(node)), f)
        old = ctx.snapshot()
        octx = ctx.with_old(old)
        # exceptional outcomes of the callee
        rspecs = ct.raises_list()
        options = [None]
        for rs in rspecs:
            options.append(None)
        idx = 0
        if rspecs and self._exceptions_matter(rspecs):
            conds = [None]
            for rs in rspecs:
                w = rs.when_formula(octx, bound)
                conds.append(None if w is None or w is True else (w.t if isinstance(w, SBool) else (None if w else z3.BoolVal(False))))
            idx = self.decide(conds)
        result = None
        before = {}
        for a in list(bound.values()):
            if isinstance(a, Ref) and self.kind(a) == "ostream":
                before[a.id] = self.heap[a.id]["out"]
            elif isinstance(a, Ref) and self.kind(a) == "stream":
                before[a.id] = self.heap[a.id]["data"]
        ct.apply_modifies(ctx, bound)
        for oid, prev in before.items():
            cur = self.heap[oid]["out"] if self.heap[oid]["kind"] == "ostream" else self.heap[oid]["data"]
            if cur is not prev:
                seg = V.strip_prefix(cur, prev)
                if seg is not None:
                    self.segments.setdefault(oid, []).append((tgt, seg))
        if idx > 0:
            rs = rspecs[idx - 1]
            w = rs.when_formula(octx, bound)
            if isinstance(w, SBool):
                self.assume(w)
            for label, f in ct.eval_xensures(octx, old, bound, rs):
                self.assume(f)
            raise RaiseExc(rs.cls, (), node)
        result = ct.fresh_result(ctx, **bound)
        # normal return: none of the exactly-characterised raise conditions holds
        for rs in rspecs:
            if rs.iff:
                w = rs.when_formula(octx, bound)
                if w is not None:
                    self.assume(V.Not(w) if not isinstance(w, bool) else (not w))
        saved_mode = self.ctx_mode
        self.ctx_mode = "assume"
        self._ghost_cache = {}
        try:
            for kind, label, f, props in ct.eval_ensures(octx, old, bound, result):
                self.assume_item(f)
        finally:
            self.ctx_mode = saved_mode
        self.event("contract-call", tgt, None, args, kwargs, node, result)
        return result

    def _exceptions_matter(self, rspecs):
        """fork on callee exceptions only when the caller could observe them differently:
        the caller catches them, has an exceptional postcondition, or does not allow them."""
        for rs in rspecs:
            if self._in_try_catching(rs.cls):
                return True
            if not self.allows(rs.cls):
                return True
            if self.contract.has_xposts():
                return True
        return False

    def unopt(self, v, node=None):
        """use of a maybe-None value where a number is required: TypeError unless it is not None"""
        from .reclist import OptV

        if isinstance(v, OptV):
            self.safety(V.Not(v.none) if not isinstance(v.none, bool) else (not v.none), "TypeError", "value-not-None", node)
            return v.val
        return v

    # ---- abstract mode -----------------------------------------------------------------------
    def opaque_call(self, name, recv, args, kwargs, node):
        """unknown callee: fresh result, may raise, havocs everything reachable (heap version bump)"""
        if not self.abstract:
            raise EngineError("opaque call %s outside abstract mode at %s" % (name, self._anchor(node)))
        self.stats["opaque_calls"].add(str(name))
        pure = self.contract.pure_function(name)
        if pure is not None:
            res = pure(self.ctx, recv, args, kwargs)
            self.event("pure", str(name), recv, args, kwargs, node, res)
            return res
        short = str(name).split(":")[-1].split(".")[-1]
        if short in getattr(self.contract, "int_functions", ()):
            res = self.fresh_int("r_" + short)
            self.event("call", str(name), recv, args, kwargs, node, res)
            return res
        if short in getattr(self.contract, "bytes_functions", ()):
            # unknown callee declared (by the contract) to return a bytes object: a fresh byte sequence
            res = self.fresh_seq("r_" + short, "byte", "bytes")
            ev = self.event("call", str(name), recv, args, kwargs, node, res)
            may_raise = self.contract.callee_may_raise(name)
            if may_raise and not self._assume_safety and (self.exc_stack or self.contract.has_xposts() or self.contract.track_raises):
                if self.decide([None, None]) == 1:
                    raise RaiseExc(may_raise if isinstance(may_raise, str) else "Exception", (), node)
            if short not in getattr(self.contract, "frame_preserving", ()):
                self.ghost["heapver"] = self.ghost.get("heapver", 0) + 1
                self.attr_log = {}
            return res
        res = self.fresh_opq("r_" + short)
        if short in getattr(self.contract, "immutable_results", ()):
            self.immutable_ids.add(res.t.get_id())
            self._keep.append(res)
        # an unknown callee may write into every modelled object it can reach through its arguments
        pre = {}
        for i, a in enumerate(list(args) + list(kwargs.values())):
            if isinstance(a, Ref):
                if self.heap[a.id].get("kind") in ("list", "bytearray"):
                    pre[i] = self.heap[a.id].get("items")
                self._havoc_cell(a)
        ev = self.event("call", str(name), recv, args, kwargs, node, res)
        ev.pre = pre
        may_raise = self.contract.callee_may_raise(name)
        if may_raise and not self._assume_safety and (self.exc_stack or self.contract.has_xposts() or self.contract.track_raises):
            # an unknown callee may raise any exception: one alternative per exception class an enclosing handler
            # names (so that every `except` arm is explored) plus the generic class
            classes = [may_raise if isinstance(may_raise, str) else "Exception"]
            for handlers in self.exc_stack:
                for h in handlers:
                    if h is not None and h not in classes:
                        classes.append(h)
            idx = self.decide([None] * (1 + len(classes)))
            if idx >= 1:
                self.event("raise-from", str(name), recv, args, kwargs, node, None)
                raise RaiseExc(classes[idx - 1], (), node)
        if short not in getattr(self.contract, "frame_preserving", ()):
            self.ghost["heapver"] = self.ghost.get("heapver", 0) + 1
            self.attr_log = {}
        return res

    def _havoc_cell(self, ref):
        cell = self.heap[ref.id]
        k = cell["kind"]
        if k == "stream":
            self.set_field(ref, "data", self.fresh_seq("%s.data_h" % cell.get("label", "mem"), "byte", "bytes"))
            p = self.fresh_int("%s.pos_h" % cell.get("label", "mem"))
            self.pc.append(p.t >= 0)
            self.set_field(ref, "pos", p)
        elif k == "ostream":
            self.set_field(ref, "out", V.concat(cell["out"], self.fresh_seq("%s.ext_h" % cell.get("label", "out"), "byte", "bytes")))
        elif k in ("list", "bytearray"):
            items = cell["items"]
            try:
                self.set_field(ref, "items", self.fresh_like(items if not isinstance(items, tuple) else tuple(items), "items_h"))
            except EngineError:
                pass

    # =============================================================================================
    # statements
    @property
    def frame(self):
        return self.frames[-1]

    def exec_block(self, stmts):
        for st in stmts:
            self.exec_stmt(st)

    def exec_stmt(self, st):
        m = getattr(self, "st_" + type(st).__name__, None)
        if m is None:
            raise EngineError("unsupported statement %s at line %d" % (type(st).__name__, st.lineno))
        for hook in self.contract.stmt_hooks:
            hook(self.ctx, st)
        return m(st)

    def st_Pass(self, st):
        pass

    def st_Expr(self, st):
        if isinstance(st.value, ast.Constant):
            return  # docstring
        self.eval(st.value)

    def st_Return(self, st):
        raise ReturnExc(self.eval(st.value) if st.value is not None else None)

    def st_Break(self, st):
        raise BreakExc()

    def st_Continue(self, st):
        raise ContinueExc()

    def st_Global(self, st):
        pass

    def st_Import(self, st):
        for a in st.names:
            self.frame.env[a.asname or a.name.split(".")[0]] = ExtRef(a.name if a.asname else a.name.split(".")[0])

    def st_ImportFrom(self, st):
        for a in st.names:
            self.frame.env[a.asname or a.name] = ExtRef((st.module or "") + "." + a.name)

    def st_Assert(self, st):
        c = self.eval(st.test)
        c = V.truthy(c) if not isinstance(c, (bool, SBool)) else c
        if self.contract.assert_mode == "check":
            self.oblig("assert", "repo-assert@%s" % self._anchor(st.test), c)
        else:
            self.safety(c, "AssertionError", "assert", st)

    def st_Assign(self, st):
        v = self.eval(st.value)
        for t in st.targets:
            self.assign(t, v)

    def st_AnnAssign(self, st):
        if st.value is not None:
            self.assign(st.target, self.eval(st.value))

    def st_AugAssign(self, st):
        load = ast.copy_location(_as_load(st.target), st.target)
        cur = self.eval(load)
        rhs = self.eval(st.value)
        if isinstance(cur, Ref) and self.kind(cur) in ("list", "bytearray") and isinstance(st.op, ast.Add):
            # in-place extend
            from . import builtins_model as B

            B.call_method(self, cur, "extend", [rhs], {}, st)
            return
        v = self.binop(st.op, cur, rhs, st)
        self.assign(st.target, v)

    def st_Delete(self, st):
        for t in st.targets:
            if isinstance(t, ast.Name):
                self.frame.env.pop(t.id, None)
            elif isinstance(t, ast.Attribute):
                o = self.eval(t.value)
                if isinstance(o, Ref):
                    d = dict(self.heap[o.id])
                    d.pop(t.attr, None)
                    self.heap[o.id] = d
                    self._note_write(o.id, t.attr)
            else:
                raise EngineError("del of subscript")

    def assign(self, target, v):
        if isinstance(target, ast.Name):
            self.frame.env[target.id] = v
        elif isinstance(target, (ast.Tuple, ast.List)):
            items = self.iter_concrete(v, len(target.elts))
            for t, x in zip(target.elts, items):
                self.assign(t, x)
        elif isinstance(target, ast.Attribute):
            o = self.eval(target.value)
            if isinstance(o, Ref):
                self.set_field(o, target.attr, v)
                for hook in self.contract.hooks_for("setattr", target.attr):
                    hook(self.ctx, Event("setattr", target.attr, o, (v,), {}, len(self.pc), target))
            elif isinstance(o, SOpq) and self.abstract:
                self.event("setattr", target.attr, o, (v,), {}, target)
                # attribute store on an opaque object: recorded in a write log that later reads consult
                # (obj == written ? value : earlier value); unknown callees clear the log (heap version bump)
                self.attr_log.setdefault(target.attr, []).append((o, v))
            else:
                raise EngineError("attribute assignment on %r" % (o,))
        elif isinstance(target, ast.Subscript):
            from . import builtins_model as B

            o = self.eval(target.value)
            if isinstance(target.slice, ast.Slice):
                lo = self.eval(target.slice.lower) if target.slice.lower is not None else None
                hi = self.eval(target.slice.upper) if target.slice.upper is not None else None
                B.set_slice(self, o, lo, hi, v, target)
            else:
                idx = self.eval(target.slice)
                B.set_item(self, o, idx, v, target)
        elif isinstance(target, ast.Starred):
            raise EngineError("starred assignment")
        else:
            raise EngineError("assignment target %s" % type(target).__name__)

    def iter_concrete(self, v, n=None):
        """turn a value into a python list of element values (statically known length)"""
        if isinstance(v, (tuple, list)):
            items = list(v)
        elif isinstance(v, Ref) and self.kind(v) == "list" and isinstance(self.list_items(v), tuple):
            items = list(self.list_items(v))
        elif isinstance(v, (bytes, bytearray, str)):
            items = list(v)
        elif isinstance(v, SSeq) and n is not None:
            self.safety(V.L(v) == n, "ValueError", "unpack-length")
            items = [V.nth(v, i) for i in range(n)]
        elif isinstance(v, SOpq) and n is not None and self.abstract:
            f = V.uf("item", V.vsort(), z3.IntSort(), V.vsort())
            items = [SOpq(f(v.t, z3.IntVal(i))) for i in range(n)]
        else:
            raise EngineError("cannot unpack %r" % (v,))
        if n is not None and len(items) != n:
            raise RaiseExc("ValueError", (), None, implicit=True)
        return items

    def st_If(self, st):
        if self.branch(self.eval_cond(st.test)):
            self.exec_block(st.body)
        else:
            self.exec_block(st.orelse)

    def eval_cond(self, test):
        """evaluate a condition with Python's short-circuit semantics preserved"""
        return self.eval(test)

    def st_Raise(self, st):
        if st.exc is None:
            cur = self.frame.env.get("__current_exc__")
            if cur is None:
                raise EngineError("bare raise outside handler")
            raise cur
        v = self.eval(st.exc)
        if isinstance(v, ExcV):
            raise RaiseExc(v.cls, v.args, st)
        if isinstance(v, ClassRef) and v.is_exception():
            raise RaiseExc(v.name, (), st)
        if isinstance(v, ExtRef):
            raise RaiseExc(v.dotted.split(".")[-1], (), st)
        if isinstance(v, RaiseExc):
            raise v
        if isinstance(v, SOpq) and self.abstract:
            raise RaiseExc("Exception", (v,), st)
        raise EngineError("raise of %r" % (v,))

    def st_Try(self, st):
        handlers = []
        for h in st.handlers:
            if h.type is None:
                handlers.append(None)
            else:
                for nm in _handler_names(h.type):
                    handlers.append(nm)
        try:
            self.exc_stack.append(handlers)
            try:
                try:
                    self.exec_block(st.body)
                finally:
                    self.exc_stack.pop()
            except RaiseExc as e:
                for h in st.handlers:
                    names = [None] if h.type is None else _handler_names(h.type)
                    if any(n is None or exc_is_subclass(e.cls, n) for n in names):
                        if h.name:
                            self.frame.env[h.name] = ExcV(e.cls, e.args_v)
                        prev = self.frame.env.get("__current_exc__")
                        self.frame.env["__current_exc__"] = e
                        for hook in self.contract.hooks_for("except", e.cls):
                            hook(self.ctx, Event("except", e.cls, None, (), {}, len(self.pc), h))
                        try:
                            self.exec_block(h.body)
                        finally:
                            self.frame.env["__current_exc__"] = prev
                        break
                else:
                    raise
            else:
                self.exec_block(st.orelse)
        except (RaiseExc, ReturnExc, BreakExc, ContinueExc):
            self.exec_block(st.finalbody)
            raise
        else:
            self.exec_block(st.finalbody)

    def st_With(self, st):
        mgrs = []
        for item in st.items:
            v = self.eval(item.context_expr)
            mgrs.append(v)
            entered = self.enter_context(v, item)
            if item.optional_vars is not None:
                self.assign(item.optional_vars, entered)
        try:
            self.exec_block(st.body)
        except RaiseExc:
            for v in reversed(mgrs):
                self.exit_context(v, st, exceptional=True)
            raise
        except (ReturnExc, BreakExc, ContinueExc):
            for v in reversed(mgrs):
                self.exit_context(v, st)
            raise
        else:
            for v in reversed(mgrs):
                self.exit_context(v, st)

    def enter_context(self, v, item):
        if isinstance(v, SOpq):
            if self.abstract:
                self.event("enter", "with", v, (), {}, item.context_expr)
            return v
        if isinstance(v, Ref) and self.kind(v) in ("stream", "ostream"):
            return v
        if isinstance(v, Ref) and self.kind(v) == "obj":
            cls = self.get_field(v, "cls")
            m = cls.find_method("__enter__") if isinstance(cls, ClassRef) else None
            if m is not None:
                return self.call_funcref(m, [], {}, item.context_expr, self_v=v)
            return v
        raise EngineError("with on %r" % (v,))

    def exit_context(self, v, st, exceptional=False):
        if isinstance(v, SOpq):
            if self.abstract:
                self.event("exit", "with", v, (exceptional,), {}, st)
            return
        if isinstance(v, Ref) and self.kind(v) == "obj":
            cls = self.get_field(v, "cls")
            m = cls.find_method("__exit__") if isinstance(cls, ClassRef) else None
            if m is not None:
                self.call_funcref(m, [None, None, None], {}, st, self_v=v)

    def st_FunctionDef(self, st):
        self.frame.env[st.name] = FuncRef(self.frame.module, (self.frame.func.qualname if self.frame.func else "") + ".<locals>." + st.name, st)

    def st_ClassDef(self, st):
        self.frame.env[st.name] = ClassRef(self.frame.module, st.name, st)

    # ---------------- loops -----------------
    def _loop_key(self, st):
        """loops are keyed by their position in the function's source (n-th loop statement), not by execution order"""
        f = self.frame
        fn = f.func.key if f.func else "?"
        if f.func is not None:
            order = getattr(f.func, "_loop_order", None)
            if order is None:
                order = {}
                n = 0
                for node in _walk_in_order(f.func.node):
                    if isinstance(node, (ast.For, ast.While)):
                        order[id(node)] = n
                        n += 1
                f.func._loop_order = order
            if id(st) in order:
                return "%s#loop%d" % (fn, order[id(st)])
        k = f.loop_ord
        f.loop_ord += 1
        return "%s#loop%d" % (fn, k)

    def _loop_spec(self, st, key):
        if len(self.frames) != 1:
            # loops of inlined callees may carry a spec registered under the callee's key
            return self.contract.loop_spec_for(key, st)
        return self.contract.loop_spec_for(key, st)

    def st_While(self, st):
        key = self._loop_key(st)
        spec = self._loop_spec(st, key)
        if spec is None:
            # exact unrolling: only terminates when the condition becomes concretely false
            n = 0
            while True:
                c = self.branch(self.eval_cond(st.test))
                if not c:
                    self.exec_block(st.orelse)
                    return
                try:
                    self.exec_block(st.body)
                except BreakExc:
                    return
                except ContinueExc:
                    pass
                n += 1
                if n > self.contract.unroll_limit:
                    raise EngineError("while loop %s needs an invariant (unroll limit %d)" % (key, self.contract.unroll_limit))
        self._cut_loop(st, key, spec, kind="while")

    def st_For(self, st):
        key = self._loop_key(st)
        spec = self._loop_spec(st, key)
        it = self.eval(st.iter)
        if spec is None:
            items = self.static_items(it, key)
            broke = False
            for x in items:
                self.assign(st.target, x)
                try:
                    self.exec_block(st.body)
                except BreakExc:
                    broke = True
                    break
                except ContinueExc:
                    continue
            if not broke:
                self.exec_block(st.orelse)
            return
        self._cut_loop(st, key, spec, kind="for", it=it)

    def static_items(self, it, key="loop"):
        """elements of an iterable whose length is (or becomes after path splitting) static"""
        if isinstance(it, RangeV):
            start = self.concretize_int(it.start, "range start")
            stop = self.concretize_int(it.stop, "range stop of " + key)
            step = self.concretize_int(it.step, "range step")
            return list(range(start, stop, step))
        if isinstance(it, EnumerateV):
            inner = self.static_items(it.it, key)
            return [(i + it.start, x) for i, x in enumerate(inner)]
        if isinstance(it, ZipV):
            cols = [self.static_items(x, key) for x in it.its]
            return list(zip(*cols))
        if isinstance(it, (tuple, list)):
            return list(it)
        if isinstance(it, (bytes, bytearray, str)):
            return list(it)
        if isinstance(it, Ref):
            k = self.kind(it)
            if k == "list":
                items = self.list_items(it)
                if isinstance(items, tuple):
                    return list(items)
                n = self.concretize_int(V.L(items), "length of list iterated by " + key)
                return [V.nth(items, i) for i in range(n)]
            if k == "dict":
                return list(self.get_field(it, "items").keys())
            if k == "bytearray":
                items = self.get_field(it, "items")
                if not is_sym(items):
                    return list(items)
        if isinstance(it, SSeq):
            n = self.concretize_int(V.L(it), "length of sequence iterated by " + key)
            return [V.nth(it, i) for i in range(n)]
        raise EngineError("cannot iterate %r in %s" % (it, key))

    def _assigned_names(self, stmts):
        names = set()

        class Vis(ast.NodeVisitor):
            def visit_Name(s, n):
                if isinstance(n.ctx, (ast.Store, ast.Del)):
                    names.add(n.id)

            def visit_FunctionDef(s, n):
                names.add(n.name)

            def visit_Lambda(s, n):
                pass

        for st in stmts:
            Vis().visit(st)
        return names

    def _cut_loop(self, st, key, spec, kind, it=None):
        """loop with invariant: init / havoc / assume inv / one arbitrary iteration / keep + variant"""
        ctx = self.ctx
        env = self.frame.env
        L = LoopCtx(self, key, st, kind, it, env)
        # sequence view of the iterable
        if kind == "for":
            L.prepare_iterable()
        L.i = 0 if kind == "for" else None
        for f in spec.unfold_init(ctx, L):
            self.assume(f)
        for label, f in spec.eval_inv(ctx, L):
            self.prove_item("inv.init", "%s.%s" % (spec.name, label), f, assume_after=False)
        # havoc
        names = self._assigned_names(st.body) | (self._assigned_names([st.target]) if kind == "for" else set())
        hv = self.loop_havoc.setdefault(key, set())
        first_new = self.next_id
        for n in sorted(names):
            if n in env:
                cur = env[n]
                if isinstance(cur, Ref):
                    # the loop re-binds a variable holding a list: allowed only when the contract declares that the
                    # variable always refers to an unaliased list (e.g. `x = []` in the body); at the loop head it then
                    # refers to some list with arbitrary content
                    if not spec.allow_ref_rebind(n) or self.kind(cur) != "list" or n not in spec.cells:
                        raise EngineError("loop %s re-binds reference variable %s" % (key, n))
                    env[n] = self.new_list(self.fresh_seq("%s@%s" % (n, spec.name), spec.cells[n], "list"))
                    continue
                if isinstance(cur, (FuncRef, ClassRef, ExtRef, LambdaV)):
                    continue
                try:
                    env[n] = self.fresh_like(cur, "%s@%s" % (n, spec.name))
                except EngineError:
                    shape = spec.shape_of(n)
                    if shape is None:
                        raise
                    env[n] = shape(ctx)
        for oid, field in sorted(hv, key=lambda x: (x[0], str(x[1]))):
            if oid in self.heap and field in self.heap[oid]:
                cur = self.heap[oid][field]
                d = dict(self.heap[oid])
                if isinstance(cur, Ref):
                    raise EngineError("loop %s re-binds reference field %s" % (key, field))
                nm = None
                for ln, lv in env.items():
                    if isinstance(lv, Ref) and lv.id == oid:
                        nm = ln
                if self.heap[oid]["kind"] == "ostream" and field == "out":
                    # output streams are append-only in the model: the loop can only have extended it
                    ext = self.fresh_seq("%s.ext@%s" % (self.heap[oid].get("label", "out"), spec.name), "byte", "bytes")
                    d[field] = V.concat(cur, ext)
                    L.loop_ext[oid] = ext
                    self.segments.setdefault(oid, []).append(("loop:" + spec.name, ext))
                elif self.heap[oid]["kind"] == "reclist" and field == "cols":
                    from .reclist import havoc_cols

                    d[field] = havoc_cols(self, self.heap[oid], "%s@%s" % (self.heap[oid].get("label", "recs"), spec.name))
                elif nm is not None and nm in spec.cells and field == "items":
                    d[field] = self.fresh_seq("%s@%s" % (nm, spec.name), spec.cells[nm], "list" if self.heap[oid]["kind"] == "list" else "bytearray")
                else:
                    d[field] = self.fresh_like(cur, "%s.%s@%s" % (self.heap[oid].get("label", "o%d" % oid), field, spec.name))
                self.heap[oid] = d
        if self.abstract:
            # the loop may store attributes of opaque objects / call unknown code: forget the write log
            self.ghost["heapver"] = self.ghost.get("heapver", 0) + 1
            self.attr_log = {}
        for gname in spec.ghosts:
            if gname in self.ghost:
                self.ghost[gname] = self.fresh_like(self.ghost[gname], "%s@%s" % (gname, spec.name))
        self.stats["havocs"].append((key, sorted(names), sorted(str(x) for x in hv)))
        if kind == "for":
            L.i = self.fresh_int("idx@" + spec.name)
            self.assume(L.i >= 0)
            self.assume(L.i <= L.n)
        for label, f in spec.eval_inv(ctx, L):
            self.assume_item(f)
        choice = self.decide([None, None])  # 0: one more iteration, 1: exit
        if choice == 0:
            lc = {"key": key, "first_new_id": first_new, "havoc_set": hv}
            if kind == "for":
                self.assume(L.i < L.n)
                self.assign(st.target, L.element(L.i))
            else:
                if not self.branch(self.eval_cond(st.test)):
                    raise PathEnd()
            for nm, fn in spec.case_split:
                if nm == "@index_mod":
                    # prove the step separately for each residue r of the loop index modulo m: i := m*q + r
                    m = fn
                    r = self.concretize_int(L.i % m, "case split of " + key, limit=64)
                    q = self.fresh_int("q@" + spec.name)
                    self.assume(q >= 0)
                    self.assume(L.i == q * m + r)
                    L.i = q * m + r
                    if kind == "for":
                        self.assign(st.target, L.element(L.i))
                    continue
                val = self.concretize_int(fn(ctx, L), "case split of " + key, limit=64)
                if nm is not None:
                    env[nm] = val
            var0 = spec.eval_variant(ctx, L)
            for f in spec.unfold_step(ctx, L):
                self.assume(f)
            self.cover["loop-body:" + key] = True
            L.trace_mark = len(self.trace)
            if kind == "for":
                self.add_index_term(L.i)
            self.loop_ctx.append(lc)
            try:
                try:
                    self.exec_block(st.body)
                except ContinueExc:
                    pass
                except BreakExc:
                    self.loop_ctx.pop()
                    lc = None
                    return  # continue after the loop with the current state
            finally:
                if lc is not None:
                    self.loop_ctx.pop()
            if getattr(spec, "ghost_step", None) is not None:
                spec.ghost_step(ctx, L)
            if spec.asserts is not None:
                for label, f in spec.asserts(ctx, L):
                    self.prove_item("assert", "%s.%s" % (spec.name, label), f, assume_after=False)
            if kind == "for":
                L.i = L.i + 1
            self.canary("loop-body:" + key)
            for label, f in spec.eval_inv(ctx, L):
                self.prove_item("inv.keep", "%s.%s" % (spec.name, label), f, assume_after=False)
            if var0 is not None:
                var1 = spec.eval_variant(ctx, L)
                if isinstance(var0, tuple):
                    # lexicographic: every component bounded below by 0, some component decreases with all earlier ones equal
                    dec = False
                    same = True
                    for a0, a1 in zip(var0, var1):
                        dec = V.Or(dec, V.And(same, a1 < a0))
                        same = V.And(same, V.eq(a1, a0))
                    self.oblig("variant", "%s.decreases" % spec.name, V.And(V.And(*[a0 >= 0 for a0 in var0]), dec), assume_after=False)
                else:
                    self.oblig("variant", "%s.decreases" % spec.name, V.And(var0 >= 0, var1 < var0), assume_after=False)
            raise PathEnd()
        else:
            if kind == "for":
                self.assume(L.i == L.n)
            else:
                if self.branch(self.eval_cond(st.test)):
                    raise PathEnd()
            self.exec_block(st.orelse)

    # =============================================================================================
    # expressions
    def eval(self, node):
        m = getattr(self, "ex_" + type(node).__name__, None)
        if m is None:
            raise EngineError("unsupported expression %s at line %d" % (type(node).__name__, getattr(node, "lineno", 0)))
        return m(node)

    def ex_Constant(self, n):
        return n.value

    def ex_Name(self, n):
        return self.lookup(n.id, n)

    def lookup(self, name, node=None):
        for fr in (self.frames[-1],):
            if name in fr.env:
                return fr.env[name]
        # closure environments of nested functions
        mod = self.frame.module
        return self.lookup_global(mod, name, node)

    def lookup_global(self, mod, name, node=None):
        ov = self.contract.global_override(mod.name, name)
        if ov is not None:
            return ov(self.ctx)
        if name in mod.funcs:
            return mod.funcs[name]
        if name in mod.classes:
            return mod.classes[name]
        if name in mod.assigns:
            if name in mod._const_cache:
                return mod._const_cache[name]
            fr = Frame(None, {}, mod)
            self.frames.append(fr)
            try:
                v = self.eval(mod.assigns[name])
            finally:
                self.frames.pop()
            if not isinstance(v, Ref) and not is_sym(v):
                mod._const_cache[name] = v
            return v
        if name in mod.imports:
            return self.resolve_import(mod.imports[name])
        if name in ("True", "False", "None"):
            return {"True": True, "False": False, "None": None}[name]
        if name in EXC_PARENT:
            return ExtRef("builtins." + name)
        return ExtRef("builtins." + name)

    def resolve_import(self, dotted):
        if dotted.startswith("py7zr.properties."):
            obj = getattr(load_properties_module(), dotted.split(".", 2)[2])
            return self.from_python(obj)
        if dotted == "py7zr.properties":
            return PyModuleV(load_properties_module())
        if dotted.startswith("py7zr."):
            parts = dotted.split(".")
            if len(parts) >= 3:
                m = get_module(".".join(parts[:2]))
                if m is not None:
                    nm = parts[2]
                    return self.lookup_global(m, nm)
            if len(parts) == 2:
                m = get_module(dotted)
                if m is not None:
                    return RepoModuleV(m)
                # names re-exported by the package
                for mn in ("py7zr.exceptions", "py7zr.py7zr", "py7zr.helpers"):
                    m = get_module(mn)
                    if parts[1] in m.classes or parts[1] in m.funcs:
                        return self.lookup_global(m, parts[1])
        if dotted == "py7zr":
            return ExtRef("py7zr")
        return ExtRef(dotted)

    def from_python(self, obj):
        """turn a real python constant (from properties.py) into an engine value"""
        if obj is None or isinstance(obj, (bool, int, bytes, str, float)):
            return obj
        if isinstance(obj, (list, tuple)):
            items = [self.from_python(x) for x in obj]
            return self.new_list(items) if isinstance(obj, list) else tuple(items)
        if isinstance(obj, dict):
            return self.new_dict({k: self.from_python(v) for k, v in obj.items()})
        if callable(obj) and getattr(obj, "__module__", "") == "_py7zr_properties_standalone":
            m = get_module("py7zr.properties")
            if obj.__name__ in m.funcs:
                return m.funcs[obj.__name__]
        return PyObjV(obj)

    def ex_Attribute(self, n):
        o = self.eval(n.value)
        return self.getattr(o, n.attr, n)

    def getattr(self, o, attr, node=None):
        from . import builtins_model as B

        return B.get_attr(self, o, attr, node)

    def ex_Tuple(self, n):
        return tuple(self.eval(e) for e in n.elts)

    def ex_List(self, n):
        return self.new_list([self.eval(e) for e in n.elts])

    def ex_Set(self, n):
        return self.alloc("set", items=tuple(self.eval(e) for e in n.elts))

    def ex_Dict(self, n):
        d = {}
        for k, v in zip(n.keys, n.values):
            kk = self.eval(k)
            if is_sym(kk):
                raise EngineError("symbolic dict key")
            d[kk] = self.eval(v)
        return self.new_dict(d)

    def ex_Lambda(self, n):
        return LambdaV(n, self.frame.env, self.frame.module)

    def ex_IfExp(self, n):
        c = self.eval_cond(n.test)
        c = V.truthy(c) if not isinstance(c, (bool, SBool)) else c
        c = V.simplify_bool(c)
        if isinstance(c, bool):
            return self.eval(n.body if c else n.orelse)
        # both arms pure & simple -> ite, else branch
        if _is_pure_simple(n.body) and _is_pure_simple(n.orelse):
            mark = len(self.obligations)
            try:
                a = self.eval(n.body)
                b = self.eval(n.orelse)
                if not isinstance(a, Ref) and not isinstance(b, Ref) and a is not None and b is not None:
                    return V.ite(c, a, b)
            except (EngineError, RaiseExc):
                pass
        if self.branch(c):
            return self.eval(n.body)
        return self.eval(n.orelse)

    def ex_JoinedStr(self, n):
        # f-strings only occur in messages; value is irrelevant to every contract
        for v in n.values:
            if isinstance(v, ast.FormattedValue):
                try:
                    self.eval(v.value)
                except RaiseExc:
                    raise
                except EngineError:
                    pass
        return "<fstring>"

    def ex_UnaryOp(self, n):
        v = self.eval(n.operand)
        if isinstance(n.op, ast.Not):
            t = V.truthy(v) if not isinstance(v, (bool, SBool)) else v
            return V.Not(t)
        if isinstance(n.op, ast.USub):
            if isinstance(v, SBool) or isinstance(v, bool):
                v = V.ite(v, 1, 0) if is_sym(v) else int(v)
            return -v
        if isinstance(n.op, ast.UAdd):
            return v
        if isinstance(n.op, ast.Invert):
            if isinstance(v, (SBool, bool)):
                v = V.ite(v, 1, 0) if is_sym(v) else int(v)
            return -v - 1 if is_sym(v) else ~v
        raise EngineError("unary op")

    def ex_BoolOp(self, n):
        # Python semantics: returns one of the operands; we support it exactly by branching
        is_and = isinstance(n.op, ast.And)
        vals = n.values
        cur = None
        for i, e in enumerate(vals):
            cur = self.eval(e)
            if i == len(vals) - 1:
                return cur
            t = V.truthy(cur) if not isinstance(cur, (bool, SBool)) else cur
            t = V.simplify_bool(t)
            if isinstance(t, bool):
                if is_and and not t:
                    return cur
                if not is_and and t:
                    return cur
                continue
            # symbolic: if the remaining operands are pure booleans, build a formula; else branch
            rest = vals[i + 1:]
            if isinstance(cur, (SBool,)) and all(_is_pure_simple(r) for r in rest):
                saved_pc = len(self.pc)
                try:
                    # evaluate rest under the assumption that evaluation reaches it
                    self.pc.append(t.t if is_and else z3.Not(t.t))
                    rv = self.ex_BoolOp(ast.BoolOp(op=n.op, values=rest)) if len(rest) > 1 else self.eval(rest[0])
                    del self.pc[saved_pc:]
                    if isinstance(rv, (bool, SBool)):
                        return V.And(t, rv) if is_and else V.Or(t, rv)
                except (EngineError, RaiseExc):
                    del self.pc[saved_pc:]
            if self.branch(t):
                if not is_and:
                    return cur
            else:
                if is_and:
                    return cur
        return cur

    def ex_Compare(self, n):
        left = self.eval(n.left)
        result = True
        for op, rn in zip(n.ops, n.comparators):
            right = self.eval(rn)
            r = self.compare(op, left, right, n)
            result = V.And(result, r)
            if result is False:
                return False
            left = right
        return result

    def compare(self, op, a, b, node=None):
        from . import builtins_model as B

        return B.compare(self, op, a, b, node)

    def ex_BinOp(self, n):
        a = self.eval(n.left)
        b = self.eval(n.right)
        return self.binop(n.op, a, b, n)

    def binop(self, op, a, b, node=None):
        from . import builtins_model as B

        return B.binop(self, op, a, b, node)

    def ex_Subscript(self, n):
        from . import builtins_model as B

        o = self.eval(n.value)
        if isinstance(n.slice, ast.Slice):
            lo = self.eval(n.slice.lower) if n.slice.lower is not None else None
            hi = self.eval(n.slice.upper) if n.slice.upper is not None else None
            st = self.eval(n.slice.step) if n.slice.step is not None else None
            return B.get_slice(self, o, lo, hi, st, n)
        idx = self.eval(n.slice)
        return B.get_item(self, o, idx, n)

    def ex_Call(self, n):
        if self.abstract and isinstance(n.func, ast.Attribute):
            recv = self.eval(n.func.value)
            if isinstance(recv, SOpq):
                args = [self.eval(a) for a in n.args]
                kwargs = {k.arg: self.eval(k.value) for k in n.keywords}
                # a method of the receiver's own (known) class that has a contract is used through that contract
                sc = getattr(self.contract, "self_class", None)
                me = (self.contract._bound or {}).get("self_") if hasattr(self.contract, "_bound") else None
                if sc is not None and me is not None and recv is me:
                    mod = get_module(sc[0])
                    cls = mod.classes.get(sc[1]) if mod is not None else None
                    m = cls.find_method(n.func.attr) if cls is not None else None
                    if m is not None:
                        mct = self.registry.contract_for(m.key)
                        if mct is not None and self.contract.callee_mode(m.key) != "opaque":
                            return self.apply_contract(mct, m, [recv] + args, kwargs, n)
                return self.opaque_call(n.func.attr, recv, args, kwargs, n)
            f = self.getattr(recv, n.func.attr, n.func)
        else:
            f = self.eval(n.func)
        args = []
        for a in n.args:
            if isinstance(a, ast.Starred):
                sv = self.eval(a.value)
                content = self.heap[sv.id]["items"] if isinstance(sv, Ref) and self.kind(sv) == "list" else sv
                if isinstance(content, SSeq):
                    from .builtins_model import StarSeq

                    args.append(StarSeq(content))
                else:
                    args.extend(self.iter_concrete(sv))
            else:
                args.append(self.eval(a))
        kwargs = {}
        for k in n.keywords:
            if k.arg is None:
                raise EngineError("**kwargs call")
            kwargs[k.arg] = self.eval(k.value)
        return self.call(f, args, kwargs, n)

    def ex_ListComp(self, n):
        if len(n.generators) != 1:
            raise EngineError("nested comprehension")
        g = n.generators[0]
        fkey = self.frame.func.key if self.frame.func else "?"
        ck = None
        if self.frame.func is not None:
            corder = getattr(self.frame.func, "_comp_order", None)
            if corder is None:
                corder = {}
                cn = 0
                for node in _walk_in_order(self.frame.func.node):
                    if isinstance(node, (ast.ListComp, ast.GeneratorExp)):
                        corder[id(node)] = cn
                        cn += 1
                self.frame.func._comp_order = corder
            ck = corder.get(id(n))
        if ck is None:
            ck = self.frame.__dict__.setdefault("comp_ord", 0)
            self.frame.comp_ord = ck + 1
        key = "%s#comp%d" % (fkey, ck)
        spec = self.contract.loop_spec_for(key, None)
        if spec is not None:
            # impure comprehension: desugared to  __compN = []; for target in iter: __compN.append(elt)
            # and verified like any loop with an invariant
            tmp = "__comp%d" % ck
            self.frame.env[tmp] = self.new_list([])
            call = ast.Expr(ast.Call(func=ast.Attribute(value=ast.Name(id=tmp, ctx=ast.Load()), attr="append", ctx=ast.Load()), args=[n.elt], keywords=[]))
            loop = ast.For(target=g.target, iter=g.iter, body=[call] if not g.ifs else [ast.If(test=ast.BoolOp(op=ast.And(), values=list(g.ifs)) if len(g.ifs) > 1 else g.ifs[0], body=[call], orelse=[])], orelse=[])
            ast.copy_location(loop, n)
            ast.fix_missing_locations(loop)
            it = self.eval(g.iter)
            self._cut_loop(loop, key, spec, kind="for", it=it)
            return self.frame.env.pop(tmp)
        it = self.eval(g.iter)
        if isinstance(it, SOpq) and self.abstract:
            # comprehension over an opaque iterable: an opaque list that is a function of the iterable
            # (and of the comprehension's text); element-wise meaning is not modelled
            import hashlib as _h

            tag = _h.sha1(ast.unparse(n).encode()).hexdigest()[:10]
            r = SOpq(V.uf("listcomp_" + tag, V.vsort(), V.vsort())(it.t))
            self.event("pure", "listcomp", None, (it,), {"text": ast.unparse(n)}, n, r)
            return r
        try:
            items = self.static_items_noforce(it)
        except EngineError:
            items = None
        if items is None and isinstance(n.elt, ast.Dict) and isinstance(it, RangeV) and not g.ifs and all(isinstance(k, ast.Constant) for k in n.elt.keys) and all(isinstance(v, ast.Constant) for v in n.elt.values):
            # [{"k": const, ...} for _ in range(n)] : list of records with constant columns
            from .reclist import const_reclist

            cnt = V.max_(it.stop - it.start, 0)
            return const_reclist(self, cnt, {k.value: v.value for k, v in zip(n.elt.keys, n.elt.values)})
        if items is None:
            return self._symbolic_pure_comprehension(n, g, it, key)
        out = []
        for x in items:
            self.assign(g.target, x)
            ok = True
            for cond in g.ifs:
                if not self.branch(self.eval(cond)):
                    ok = False
                    break
            if ok:
                out.append(self.eval(n.elt))
        return self.new_list(out)

    def static_items_noforce(self, it):
        """like static_items but refuses (returns None) instead of forking on a symbolic length"""
        if isinstance(it, RangeV):
            if is_sym(it.start) or is_sym(it.stop) or is_sym(it.step):
                return None
        if isinstance(it, (EnumerateV,)):
            inner = self.static_items_noforce(it.it)
            return None if inner is None else [(i + it.start, x) for i, x in enumerate(inner)]
        if isinstance(it, ZipV):
            cols = [self.static_items_noforce(x) for x in it.its]
            return None if any(c is None for c in cols) else list(zip(*cols))
        if isinstance(it, SSeq):
            return None
        if isinstance(it, Ref) and self.kind(it) in ("list", "bytearray") and isinstance(self.heap[it.id]["items"], SSeq):
            return None
        return self.static_items(it)

    def _symbolic_pure_comprehension(self, n, g, it, key):
        """[elt for x in <iteration space of symbolic length>] where elt has no side effect:
        result r with |r| = length and, for every index j, r[j] == elt evaluated at the j-th element
        (the element expression of the REAL code is re-evaluated at every index the proof needs)."""
        from .contract import ForAll

        if g.ifs:
            raise EngineError("filtered comprehension over a symbolic iteration space (%s)" % key)
        L = LoopCtx(self, key, n, "for", it, self.frame.env)
        L.prepare_iterable()
        length = L.n
        env = self.frame.env
        saved = {nm: env.get(nm, _MISSING) for nm in self._assigned_names([ast.Expr(g.target)])}
        # the element expression is re-evaluated later (at instantiation points) in the state of *now*
        cap_frame = Frame(self.frame.func, dict(env), self.frame.module)
        cap_heap = dict(self.heap)
        cap_ver = self.ghost.get("heapver", 0)
        cap_log = dict(getattr(self, "attr_log", {}) or {})

        def eval_at(j, assume_safe):
            cur_heap = self.heap
            self.heap = dict(cap_heap)
            cur_ver, cur_log = self.ghost.get("heapver", 0), getattr(self, "attr_log", {})
            # attribute reads of opaque objects are versioned: the element expression is evaluated in the state
            # the comprehension ran in, not in the state of the (later) instantiation point
            self.ghost["heapver"] = cap_ver
            self.attr_log = dict(cap_log)
            self.frames.append(cap_frame)
            mark_id = self.next_id
            old_mode = self._assume_safety
            self._assume_safety = assume_safe
            saved_loop_ctx = self.loop_ctx
            self.loop_ctx = []
            try:
                self.assign(g.target, L.element(j))
                v = self.eval(n.elt)
                for oid, cell in self.heap.items():
                    if oid < mark_id and cap_heap.get(oid) is not cell:
                        raise EngineError("comprehension %s has side effects: give it a loop invariant" % key)
            finally:
                self._assume_safety = old_mode
                self.loop_ctx = saved_loop_ctx
                self.frames.pop()
                self.heap = cur_heap
                self.ghost["heapver"] = cur_ver
                self.attr_log = cur_log
            return v

        # 1. probe at an arbitrary index: safety obligations / exceptional exits of the element expression
        k = self.fresh_int("k@" + key.split("#")[-1])
        mark = len(self.pc)
        self.pc.append(z3.And(k.t >= 0, k.t < V._zi(length)))
        v0 = eval_at(k, False)
        del self.pc[mark:]
        if isinstance(v0, (Ref, tuple)) or v0 is None:
            raise EngineError("comprehension %s yields non-scalar elements" % key)
        elem = "bool" if isinstance(v0, (bool, SBool)) else "int"
        res = self.fresh_seq("comp", elem, "list")
        self.pc.append(z3.Length(res.t) == z3.If(V._zi(length) >= 0, V._zi(length), 0))

        def fact(j):
            m = len(self.pc)
            self.pc.append(z3.And(V._zi(j) >= 0, V._zi(j) < V._zi(length)))
            v = eval_at(j, True)
            side = self.pc[m + 1:]
            del self.pc[m:]
            body = V.eq(V.nth(res, j), v)
            conj = z3.And(*side, V._zb(body)) if side else V._zb(body)
            return SBool(z3.Implies(z3.And(V._zi(j) >= 0, V._zi(j) < V._zi(length)), conj))

        self.register_forall(ForAll(fact, over=res))
        # boundary instances (first / last element): what "no element raised" means for sizes
        for j in (0, length - 1):
            f = fact(j)
            if isinstance(f, SBool):
                self.pc.append(f.t)
        for nm, val in saved.items():
            if val is _MISSING:
                env.pop(nm, None)
            else:
                env[nm] = val
        return self.new_list(res)

    def ex_GeneratorExp(self, n):
        return self.ex_ListComp(n)

    def ex_Starred(self, n):
        raise EngineError("starred expression")

    def ex_NamedExpr(self, n):
        v = self.eval(n.value)
        self.assign(n.target, v)
        return v


_MISSING = object()


class PyObjV:
    """a real (immutable) python object from properties.py"""

    def __init__(self, obj):
        self.obj = obj


class PyModuleV:
    def __init__(self, mod):
        self.mod = mod


class RepoModuleV:
    def __init__(self, mod):
        self.mod = mod


class LoopCtx:
    """what a loop invariant may talk about"""

    def __init__(self, eng, key, st, kind, it, env):
        self.eng = eng
        self.key = key
        self.st = st
        self.kind = kind
        self.it = it
        self.env = env
        self.i = None
        self.n = None
        self.seq = None
        self._elem = None
        self.ghost = {}
        self.loop_ext = {}
        self.trace_mark = 0

    def prepare_iterable(self):
        eng = self.eng
        it = self.it
        self.start = 0
        if isinstance(it, RangeV):
            if it.step != 1:
                raise EngineError("range step in cut loop")
            lo, hi = it.start, it.stop
            self.n = V.max_(hi - lo, 0) if (is_sym(hi) or is_sym(lo)) else max(hi - lo, 0)
            self._elem = lambda i: lo + i
            return
        inner = it
        enum = False
        if isinstance(it, EnumerateV):
            enum = True
            inner = it.it
            st0 = it.start
        if isinstance(inner, SOpq):
            if not eng.abstract:
                raise EngineError("iteration over an opaque value outside abstract mode")
            ln = SInt(V.uf("len", V.vsort(), z3.IntSort(), z3.IntSort())(inner.t, z3.IntVal(0)))
            eng.pc.append(ln.t >= 0)
            self.n = ln
            itf = V.uf("item", V.vsort(), z3.IntSort(), V.vsort())
            if enum:
                self._elem = lambda i: (i + st0, SOpq(itf(inner.t, V._zi(i))))
            else:
                self._elem = lambda i: SOpq(itf(inner.t, V._zi(i)))
            return
        if isinstance(inner, Ref) and eng.kind(inner) == "reclist":
            from .reclist import RecElem

            self.n = eng.heap[inner.id]["n"]
            if enum:
                self._elem = lambda i: (i + st0, RecElem(inner, i))
            else:
                self._elem = lambda i: RecElem(inner, i)
            return
        if isinstance(inner, ZipV):
            # zip(xs, ys, ...): as many steps as the shortest operand, element i is the tuple of the i-th elements
            views = [eng_seq_view(eng, x) for x in inner.its]
            n = V.L(views[0])
            for v in views[1:]:
                n = V.min_(n, V.L(v))
            self.n = n
            mk = lambda i: tuple(eng_elem(eng, x, v, i) for x, v in zip(inner.its, views))
            if enum:
                self._elem = lambda i: (i + st0, mk(i))
            else:
                self._elem = mk
            return
        seq = eng_seq_view(eng, inner)
        self.seq = seq
        self.n = V.L(seq)
        if enum:
            self._elem = lambda i: (i + st0, eng_elem(eng, inner, seq, i))
        else:
            self._elem = lambda i: eng_elem(eng, inner, seq, i)

    def element(self, i):
        return self._elem(i)

    def local(self, name):
        if name not in self.env:
            raise EngineError("anchor lost: the loop invariant refers to local variable `%s` which no longer exists" % name)
        v = self.env[name]
        return self.eng.ctx.view(v)


def eng_seq_view(eng, v):
    if isinstance(v, Ref):
        k = eng.kind(v)
        if k == "list":
            items = eng.list_items(v)
            return items
        if k == "bytearray":
            return eng.get_field(v, "items")
    if isinstance(v, (SSeq, bytes, bytearray, str, tuple, list)):
        return v
    raise EngineError("cut loop over non-sequence %r" % (v,))


def eng_elem(eng, inner, seq, i):
    if isinstance(seq, SSeq) and seq.py == "str":
        e = V.nth(seq, i)
        return SSeq(z3.Unit(e.t), "char", "str")
    if isinstance(seq, str):
        if is_sym(i):
            e = V.nth(V.to_seq(seq), i)
            return SSeq(z3.Unit(e.t), "char", "str")
        return seq[i]
    if isinstance(seq, tuple):
        if is_sym(i):
            # concrete spine, symbolic index: elements may be heterogeneous (e.g. refs): not supported
            return V.nth(V.to_seq(list(seq)), i)
        return seq[i]
    return V.nth(seq, i)


def _walk_in_order(node):
    """pre-order traversal in source order"""
    yield node
    for ch in ast.iter_child_nodes(node):
        yield from _walk_in_order(ch)


def _as_load(t):
    import copy

    t2 = copy.copy(t)
    t2.ctx = ast.Load()
    return t2


def _handler_names(t):
    if isinstance(t, ast.Tuple):
        out = []
        for e in t.elts:
            out.extend(_handler_names(e))
        return out
    if isinstance(t, ast.Name):
        return [t.id]
    if isinstance(t, ast.Attribute):
        return [t.attr]
    return [None]


def _is_pure_simple(n):
    """expression without calls that could have effects (conservative syntactic check)"""
    for sub in ast.walk(n):
        if isinstance(sub, ast.Call):
            f = sub.func
            if isinstance(f, ast.Name) and f.id in ("len", "min", "max", "int", "bool", "isinstance", "ord", "abs"):
                continue
            return False
        if isinstance(sub, (ast.Lambda, ast.ListComp, ast.GeneratorExp, ast.NamedExpr, ast.Yield, ast.Await)):
            return False
    return True
