"""Run the REAL function of /repo on concrete inputs and evaluate its contract (under /venv/bin/python).

  python -m pyvc.replay --target py7zr.archiveinfo:write_uint64 --mode model  --model '{"value": 16384}'
  python -m pyvc.replay --target ... --mode search --n 2000 --seed 1 [--model hints]   # look for a failing input
  python -m pyvc.replay --target ... --mode sample --n 200 --seed 1                    # cross-check on valid inputs
Prints one JSON document.
"""
import argparse
import json
import os
import resource
import signal
import sys

HERE = os.path.dirname(os.path.dirname(os.path.abspath(__file__)))
sys.path.insert(0, HERE)
REPO = os.environ.get("VERIF_REPO", "/repo")
if REPO != "/repo" or True:
    sys.path.insert(0, REPO)


def main():
    ap = argparse.ArgumentParser()
    ap.add_argument("--target", required=True)
    ap.add_argument("--mode", default="model")
    ap.add_argument("--model", default="{}")
    ap.add_argument("--n", type=int, default=200)
    ap.add_argument("--seed", type=int, default=0)
    ap.add_argument("--timeout", type=int, default=60)
    a = ap.parse_args()
    resource.setrlimit(resource.RLIMIT_AS, (4 << 30, 4 << 30))
    signal.alarm(a.timeout)
    from pyvc.run import load_contracts
    from pyvc import concrete as C

    reg = load_contracts()
    ct = reg.contract_for(a.target)
    model = json.loads(a.model)
    out = {"target": a.target, "mode": a.mode, "runs": 0, "valid": 0, "violations": [], "distinct_outcomes": 0}
    outcomes = set()
    if a.mode == "model":
        r = C.run_contract_concrete(ct, C.Gen(model, seed=a.seed, bounds=ct.sample_bounds))
        out["runs"] = 1
        out["result"] = r
        if r["status"] == "violation":
            out["violations"].append(r)
        out["valid"] = int(r["status"] != "invalid-input")
    else:
        for i in range(a.n):
            hints = model if (a.mode == "search" and i % 3 == 0) else {}
            if hints and i > 0:
                # perturb: keep a random subset of the hints
                import random

                rr = random.Random(a.seed * 7919 + i)
                hints = {k: v for k, v in hints.items() if rr.random() < 0.6}
            r = C.run_contract_concrete(ct, C.Gen(hints, seed=a.seed * 1000003 + i, bounds=ct.sample_bounds))
            out["runs"] += 1
            if r["status"] == "invalid-input":
                continue
            if r["status"] == "contract-eval-error":
                out.setdefault("eval_errors", []).append(r)
                continue
            out["valid"] += 1
            outcomes.add(json.dumps(r.get("inputs"), sort_keys=True, default=str)[:400])
            if r["status"] == "violation":
                out["violations"].append(r)
                if len(out["violations"]) >= 3:
                    break
        out["distinct_outcomes"] = len(outcomes)
    print(json.dumps(out))


if __name__ == "__main__":
    main()
