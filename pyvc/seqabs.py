"""Stage-1 discharge: abstract the sequence theory to EUF+LIA with instantiated sequence axioms.

Every sequence sort becomes an uninterpreted sort, every sequence operation an uninterpreted function,
and for the sequence terms that occur the (valid) axioms of the theory are instantiated:
  len(x) >= 0, len(a ++ b) = len a + len b, len(unit e) = 1, len(empty) = 0,
  nth(unit e, 0) = e, nth(a ++ b, i) = (i < len a ? nth(a, i) : nth(b, i - len a)) for 0 <= i,
  len / nth of extract, cancellation of common prefixes/suffixes in equalities of concatenations.
Any model of the original query (H and not goal) interprets the new symbols by the real operations and
satisfies the abstraction, hence  unsat(abstraction) => unsat(original): proving with it is sound.
It is incomplete; when it does not answer `unsat` the full query goes to the real solvers.
"""
from __future__ import annotations

import z3

SEQ_OPS = {
    z3.Z3_OP_SEQ_CONCAT,
    z3.Z3_OP_SEQ_UNIT,
    z3.Z3_OP_SEQ_EMPTY,
    z3.Z3_OP_SEQ_LENGTH,
    z3.Z3_OP_SEQ_NTH,
    z3.Z3_OP_SEQ_EXTRACT,
    z3.Z3_OP_SEQ_PREFIX,
    z3.Z3_OP_SEQ_SUFFIX,
    z3.Z3_OP_SEQ_CONTAINS,
    z3.Z3_OP_SEQ_AT,
}


class Unsupported(Exception):
    pass


class Abstractor:
    def __init__(self):
        self.cache = {}
        self.sorts = {}
        self.funcs = {}
        self.axioms = []
        self._ax_seen = set()
        self.depth = 0

    # ---- sorts
    def sort(self, s):
        k = s.sexpr()
        r = self.sorts.get(k)
        if r is not None:
            return r
        if z3.is_seq_sort(s) if hasattr(z3, "is_seq_sort") else s.kind() == z3.Z3_SEQ_SORT:
            b = self.sort(s.basis())
            r = z3.DeclareSort("AS_" + b.name().replace(" ", "_"))
        elif s.kind() == z3.Z3_ARRAY_SORT:
            r = z3.ArraySort(self.sort(s.domain()), self.sort(s.range()))
        else:
            r = s
        self.sorts[k] = r
        return r

    def is_seq(self, t):
        return t.sort().kind() == z3.Z3_SEQ_SORT

    def fn(self, name, *sorts):
        k = (name,) + tuple(x.sexpr() for x in sorts)
        f = self.funcs.get(k)
        if f is None:
            f = z3.Function(name + "!" + "_".join(x.name().replace(" ", "") for x in sorts[:-1]), *sorts)
            self.funcs[k] = f
        return f

    def ax(self, f):
        i = f.get_id()
        if i not in self._ax_seen:
            self._ax_seen.add(i)
            self.axioms.append(f)

    # ---- helpers on abstract sequences
    def a_len(self, a):
        f = self.fn("len", a.sort(), z3.IntSort())
        t = f(a)
        self.ax(t >= 0)
        return t

    def a_nth(self, a, i, elem_sort):
        f = self.fn("nth", a.sort(), z3.IntSort(), elem_sort)
        return f(a, i)

    def flatten(self, t):
        if z3.is_app_of(t, z3.Z3_OP_SEQ_CONCAT):
            out = []
            for ch in t.children():
                out.extend(self.flatten(ch))
            return out
        if z3.is_app_of(t, z3.Z3_OP_SEQ_EMPTY):
            return []
        return [t]

    def a_concat_parts(self, parts, srt):
        """right-nested canonical concatenation of already abstracted parts, with its axioms"""
        asort = self.sort(srt)
        esort = self.sort(srt.basis())
        if not parts:
            e = z3.Const("empty!" + asort.name(), asort)
            self.ax(self.a_len(e) == 0)
            return e
        if len(parts) == 1:
            return parts[0]
        rest = self.a_concat_parts(parts[1:], srt)
        cat = self.fn("cat", asort, asort, asort)
        c = cat(parts[0], rest)
        self.ax(self.a_len(c) == self.a_len(parts[0]) + self.a_len(rest))
        self._cat_info[c.get_id()] = (parts[0], rest, esort)
        return c

    _cat_info = None

    # ---- main translation
    def tr(self, t):
        i = t.get_id()
        r = self.cache.get(i)
        if r is not None:
            return r
        r = self._tr(t)
        self.cache[i] = r
        return r

    def _tr(self, t):
        if self._cat_info is None:
            self._cat_info = {}
        if z3.is_quantifier(t) or z3.is_var(t):
            raise Unsupported("quantifier")
        if not z3.is_app(t):
            raise Unsupported("non-app")
        d = t.decl()
        k = d.kind()
        if t.num_args() == 0:
            if self.is_seq(t):
                if k == z3.Z3_OP_SEQ_EMPTY:
                    return self.a_concat_parts([], t.sort())
                if k == z3.Z3_OP_UNINTERPRETED:
                    c = z3.Const(d.name(), self.sort(t.sort()))
                    self.a_len(c)
                    return c
                raise Unsupported("sequence literal " + t.sexpr()[:40])
            if t.sort().kind() == z3.Z3_ARRAY_SORT and self.sort(t.sort()).sexpr() != t.sort().sexpr():
                return z3.Const(d.name(), self.sort(t.sort()))
            return t
        if k == z3.Z3_OP_SEQ_CONCAT:
            parts = [self.tr(p) for p in self.flatten(t)]
            return self.a_concat_parts(parts, t.sort())
        if k == z3.Z3_OP_SEQ_UNIT:
            e = self.tr(t.arg(0))
            asort = self.sort(t.sort())
            u = self.fn("unit", e.sort(), asort)(e)
            self.ax(self.a_len(u) == 1)
            self.ax(self.a_nth(u, z3.IntVal(0), e.sort()) == e)
            return u
        if k == z3.Z3_OP_SEQ_LENGTH:
            return self.a_len(self.tr(t.arg(0)))
        if k == z3.Z3_OP_SEQ_NTH or d.name() in ("seq.nth_i", "seq.nth_u"):
            a = self.tr(t.arg(0))
            idx = self.tr(t.arg(1))
            esort = self.sort(t.sort())
            return self.nth_term(a, idx, esort, t.arg(0))
        if k == z3.Z3_OP_SEQ_EXTRACT:
            s0 = self.tr(t.arg(0))
            o = self.tr(t.arg(1))
            ln = self.tr(t.arg(2))
            asort = self.sort(t.sort())
            ex = self.fn("extract", asort, z3.IntSort(), z3.IntSort(), asort)(s0, o, ln)
            ls = self.a_len(s0)
            self.ax(self.a_len(ex) == z3.If(z3.And(o >= 0, o < ls, ln > 0), z3.If(ln <= ls - o, ln, ls - o), 0))
            self._extract_info[ex.get_id()] = (s0, o)
            return ex
        if k in (z3.Z3_OP_SEQ_PREFIX, z3.Z3_OP_SEQ_SUFFIX, z3.Z3_OP_SEQ_CONTAINS):
            a, b = self.tr(t.arg(0)), self.tr(t.arg(1))
            return self.fn(d.name().replace(".", "_"), a.sort(), b.sort(), z3.BoolSort())(a, b)
        if k in SEQ_OPS:
            raise Unsupported(d.name())
        ch = [self.tr(c) for c in t.children()]
        changed = any(c.get_id() != o.get_id() for c, o in zip(ch, t.children()))
        if not changed and not self.is_seq(t):
            return t
        if k == z3.Z3_OP_EQ:
            if self.is_seq(t.arg(0)):
                self.cancel(t.arg(0), t.arg(1))
            return ch[0] == ch[1]
        if k == z3.Z3_OP_DISTINCT:
            return z3.Distinct(*ch)
        if k == z3.Z3_OP_ITE:
            r = z3.If(ch[0], ch[1], ch[2])
            return r
        if k == z3.Z3_OP_UNINTERPRETED:
            if not self.is_seq(t) and all(c.sort().eq(o.sort()) for c, o in zip(ch, t.children())):
                # same signature after abstraction: keep the ORIGINAL symbol, so that applications with translated
                # arguments stay congruent with applications whose arguments needed no translation
                return d(*ch)
            f = self.fn(d.name(), *([c.sort() for c in ch] + [self.sort(t.sort())]))
            r = f(*ch)
            if self.is_seq(t):
                self.a_len(r)
            return r
        if k in (z3.Z3_OP_SELECT,):
            return z3.Select(ch[0], ch[1])
        if k in (z3.Z3_OP_STORE,):
            return z3.Store(ch[0], ch[1], ch[2])
        if k == z3.Z3_OP_CONST_ARRAY:
            return z3.K(self.sort(t.sort()).domain(), ch[0])
        if self.is_seq(t):
            raise Unsupported("sequence-valued " + d.name())
        try:
            return d(*ch)
        except z3.Z3Exception:
            raise Unsupported("rebuild " + d.name())

    _extract_info = {}

    def nth_term(self, a, idx, esort, orig_seq=None):
        n = self.a_nth(a, idx, esort)
        info = self._cat_info.get(a.get_id())
        if info is not None and self.depth < 12:
            left, right, _ = info
            self.depth += 1
            try:
                ll = self.a_len(left)
                nl = self.nth_term(left, idx, esort)
                nr = self.nth_term(right, idx - ll, esort)
            finally:
                self.depth -= 1
            self.ax(z3.Implies(idx >= 0, n == z3.If(idx < ll, nl, nr)))
        ex = self._extract_info.get(a.get_id())
        if ex is not None and self.depth < 12:
            s0, o = ex
            self.depth += 1
            try:
                inner = self.nth_term(s0, o + idx, esort)
            finally:
                self.depth -= 1
            self.ax(z3.Implies(z3.And(idx >= 0, idx < self.a_len(a)), n == inner))
        return n

    def cancel(self, A, B):
        """A == B with common prefix/suffix parts: the remainders are equal too (asserted as consequence)"""
        pa, pb = self.flatten(A), self.flatten(B)
        i = 0
        while i < len(pa) and i < len(pb) and pa[i].eq(pb[i]):
            i += 1
        j = 0
        while j < len(pa) - i and j < len(pb) - i and pa[len(pa) - 1 - j].eq(pb[len(pb) - 1 - j]):
            j += 1
        if i == 0 and j == 0:
            return
        ra, rb = pa[i:len(pa) - j], pb[i:len(pb) - j]
        ta = self.a_concat_parts([self.tr(x) for x in ra], A.sort())
        tb = self.a_concat_parts([self.tr(x) for x in rb], A.sort())
        self.ax(z3.Implies(self.tr(A) == self.tr(B), ta == tb))


def abstract_check(pc, goal, timeout_ms):
    """returns 'unsat' when the abstraction proves the obligation, else None"""
    ab = Abstractor()
    ab._extract_info = {}
    ab._cat_info = {}
    try:
        hyps = [ab.tr(t) for t in pc]
        g = ab.tr(goal)
    except (Unsupported, z3.Z3Exception, RecursionError):
        return None
    s = z3.Solver()
    s.set("timeout", timeout_ms)
    for h in hyps:
        s.add(h)
    for a in ab.axioms:
        s.add(a)
    s.add(z3.Not(g))
    try:
        r = s.check()
    except z3.Z3Exception:
        return None
    return "unsat" if r == z3.unsat else None


class SharedProver:
    """stage-1 prover shared by all obligations of one function: one abstraction, one incremental solver,
    hypotheses selected per obligation through indicator literals (check-assumptions)"""

    def __init__(self):
        self.ab = Abstractor()
        self.ab._extract_info = {}
        self.ab._cat_info = {}
        self.s = z3.Solver()
        self.lits = {}
        self.bad = set()
        self.nax = 0
        self.keep = []

    def prove(self, pc, goal, timeout_ms):
        ab, s = self.ab, self.s
        lits = []
        try:
            for t in pc:
                i = t.get_id()
                if i in self.bad:
                    continue
                p = self.lits.get(i)
                if p is None:
                    try:
                        tt = ab.tr(t)
                    except (Unsupported, z3.Z3Exception, RecursionError):
                        self.bad.add(i)
                        self.keep.append(t)
                        continue
                    p = z3.Bool("h!%d" % i)
                    s.add(z3.Implies(p, tt))
                    self.lits[i] = p
                    self.keep.append(t)
                lits.append(p)
            g = ab.tr(goal)
        except (Unsupported, z3.Z3Exception, RecursionError):
            return None
        self.keep.append(goal)
        q = z3.Bool("g!%d!%d" % (goal.get_id(), len(self.keep)))
        s.add(z3.Implies(q, z3.Not(g)))
        for a in ab.axioms[self.nax:]:
            s.add(a)
        self.nax = len(ab.axioms)
        s.set("timeout", timeout_ms)
        try:
            r = s.check(*(lits + [q]))
        except z3.Z3Exception:
            return None
        return "unsat" if r == z3.unsat else None
