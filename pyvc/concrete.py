"""Concrete evaluation of contracts against the REAL functions of /repo (run under /venv/bin/python).

Used for (a) replaying solver counterexamples, (b) the bounded concrete search that looks for a
top-level failing input when only an auxiliary obligation (loop invariant step) was refuted,
(c) the CPython cross-check: on the unchanged tree every sampled real execution must satisfy the
contract that the verifier proved - a disagreement means the encoding misrepresents Python.

The same contract objects are used: their clauses are written with the polymorphic helpers of
pyvc.values, which work on plain Python values.
"""
from __future__ import annotations

import copy
import importlib
import io
import random


class OutFile(io.RawIOBase):
    """concrete counterpart of the OutStream model {base, out}"""

    def __init__(self, base, out0):
        self.base = base
        self.buf = bytearray(out0)
        self.seeks = []

    def write(self, b):
        self.buf += bytes(b)
        return len(b)

    def seek(self, off, whence=0):
        self.seeks.append(off)
        return off

    def tell(self):
        return self.base + len(self.buf)

    def writable(self):
        return True


class Gen:
    """source of concrete input values: a model dict first, then random choices"""

    INTS = [0, 1, 2, 3, 7, 8, 9, 15, 16, 17, 31, 32, 33, 63, 64, 127, 128, 129, 255, 256, 1000, 16383, 16384, 65535, 65536,
            (1 << 21) - 1, 1 << 21, (1 << 28), (1 << 32) - 1, 1 << 32, (1 << 35), (1 << 42), (1 << 49), (1 << 56) - 1, 1 << 56,
            (1 << 63), (1 << 64) - 1, -1]

    def __init__(self, model=None, seed=0, size=12, bounds=None):
        self.bounds = bounds or {}
        self.model = dict(model or {})
        self.rnd = random.Random(seed)
        self.size = size
        self.used = {}

    def _take(self, name):
        if name in self.model:
            return True, self.model[name]
        return False, None

    def int(self, name, lo=None, hi=None):
        ok, v = self._take(name)
        if name in self.bounds and self.bounds[name][0] != "len" and (not ok or not isinstance(v, int) or not (self.bounds[name][0] <= v <= self.bounds[name][1])):
            lo, hi = self.bounds[name]
            v = self.rnd.choice([lo, hi, self.rnd.randint(lo, hi), self.rnd.randint(lo, min(hi, lo + 20))])
            ok = True
        if not ok:
            r = self.rnd.random()
            if r < 0.5:
                v = self.rnd.choice(self.INTS)
            elif r < 0.8:
                v = self.rnd.randrange(0, 40)
            else:
                v = self.rnd.getrandbits(self.rnd.choice([8, 16, 24, 32, 48, 56, 64]))
        if isinstance(v, bool) or not isinstance(v, int):
            v = 0
        self.used[name] = v
        return v

    def bool(self, name):
        ok, v = self._take(name)
        if not ok or not isinstance(v, bool):
            v = self.rnd.random() < 0.5
        self.used[name] = v
        return v

    def bytes(self, name, n=None):
        ok, v = self._take(name)
        if ok and isinstance(v, list) and all(isinstance(x, int) and 0 <= x < 256 for x in v):
            v = bytes(v)
        else:
            if name in self.bounds and self.bounds[name][0] == "len":
                n = self.bounds[name][1]
            ln = n if n is not None else self.rnd.choice([0, 1, 2, 3, 4, 8, 9, 12, 16, 17, self.rnd.randrange(0, self.size + 1)])
            style = self.rnd.random()
            if style < 0.3:
                v = bytes(self.rnd.choice([0, 1, 0x7F, 0x80, 0xBF, 0xC0, 0xDF, 0xE0, 0xEF, 0xF0, 0xF7, 0xF8, 0xFB, 0xFC, 0xFD, 0xFE, 0xFF]) for _ in range(ln))
            else:
                v = bytes(self.rnd.randrange(256) for _ in range(ln))
        self.used[name] = list(v)
        return v

    def str(self, name):
        ok, v = self._take(name)
        if ok and isinstance(v, list) and all(isinstance(x, int) and 0 <= x < 0x110000 and not (0xD800 <= x < 0xE000) for x in v):
            v = "".join(chr(x) for x in v)
        elif ok and isinstance(v, str):
            pass
        else:
            alphabet = ["a", "b", "/", "\\", ".", "..", "c:", " ", "é", "あ", "\U0001F600", "\x01", "0", "9", "k", "M", "B", "g", "\u3000", "1"]
            r = self.rnd.random()
            if r < 0.35:
                # path-shaped: components joined by '/'
                comps = [self.rnd.choice([".", "..", "a", "b", "", "dafj08sajfa", "c:", "x.7z"]) for _ in range(self.rnd.randrange(1, 5))]
                v = ("/" if self.rnd.random() < 0.15 else "") + "/".join(comps)
            elif r < 0.5:
                # number with an optional unit suffix
                v = str(self.rnd.choice([0, 1, 7, 100, 30000, 123456789])) + self.rnd.choice(["", "b", "B", "k", "K", "m", "M", "g", "G", "x", "kb", "\n"])
            else:
                v = "".join(self.rnd.choice(alphabet) for _ in range(self.rnd.randrange(0, 7)))
        self.used[name] = v
        return v

    def int_list(self, name):
        ok, v = self._take(name)
        if not (ok and isinstance(v, list) and all(isinstance(x, int) and not isinstance(x, bool) for x in v)):
            v = [self.int(name + "[]") for _ in range(self.rnd.randrange(0, 6))]
        self.used[name] = list(v)
        return list(v)

    def reclist(self, name, schema):
        """list of dicts; model keys: <name>.n, <name>.<field>.has/none/val as {index: value} or lists"""
        n = self.model.get(name + ".n")
        if not isinstance(n, int) or isinstance(n, bool) or n < 0 or n > 64:
            n = self.rnd.choice([0, 1, 1, 2, 3, 7, 8, 9, 17])
        out = []
        mode = self.rnd.random()
        for k in range(n):
            d = {}
            for f, spec in schema.items():
                present = True
                if spec.get("optional"):
                    present = self.rnd.random() < (0.95 if mode < 0.4 else 0.7)
                if not present:
                    continue
                if spec.get("nullable") and self.rnd.random() < (0.05 if mode < 0.4 else 0.35):
                    d[f] = None
                    continue
                t = spec.get("type", "int")
                if t == "bool":
                    d[f] = self.rnd.random() < 0.5
                elif t == "str":
                    d[f] = self.str("%s[%d].%s" % (name, k, f)) or "n%d" % k
                else:
                    hi = spec.get("max", (1 << 64) - 1)
                    d[f] = self.rnd.choice([0, 1, hi, self.rnd.randrange(0, hi + 1), self.rnd.randrange(0, min(hi, 1 << 20) + 1)])
            out.append(d)
        self.used[name] = out
        return out

    def bool_list(self, name):
        ok, v = self._take(name)
        if not (ok and isinstance(v, list) and all(isinstance(x, bool) for x in v)):
            n = self.rnd.choice([0, 1, 2, 7, 8, 9, 15, 16, 17, self.rnd.randrange(0, 20)])
            mode = self.rnd.random()
            if mode < 0.25:
                v = [True] * n
            elif mode < 0.4:
                v = [False] * n
            else:
                v = [self.rnd.random() < 0.5 for _ in range(n)]
        self.used[name] = list(v)
        return list(v)


class CSnap:
    """snapshot of the observable state of the concrete inputs"""

    def __init__(self, ctx):
        self.files = {}
        for f in ctx._files:
            if isinstance(f, OutFile):
                self.files[id(f)] = ("o", bytes(f.buf), f.base)
            else:
                self.files[id(f)] = ("i", f.getvalue(), f.tell())
        self.objs = {id(o): copy.deepcopy(_obj_state(o)) for o in ctx._objs}
        self.lists = {id(l): copy.deepcopy(l) for l in ctx._lists}

    def data(self, f):
        return self.files[id(f)][1]

    def pos(self, f):
        return self.files[id(f)][2]

    def out(self, f):
        return self.files[id(f)][1]

    def rest(self, f):
        k = self.files[id(f)]
        return k[1][k[2]:]

    def f(self, o, name):
        return self.objs[id(o)][name]

    def raw(self, o, name):
        return self.objs[id(o)][name]

    def has(self, o, name):
        return name in self.objs[id(o)]

    def items(self, x):
        return x

    def view(self, x):
        return x

    def deref(self, x):
        return x

    def dict_items(self, d):
        return d

    def rl(self, x):
        from .reclist import ConcreteRecView

        return ConcreteRecView(self.lists.get(id(x), x))


def _obj_state(o):
    if hasattr(o, "__dict__"):
        return dict(o.__dict__)
    st = {}
    for klass in type(o).__mro__:
        for s in getattr(klass, "__slots__", ()):
            if hasattr(o, s):
                st[s] = getattr(o, s)
    return st


class ConcreteCtx:
    """same interface as pyvc.contract.Ctx, over real Python objects"""

    eng = None
    concrete = True

    def __init__(self, gen):
        self.gen = gen
        self._files = []
        self._objs = []
        self._lists = []
        self._old = None
        self._bound = None

    # constructors -------------------------------------------------------------------------------
    def int(self, name):
        return self.gen.int(name)

    def bool(self, name):
        return self.gen.bool(name)

    def bytes(self, name):
        return self.gen.bytes(name)

    def str(self, name):
        return self.gen.str(name)

    def int_list(self, name):
        return self.gen.int_list(name)

    def bool_list(self, name):
        return self.gen.bool_list(name)

    def list_of(self, items):
        return list(items)

    def dict_of(self, d, presence=None):
        out = dict(d)
        for k, p in (presence or {}).items():
            if not p:
                out.pop(k, None)
        return out

    def opq(self, name):
        return None

    def regex(self, pattern):
        import re

        return re.compile(pattern, re.IGNORECASE)

    def reclist(self, name, schema):
        l = self.gen.reclist(name, schema)
        self._lists.append(l)
        return l

    def rl(self, x):
        from .reclist import ConcreteRecView

        return ConcreteRecView(x)

    def instream(self, name="file", pos0=None):
        data = self.gen.bytes(name + ".data")
        if pos0 is None:
            pos = self.gen.model.get(name + ".pos")
            if not isinstance(pos, int) or isinstance(pos, bool) or not (0 <= pos <= len(data)):
                pos = self.gen.rnd.choice([0, 0, self.gen.rnd.randrange(0, len(data) + 1)])
            self.gen.used[name + ".pos"] = pos
        else:
            pos = pos0
        f = io.BytesIO(data)
        f.seek(pos)
        self._files.append(f)
        return f

    def outstream(self, name="file"):
        base = self.gen.model.get(name + ".base")
        if not isinstance(base, int) or isinstance(base, bool) or base < 0:
            base = self.gen.rnd.choice([0, 0, 1, 2, 3, 5, 32, 33])
        self.gen.used[name + ".base"] = base
        out0 = self.gen.bytes(name + ".out0", n=None if (name + ".out0") in self.gen.model else self.gen.rnd.choice([0, 0, 1, 3]))
        f = OutFile(base, out0)
        self._files.append(f)
        return f

    def obj(self, clsname, module, **fields):
        mod = importlib.import_module(module)
        cls = getattr(mod, clsname)
        o = cls.__new__(cls)
        for k, v in fields.items():
            setattr(o, k, v)
        self._objs.append(o)
        return o

    def skolem(self, name):
        return 0

    def choice(self, n):
        """contract-level case split: a random alternative on concrete runs"""
        k = self.gen.rnd.randrange(n)
        self.gen.used["choice%d" % len([x for x in self.gen.used if x.startswith("choice")])] = k
        return k

    # state access ---------------------------------------------------------------------------------
    def data(self, f):
        return f.getvalue()

    def pos(self, f):
        return f.tell()

    def out(self, f):
        return bytes(f.buf)

    def seeks(self, f):
        return list(f.seeks)

    def rest(self, f):
        return f.getvalue()[f.tell():]

    def f(self, o, name):
        return getattr(o, name)

    def raw(self, o, name):
        return getattr(o, name)

    def has(self, o, name):
        return hasattr(o, name)

    def view(self, x):
        return x

    def deref(self, x):
        return x

    def items(self, x):
        return x

    def dict_items(self, d):
        return d

    def snapshot(self):
        return CSnap(self)

    def with_old(self, old):
        c = copy.copy(self)
        c._old = old
        return c

    @property
    def old(self):
        return self._old

    @property
    def bound(self):
        return self._bound

    def assume(self, f):
        if f is not True and not f:
            raise InvalidInput()

    def ghost(self):
        return {}

    def inst(self, k):
        pass

    def lemma(self, label, f):
        if f is not True and not f:
            raise AssertionError("contract hint %s is false on a concrete run" % label)

    def seq_of(self, name, fn, n, elem="bool"):
        return [fn(k) for k in range(max(n, 0))]

    def appended(self, old, file):
        return self.out(file)[len(old.out(file)):]

    def ghost_seq(self, name, elem="int", concrete=None, default=None):
        v = concrete() if concrete is not None else None
        return v if v is not None else (list(default) if default is not None else [])

    def ghost_segments(self, file, names, concrete=None, optional=False):
        app = self.out(file)[len(self._old.out(file)):]
        if optional and len(app) == 0:
            return [b""] * len(names)
        segs = concrete(app)
        if segs is None or len(segs) != len(names):
            return [b"<unparsable>"] * len(names)
        return segs


class InvalidInput(Exception):
    pass


def truth(x):
    return bool(x)


def eval_clause(f, over_hint=None):
    """evaluate a clause value that may be a ForAll; returns (ok, witness)"""
    from .contract import ForAll

    if isinstance(f, ForAll):
        over = f.over
        try:
            n = len(over) if over is not None else int(f.n)
        except Exception:
            n = 8
        for k in range(-2, 8 * ((n + 7) // 8) + 10 if (not f.trigger and over is not None) else n + 3):
            try:
                v = f.fn(k)
            except (IndexError, ZeroDivisionError):
                continue
            if not v:
                return False, {"k": k}
        return True, None
    return bool(f), None


def run_contract_concrete(ct, gen, fn_override=None):
    """build inputs from `gen`, call the real function, evaluate the contract.
    returns dict(status='ok'|'invalid-input'|'violation', failed=[labels], inputs=..., outcome=...)"""
    import importlib

    ctx = ConcreteCtx(gen)
    try:
        bound = ct.setup(ctx)
        ctx._bound = bound
        for label, f in ct.eval_requires(ctx, bound):
            ok, _ = eval_clause(f)
            if not ok:
                return {"status": "invalid-input", "inputs": dict(gen.used)}
    except InvalidInput:
        return {"status": "invalid-input", "inputs": dict(gen.used)}
    old = ctx.snapshot()
    ctx._old = old
    args, kwargs = ct.call_args(bound)
    modname, qn = ct.target.split(":")
    if fn_override is not None:
        fn = fn_override
    else:
        mod = importlib.import_module(modname)
        obj = mod
        for p in qn.split("."):
            obj = getattr(obj, p)
        fn = obj
    if isinstance(fn, property):
        fn = fn.fget
    outcome = None
    try:
        result = fn(*args, **kwargs)
        outcome = ("return", result)
    except BaseException as e:  # noqa
        if isinstance(e, (KeyboardInterrupt, SystemExit, MemoryError)):
            raise
        outcome = ("raise", e)
    failed = []
    details = {}
    if outcome[0] == "return":
        try:
            items = ct.eval_ensures(ctx, old, bound, outcome[1])
        except Exception as e:
            return {"status": "contract-eval-error", "error": repr(e), "inputs": dict(gen.used)}
        for kind, label, f, props in items:
            ok, wit = eval_clause(f)
            if not ok:
                failed.append("post#" + label)
                if wit:
                    details[label] = wit
        # exactly-characterised exceptions must have been raised
        for rs in ct.raises_list():
            if rs.iff and rs.when is not None:
                w = rs.when(ctx.with_old(old), **bound)
                if w:
                    failed.append("xpost#%s-must-raise" % rs.label)
        out_repr = repr(outcome[1])[:300]
    else:
        e = outcome[1]
        cls = type(e).__name__
        if cls == "error":
            cls = "struct.error"
        spec = None
        for rs in ct.raises_list():
            if rs.cls == cls or rs.cls.split(".")[-1] == cls or any(k.__name__ == rs.cls for k in type(e).__mro__):
                spec = rs
                break
        if spec is None:
            failed.append("safety#no-%s" % cls)
        elif spec.when is not None:
            w = spec.when(ctx.with_old(old), **bound)
            if not w:
                failed.append("xpost#%s-only-when" % spec.label)
        out_repr = "raise %s: %s" % (cls, str(e)[:200])
    return {
        "status": "violation" if failed else "ok",
        "failed": failed,
        "details": details,
        "inputs": {k: (v if not isinstance(v, (bytes, bytearray)) else list(v)) for k, v in gen.used.items()},
        "outcome": out_repr,
    }
