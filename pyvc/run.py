"""Verify contracts: generate obligations from /repo's current source and discharge them."""
from __future__ import annotations

import importlib
import json
import multiprocessing as mp
import os
import pkgutil
import sys
import time
import traceback

HERE = os.path.dirname(os.path.dirname(os.path.abspath(__file__)))
if HERE not in sys.path:
    sys.path.insert(0, HERE)
if __name__ == "__main__" and os.environ.get("PYTHONHASHSEED") != "0":
    # same queries on every run (see ./check)
    os.environ["PYTHONHASHSEED"] = "0"
    os.execv(sys.executable, [sys.executable, "-m", "pyvc.run"] + sys.argv[1:])


def load_contracts():
    import contracts

    for m in pkgutil.iter_modules(contracts.__path__):
        importlib.import_module("contracts." + m.name)
    from pyvc.contract import REGISTRY

    return REGISTRY


def verify_one(target, timeout_ms=20000, cross=False, only_labels=None):
    """run in a worker process: returns a picklable dict"""
    t0 = time.time()
    out = {"target": target, "status": "ok", "obligations": [], "error": None, "stats": {}, "cover": {}, "source": None}
    try:
        import z3

        from pyvc import engine as E
        from pyvc import solve as S
        from pyvc.values import EngineError

        reg = load_contracts()
        ct = reg.contract_for(target)
        eng = E.Engine(ct, reg)
        try:
            fr = reg.resolve_target(target)
            out["source"] = E.func_source_info(fr)
            te = time.time()
            obs = eng.run()
            out["engine_s"] = round(time.time() - te, 2)
        except EngineError as e:
            out["status"] = "undecided"
            out["error"] = "outside subset / anchor lost: %s" % e
            out["wall_s"] = time.time() - t0
            return out
        out["cover"] = dict(eng.cover)
        out["canaries"] = dict(eng.canaries)
        vac = [k for k, v in eng.canaries.items() if v is False]
        out["canary_unknown"] = [k for k, v in eng.canaries.items() if v == "unknown"]
        if vac:
            out["status"] = "error"
            out["error"] = "vacuity guard: `False` is provable (or satisfiability unknown) at %s - contradictory assumptions?" % vac
        st = dict(eng.stats)
        st["opaque_calls"] = sorted(st.get("opaque_calls", []))
        st["havocs"] = [list(map(str, h)) for h in st.get("havocs", [])][:20]
        out["stats"] = st
        from pyvc.seqabs import SharedProver

        shared = None
        shared_path = None
        for ob in obs:
            if only_labels and not any(l in ob.name for l in only_labels):
                continue
            if shared is None or shared_path != ob.path:
                shared, shared_path = SharedProver(), ob.path  # one abstraction per execution path
            S.discharge(ob, timeout_ms=timeout_ms, cross=cross, shared=shared)
            d = {
                "name": ob.name,
                "kind": ob.kind,
                "label": ob.label,
                "props": list(ob.props or ()),
                "path": ob.path,
                "verdict": ob.verdict,
                "backend": ob.backend,
                "time_s": round(ob.time_s, 4),
                "note": ob.note,
                "fuc": ob.fuc,
            }
            if ob.verdict == "refuted":
                d["model"] = ob.model
                d["smt2_tail"] = S.smt2_head(ob, 1500)
            out["obligations"].append(d)
        # vacuity: zero obligations / no feasible exit
        if vac:
            pass
        elif not out["obligations"]:
            out["status"] = "error"
            out["error"] = "zero obligations generated (vacuity guard)"
        if not (eng.cover.get("normal-exit") or any(k.startswith("raise-") for k in eng.cover)):
            out["status"] = "error"
            out["error"] = "no feasible exit path: contradictory requires? (vacuity guard)"
    except Exception as e:  # checker crash
        out["status"] = "error"
        out["error"] = "checker crash: %s\n%s" % (e, traceback.format_exc()[-2000:])
    out["wall_s"] = round(time.time() - t0, 3)
    return out


def _worker(args):
    return verify_one(*args)


def verify_many(targets, timeout_ms=20000, cross=False, procs=None, only_labels=None):
    procs = procs or min(16, max(1, len(targets)))
    if len(targets) == 1 or procs == 1:
        return [verify_one(t, timeout_ms, cross, only_labels) for t in targets]
    ctx = mp.get_context("fork")
    with ctx.Pool(procs) as pool:
        return pool.map(_worker, [(t, timeout_ms, cross) for t in targets], chunksize=1)


def main(argv=None):
    import argparse

    ap = argparse.ArgumentParser()
    ap.add_argument("--contract", action="append", default=[])
    ap.add_argument("--prop")
    ap.add_argument("--timeout", type=int, default=20000)
    ap.add_argument("-v", action="store_true")
    ap.add_argument("--models", action="store_true")
    ap.add_argument("--only", action="append", default=[], help="discharge only obligations whose name contains this text")
    a = ap.parse_args(argv)
    reg = load_contracts()
    targets = list(a.contract)
    if a.prop:
        targets += [c.target for c in reg.for_property(a.prop)]
    if not targets:
        targets = sorted(reg.contracts)
    res = verify_many(targets, a.timeout, only_labels=a.only or None)
    bad = 0
    for r in res:
        nb = len(r["obligations"])
        pr = sum(1 for o in r["obligations"] if o["verdict"] == "proved")
        print("%-55s %-9s %3d/%3d  paths=%s  %.2fs (engine %.1fs) %s" % (r["target"], r["status"], pr, nb, r["stats"].get("paths"), r["wall_s"], r.get("engine_s", 0), (r["error"] or "")[:300]))
        for o in r["obligations"]:
            if o["verdict"] != "proved" or a.v:
                print("     %-9s %-70s %.3fs %s" % (o["verdict"], o["name"], o["time_s"], o["note"][:100]))
                if o["verdict"] == "refuted" and o.get("model") and a.models:
                    m = {k: v for k, v in o["model"].items() if "!" not in k or True}
                    print("        model:", json.dumps(m)[:600])
                bad += o["verdict"] != "proved"
    return 1 if bad else 0


if __name__ == "__main__":
    sys.exit(main())
