"""Section writers of py7zr/archiveinfo.py: PackInfo.write, SubstreamsInfo.write (C07, C08).

Postconditions are written from the 7z format (docs/archive_format.rst and the `Digests` structure of 7zFormat.txt:
AllAreDefined byte, BitField when not all defined, then one UINT32 CRC *per defined digest*), never from the code:
they describe the appended bytes through the offsets at which a decoder that follows the format finds each field.

Lists of NUMBERs of unknown length are described by a ghost sequence of cut offsets (`cuts`): cuts[k] is the offset of
the k-th NUMBER, cuts[k+1] = cuts[k] + its announced length, and the NUMBER found there decodes to the k-th value.  The
ghost sequence is maintained by ghost code at the end of each loop iteration (LoopSpec.ghost_step) and is existentially
quantified for callers.
"""
try:
    import z3
except Exception:  # concrete-only interpreter
    z3 = None

from pyvc.contract import Contract, ForAll, LoopSpec, RaiseSpec, contract
from pyvc.values import And, Implies, Not, Or, L, ite, nth, slice_, ceil8, eq, all_true_of, any_true_of
from pyvc import values as V
from spec import primitives as SP

AI = "py7zr.archiveinfo:"
U64 = 1 << 64


def conc(c):
    return getattr(c, "concrete", False)


def psum(c, tag, xs, i):
    """prefix sum xs[0] + ... + xs[i-1] (a fold; unfolded one step at a time where needed)"""
    if conc(c):
        return sum(xs[: max(i, 0)])
    return V.SInt(V.uf("prefix_sum_" + tag, z3.IntSort(), z3.IntSort())(V._zi(i)))


def psum_unfold(c, tag, xs, i):
    return And(psum(c, tag, xs, i + 1) == psum(c, tag, xs, i) + nth(xs, i))


def rank(c, tag, bs, i):
    """number of True among bs[0..i)"""
    if conc(c):
        return sum(1 for b in bs[: max(i, 0)] if b)
    return V.SInt(V.uf("rank_true_" + tag, z3.IntSort(), z3.IntSort())(V._zi(i)))


def rank_unfold(c, tag, bs, i):
    return rank(c, tag, bs, i + 1) == rank(c, tag, bs, i) + ite(nth(bs, i), 1, 0)


def exists_of(c, tag, xs, P):
    """spec-level  exists k. P(xs[k])  : a boolean with its two defining facts (skolem witness)"""
    if conc(c):
        return any(P(x) for x in xs)
    eng = c.eng
    cache = eng.ghost.setdefault("exists_of", {})
    key = (tag, xs.t.get_id())
    if key in cache:
        return cache[key]
    r = eng.fresh_bool("spec_exists_" + tag)
    n = L(xs)
    eng.register_forall(ForAll(lambda k: Implies(And(Not(r), k >= 0, k < n), Not(P(nth(xs, k)))), over=xs))
    w = eng.fresh_int("spec_witness_" + tag)
    eng.assume(Implies(r, And(w >= 0, w < n, P(nth(xs, w)))))
    eng.add_index_term(w, over=xs)
    cache[key] = r
    eng._keep.append(xs)
    return r


def _lz(fn):
    def g(k):
        with V.lazy_nth():
            return fn(k)

    return g


FORK_ON_SPEC_BOOLEANS = False


def pick(c, cond, a, b):
    """ite(cond, a, b).  When the clause is being PROVED the verification forks on cond (both alternatives are
    verified, infeasible ones are pruned), which keeps offsets into the appended bytes free of if-then-else terms."""
    if conc(c):
        return a if cond else b
    if not V.is_sym(cond):
        return a if cond else b
    if c.eng.ctx_mode == "prove" and (FORK_ON_SPEC_BOOLEANS or getattr(c.eng.contract, "fork_spec_booleans", False)):
        memo = c.eng.ghost.setdefault("pick_memo", {})
        key = cond.t.get_id()
        if key not in memo:
            c.eng._keep.append(cond)
            memo[key] = c.eng.branch(cond)
        return a if memo[key] else b
    if c.eng.ctx_mode == "prove":
        if V.known(cond):
            return a
        if V.known(Not(cond)):
            return b
    return ite(cond, a, b)


def numbers_clauses(tag, data, start, cuts, xs, n, guard=True):
    """data holds, from offset `start`, the NUMBERs of xs[0..n): cuts[k] = offset of the k-th, cuts[n] = end"""
    return [
        (tag + ".count", Implies(guard, L(cuts) == n + 1)),
        (tag + ".starts", Implies(guard, nth(cuts, 0) == start)),
        (tag + ".consecutive", ForAll(lambda k: nth(cuts, k + 1) == nth(cuts, k) + SP.NL(data, nth(cuts, k)), guard=lambda k: And(guard, k >= 0, k < n), over=cuts, trigger=False)),
        (tag + ".values", ForAll(lambda k: SP.NV(data, nth(cuts, k)) == nth(xs, k), guard=lambda k: And(guard, k >= 0, k < n), over=cuts, trigger=False)),
    ]


def numbers_inv(data, start, cuts, xs, i):
    """loop invariant of `for x in xs: write_uint64(file, x)` after i iterations (data = bytes appended so far)"""
    return [
        ("cuts-length", L(cuts) == i + 1),
        ("cuts-first", nth(cuts, 0) == start),
        ("cuts-last", nth(cuts, i) == L(data)),
        ("cuts-inside", ForAll(lambda k: And(nth(cuts, k) >= start, nth(cuts, k + 1) <= L(data), nth(cuts, k) < nth(cuts, k + 1)), guard=lambda k: And(k >= 0, k < i), over=cuts, trigger=False)),
        ("consecutive", ForAll(lambda k: nth(cuts, k + 1) == nth(cuts, k) + SP.NL(data, nth(cuts, k)), guard=lambda k: And(k >= 0, k < i), over=cuts, trigger=False)),
        ("values", ForAll(lambda k: SP.NV(data, nth(cuts, k)) == nth(xs, k), guard=lambda k: And(k >= 0, k < i), over=cuts, trigger=False)),
    ]


def parse_numbers(data, p, n):
    """concrete spec decoder: offsets of n NUMBERs starting at p (None when truncated)"""
    cuts = [p]
    for _ in range(n):
        if p >= len(data):
            return None
        p += SP.number_len(data, p)
        cuts.append(p)
    return cuts


def snoc(seq, x):
    return V.concat(seq, V.to_seq([x], "int", "list"))


# ===================================================================================================== PackInfo.write
@contract
class PackInfoWrite(Contract):
    """PackInfo: id 0x06, NUMBER packpos, NUMBER numstreams, id 0x09, one NUMBER per pack size, optional CRC record
    (id 0x0A, BooleanList digestdefined, one UINT32 per DEFINED digest), END"""

    target = AI + "PackInfo.write"
    props = ("C07", "C08")
    assert_mode = "check"
    opaque_numbers = True
    assumptions = ("list.count(True) equals the fold rank(n) = number of True among the first n entries, taken at the full length (rank is defined by its one-step unfolding)",)

    def setup(self, c):
        ns, ps, crcs, dd = c.int("numstreams"), c.int_list("packsizes"), c.int_list("crcs"), c.bool_list("digestdefined")
        if conc(c) and c.bool("shape_inputs"):
            # sampling only: most draws would miss the precondition (equal lengths, one CRC per defined digest)
            ns = len(ps)
            dd = (list(dd) + [bool(x & 1) for x in ps])[:ns]
            crcs = ([abs(x) % (1 << 32) for x in crcs] + [(x * 2654435761) % (1 << 32) for x in ps])[: sum(1 for b in dd if b)]
        self_ = c.obj("PackInfo", "py7zr.archiveinfo", packpos=c.int("packpos"), numstreams=ns, packsizes=ps, crcs=crcs, digestdefined=dd, enable_digests=c.bool("enable_digests"))
        return {"self_": self_, "file": c.outstream("file")}

    def requires(self, c, self_, file):
        ps, crcs, dd = c.f(self_, "packsizes"), c.f(self_, "crcs"), c.f(self_, "digestdefined")
        n = c.f(self_, "numstreams")
        return [
            ("packpos-in-uint64", And(c.f(self_, "packpos") >= 0, c.f(self_, "packpos") < U64)),
            ("numstreams-is-count", And(n == L(ps), n < U64)),
            ("sizes-in-uint64", ForAll(lambda k: And(nth(ps, k) >= 0, nth(ps, k) < U64), guard=lambda k: And(k >= 0, k < L(ps)), over=ps)),
            # crcs is kept in the form PackInfo._read produces and SevenZipFile.test consumes: one entry per DEFINED digest
            ("digest-vectors-cover-streams", Implies(Or(c.f(self_, "enable_digests"), any_true_of(c, dd)), And(L(dd) == n, L(crcs) == rank(c, "pk", dd, n)))),
            ("count-is-the-rank-at-full-length", True if conc(c) else V.SInt(V.uf("count_true", V.seq_sort("bool"), z3.IntSort())(dd.t)) == rank(c, "pk", dd, L(dd))),
            ("crcs-fit-32-bits", ForAll(lambda k: And(nth(crcs, k) >= 0, nth(crcs, k) < (1 << 32)), guard=lambda k: And(k >= 0, k < L(crcs)), over=crcs)),
        ]

    def modifies(self, c, self_, file):
        return [(file, "out"), (self_, "enable_digests")]

    def _concrete(self, c, old, self_, file):
        app = c.appended(old, file)
        n = len(self_.packsizes)
        try:
            l1 = SP.number_len(app, 1)
            l2 = SP.number_len(app, 1 + l1)
            return parse_numbers(app, 1 + l1 + l2 + 1, n)
        except IndexError:
            return None

    def ensures(self, c, old, result, self_, file):
        ps, crcs, dd = c.f(self_, "packsizes"), c.f(self_, "crcs"), c.f(self_, "digestdefined")
        n = L(ps)
        app = c.appended(old, file)
        cuts = c.ghost_seq("cutsP", concrete=lambda: self._concrete(c, old, self_, file))
        l1 = SP.NL(app, 1)
        p2 = 1 + l1
        l2 = SP.NL(app, p2)
        p3 = p2 + l2
        endS = nth(cuts, n)
        withcrc = Or(old.f(self_, "enable_digests"), any_true_of(c, dd))
        alltrue = all_true_of(c, dd)
        q = endS + 1
        cstart = ite(alltrue, q + 1, q + 1 + ceil8(n))
        endC = cstart + 4 * rank(c, "pk", dd, n)
        out = [
            ("section-id", nth(app, 0) == 0x06),
            ("pack-position", SP.NV(app, 1) == c.f(self_, "packpos")),
            ("stream-count", SP.NV(app, p2) == n),
            ("size-id", nth(app, p3) == 0x09),
        ]
        out += numbers_clauses("pack-sizes", app, p3 + 1, cuts, ps, n)
        out += [
            ("crc-record-iff-digests-enabled", (nth(app, endS) == 0x0A) == withcrc),
            ("all-defined-flag", Implies(withcrc, nth(app, q) == ite(alltrue, 1, 0))),
            ("defined-bits", ForAll(lambda k: SP.bit(app, q + 1, k) == nth(dd, k), guard=lambda k: And(withcrc, Not(alltrue), k >= 0, k < n), over=dd, mod=8)),
            ("padding-bits-zero", ForAll(lambda k: Not(SP.bit(app, q + 1, k)), guard=lambda k: And(withcrc, Not(alltrue), k >= n, k < 8 * ceil8(n)), over=dd, trigger=False, mod=8)),
            ("one-crc-per-defined-digest-in-order", ForAll(lambda j: SP.uint32_le(app, cstart + 4 * j) == nth(crcs, j), guard=lambda j: And(withcrc, j >= 0, j < L(crcs)), over=crcs)),
            ("end-marker-without-crc-record", Implies(Not(withcrc), And(L(app) == endS + 1, nth(app, L(app) - 1) == 0))),
            ("end-marker-after-crcs", Implies(withcrc, And(L(app) == endC + 1, nth(app, L(app) - 1) == 0))),
            ("digests-flag", c.f(self_, "enable_digests") == withcrc),
        ]
        return out

    def loops(self):
        def app_of(c):
            return c.appended(c.old, c.bound["file"])

        def inv0(c, Lp):
            ps = c.f(c.bound["self_"], "packsizes")
            return numbers_inv(app_of(c), Lp.ghost["start"], c.eng.ghost["cutsP"], ps, Lp.i)

        def init0(c, Lp):
            Lp.ghost["start"] = L(app_of(c))
            c.eng.ghost["cutsP"] = V.to_seq([Lp.ghost["start"]], "int", "list")
            return []

        def gstep0(c, Lp):
            c.eng.ghost["cutsP"] = snoc(c.eng.ghost["cutsP"], L(app_of(c)))

        return {
            "archiveinfo:PackInfo.write#loop0": LoopSpec("for-size", inv0, target="size in self.packsizes", unfold_init=init0, ghost_step=gstep0, ghosts=["cutsP"]),
        }


# ================================================================================================ SubstreamsInfo.write
def _nus(c, self_):
    return c.f(self_, "num_unpackstreams_folders")


def sizes_Q(c, app, cutsS, fo, nus, ups, nf, startS, m):
    """what the format says about global substream m of the SIZE record: folder fo[m] contains it; the last
    substream of a folder has no explicit size, every other one has a NUMBER equal to its unpack size"""
    f = nth(fo, m)
    last = (m + 1 == psum(c, "nus", nus, f + 1))
    a, b = nth(cutsS, m), nth(cutsS, m + 1)
    explicit = And(b == a + SP.NL(app, a), SP.NV(app, a) == nth(ups, m))
    return And(f >= 0, f < nf, psum(c, "nus", nus, f) <= m, m < psum(c, "nus", nus, f + 1), a >= startS, b <= L(app), a <= b, Implies(last, b == a), Implies(Not(last), explicit))


@contract
class SubstreamsInfoWrite(Contract):
    """SubStreamsInfo: id 0x08; NumUnpackStream record (0x0D + one NUMBER per folder) unless every folder holds exactly
    one stream; Size record (0x09 + a NUMBER for every substream except the last of each folder) when some folder holds
    several; CRC record (0x0A, Digests structure) when some digest is defined; END"""

    target = AI + "SubstreamsInfo.write"
    props = ("C07", "C08")
    assert_mode = "check"
    opaque_numbers = True

    def setup(self, c):
        self_ = c.obj("SubstreamsInfo", "py7zr.archiveinfo", num_unpackstreams_folders=c.int_list("nus"), unpacksizes=c.int_list("ups"), digestsdefined=c.bool_list("dd"), digests=c.int_list("dg"))
        return {"self_": self_, "file": c.outstream("file")}

    def requires(self, c, self_, file):
        nus, ups, dd, dg = _nus(c, self_), c.f(self_, "unpacksizes"), c.f(self_, "digestsdefined"), c.f(self_, "digests")
        nf = L(nus)
        return [
            ("counts-in-uint64", ForAll(lambda k: And(nth(nus, k) >= 0, nth(nus, k) < U64), guard=lambda k: And(k >= 0, k < nf), over=nus)),
            ("sizes-in-uint64", ForAll(lambda k: And(nth(ups, k) >= 0, nth(ups, k) < U64), guard=lambda k: And(k >= 0, k < L(ups)), over=ups)),
            # definition of the prefix sums of the per-folder counts, and: every substream has an unpack size
            ("prefix-sums-start", psum(c, "nus", nus, 0) == 0),
            ("prefix-sums", ForAll(lambda k: And(psum(c, "nus", nus, k + 1) == psum(c, "nus", nus, k) + nth(nus, k), psum(c, "nus", nus, k + 1) <= L(ups)), guard=lambda k: And(k >= 0, k < nf), over=nus)),
            ("digest-vectors-agree", L(dd) == L(dg)),
            ("digests-fit-32-bits", ForAll(lambda k: And(nth(dg, k) >= 0, nth(dg, k) < (1 << 32)), guard=lambda k: And(k >= 0, k < L(dg)), over=dg)),
        ]

    def modifies(self, c, self_, file):
        return [(file, "out")]

    def _concrete(self, c, old, self_, file):
        """spec decoder over the appended bytes: returns (cutsN, cutsS, fo) or None"""
        app = c.appended(old, file)
        nus = list(self_.num_unpackstreams_folders)
        try:
            p = 1
            cutsN = [1]
            if len(app) > 1 and app[1] == 0x0D:
                cutsN = parse_numbers(app, 2, len(nus))
                if cutsN is None:
                    return None
                p = cutsN[-1]
            cutsS, fo = [p + 1], []
            if len(app) > p and app[p] == 0x09:
                q = p + 1
                for i, num in enumerate(nus):
                    for j in range(num):
                        fo.append(i)
                        if j + 1 != num:
                            q += SP.number_len(app, q)
                        cutsS.append(q)
            return cutsN, cutsS, fo
        except IndexError:
            return None

    def ensures(self, c, old, result, self_, file):
        nus, ups, dd, dg = _nus(c, self_), c.f(self_, "unpacksizes"), c.f(self_, "digestsdefined"), c.f(self_, "digests")
        nf = L(nus)
        nd = L(dd)
        app = c.appended(old, file)
        cc = self._concrete(c, old, self_, file) if conc(c) else None
        cutsN = c.ghost_seq("cutsN", concrete=lambda: cc[0] if cc else None, default=[1])
        cutsS = c.ghost_seq("cutsS", concrete=lambda: cc[1] if cc else None, default=[0])
        fo = c.ghost_seq("foS", concrete=lambda: cc[2] if cc else None, default=[])
        has_nus = exists_of(c, "differs-from-one", nus, lambda x: x != 1)
        has_multi = exists_of(c, "several", nus, lambda x: x > 1)
        anydef = any_true_of(c, dd)
        alltrue = all_true_of(c, dd)
        total = psum(c, "nus", nus, nf)
        G = nf > 0
        endN = pick(c, has_nus, nth(cutsN, nf), 1)
        startS = endN + 1
        endS = pick(c, has_multi, nth(cutsS, total), endN)
        q = endS + 1
        cstart = pick(c, alltrue, q + 1, q + 1 + ceil8(nd))
        endC = pick(c, anydef, cstart + 4 * rank(c, "ss", dd, nd), endS)
        if not conc(c) and c.eng.ctx_mode == "prove":
            # proof hints (each is proved before it is used): which optional records this execution emitted
            c.lemma("num-unpack-stream-record-presence", Implies(G, (nth(app, 1) == 0x0D) == has_nus))
            c.lemma("size-record-presence", Implies(G, (nth(app, endN) == 0x09) == has_multi))
            c.lemma("size-record-end", Implies(And(G, has_multi), nth(cutsS, total) == L(app) - 1 - ite(anydef, 1 + ite(alltrue, 1, 1 + ceil8(nd)) + 4 * rank(c, "ss", dd, nd), 0)))
        out = [
            ("nothing-without-folders", Implies(Not(G), L(app) == 0)),
            ("section-id", Implies(G, nth(app, 0) == 0x08)),
            ("num-unpack-stream-record-unless-all-folders-hold-one", Implies(G, (nth(app, 1) == 0x0D) == has_nus)),
        ]
        out += numbers_clauses("num-unpack-streams", app, 2, cutsN, nus, nf, guard=And(G, has_nus))
        out += [
            ("size-record-iff-some-folder-holds-several", Implies(G, (nth(app, endN) == 0x09) == has_multi)),
            ("sizes.count", Implies(And(G, has_multi), And(L(cutsS) == total + 1, nth(cutsS, 0) == startS))),
            ("sizes.all-but-last-of-each-folder", ForAll(lambda m: sizes_Q(c, app, cutsS, fo, nus, ups, nf, startS, m), guard=lambda m: And(G, has_multi, m >= 0, m < total), over=cutsS, trigger=False)),
            ("crc-record-iff-some-digest-defined", Implies(G, (nth(app, endS) == 0x0A) == anydef)),
            ("all-defined-flag", Implies(And(G, anydef), nth(app, q) == ite(alltrue, 1, 0))),
            ("defined-bits", ForAll(lambda k: SP.bit(app, q + 1, k) == nth(dd, k), guard=lambda k: And(G, anydef, Not(alltrue), k >= 0, k < nd), over=dd, mod=8)),
            ("padding-bits-zero", ForAll(lambda k: Not(SP.bit(app, q + 1, k)), guard=lambda k: And(G, anydef, Not(alltrue), k >= nd, k < 8 * ceil8(nd)), over=dd, trigger=False, mod=8)),
            ("crc-of-each-defined-digest", ForAll(lambda k: (c.inst(rank(c, "ss", dd, k)), SP.uint32_le(app, cstart + 4 * rank(c, "ss", dd, k)) == nth(dg, k))[1], guard=lambda k: And(G, anydef, k >= 0, k < nd, nth(dd, k)), over=dd)),
            ("end-marker", Implies(G, And(L(app) == endC + 1, nth(app, L(app) - 1) == 0))),
        ]
        return out

    def loops(self):
        def app_of(c):
            return c.appended(c.old, c.bound["file"])

        def G(c, name):
            return c.eng.ghost[name]

        # ---- loop0: for n in nus: write_uint64(file, n)
        def inv0(c, Lp):
            return numbers_inv(app_of(c), Lp.ghost["start"], G(c, "cutsN"), _nus(c, c.bound["self_"]), Lp.i)

        def init0(c, Lp):
            Lp.ghost["start"] = L(app_of(c))
            c.eng.ghost["cutsN"] = V.to_seq([Lp.ghost["start"]], "int", "list")
            return []

        def gstep0(c, Lp):
            c.eng.ghost["cutsN"] = snoc(G(c, "cutsN"), L(app_of(c)))

        # ---- loop1 (folders) / loop2 (substreams of one folder)
        def common(c, Lp, idx):
            b = c.bound
            nus, ups = _nus(c, b["self_"]), c.f(b["self_"], "unpacksizes")
            nf = L(nus)
            app = app_of(c)
            cutsS, fo = G(c, "cutsS"), G(c, "foS")
            startS = c.eng.ghost["startS"]
            return [
                ("cuts-length", And(L(cutsS) == idx + 1, L(fo) == idx, idx >= 0)),
                ("cuts-first", nth(cutsS, 0) == startS),
                ("cuts-last", nth(cutsS, idx) == L(app)),
                ("substreams-so-far", ForAll(lambda m: sizes_Q(c, app, cutsS, fo, nus, ups, nf, startS, m), guard=lambda m: And(m >= 0, m < idx), over=cutsS, trigger=False, cases=lambda m: [m < idx - 1, m >= idx - 1])),
            ]

        def inv1(c, Lp):
            nus = _nus(c, c.bound["self_"])
            idx = Lp.local("idx")
            return [("cursor", idx == psum(c, "nus", nus, Lp.i))] + common(c, Lp, idx)

        def init1(c, Lp):
            st = L(app_of(c))
            c.eng.ghost["startS"] = st
            c.eng.ghost["cutsS"] = V.to_seq([st], "int", "list")
            c.eng.ghost["foS"] = V.to_seq([], "int", "list")
            return []

        def inv2(c, Lp):
            nus = _nus(c, c.bound["self_"])
            idx = Lp.local("idx")
            i = c.local("i")
            return [("cursor", And(idx == psum(c, "nus", nus, i) + Lp.i, Lp.local("num") == nth(nus, i), i >= 0, i < L(nus)))] + common(c, Lp, idx)

        def gstep2(c, Lp):
            c.eng.ghost["cutsS"] = snoc(G(c, "cutsS"), L(app_of(c)))
            c.eng.ghost["foS"] = snoc(G(c, "foS"), c.local("i"))

        # ---- comprehension: the CRCs of the defined digests, in order
        def invc(c, Lp):
            b = c.bound
            dd, dg = c.f(b["self_"], "digestsdefined"), c.f(b["self_"], "digests")
            res = Lp.local("__comp0")
            i = Lp.i
            r = lambda k: rank(c, "ss", dd, k)
            return [
                ("length", And(L(res) == r(i), r(i) >= 0, r(i) <= i)),
                ("kept-in-order", ForAll(lambda k: And(nth(res, r(k)) == nth(dg, k), r(k) >= 0, r(k) < r(i)), guard=lambda k: And(k >= 0, k < i, nth(dd, k)), over=dd)),
                ("fit-32-bits", ForAll(lambda j: And(nth(res, j) >= 0, nth(res, j) < (1 << 32)), guard=lambda j: And(j >= 0, j < L(res)), over=res)),
            ]

        def initc(c, Lp):
            dd = c.f(c.bound["self_"], "digestsdefined")
            return [rank(c, "ss", dd, 0) == 0]

        def stepc(c, Lp):
            dd = c.f(c.bound["self_"], "digestsdefined")
            return [rank_unfold(c, "ss", dd, Lp.i)]

        return {
            "archiveinfo:SubstreamsInfo.write#comp0": LoopSpec("defined-crcs", invc, target="(crc, defined) in zip(self.digests, self.digestsdefined)", unfold_init=initc, unfold_step=stepc, cells={"__comp0": "int"}),
            "archiveinfo:SubstreamsInfo.write#loop0": LoopSpec("for-n", inv0, target="n in self.num_unpackstreams_folders", unfold_init=init0, ghost_step=gstep0, ghosts=["cutsN"]),
            "archiveinfo:SubstreamsInfo.write#loop1": LoopSpec("for-i-num", inv1, target="(i, num) in enumerate(self.num_unpackstreams_folders)", unfold_init=init1, ghosts=["cutsS", "foS"]),
            "archiveinfo:SubstreamsInfo.write#loop2": LoopSpec("for-j", inv2, target="j in range(num)", ghost_step=gstep2, ghosts=["cutsS", "foS"]),
        }
