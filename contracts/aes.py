"""AESCompressor / AESDecompressor (py7zr/compressor.py) and io.Buffer - C01, C11: CBC with 16-byte residue buffering."""
try:
    import z3
except Exception:
    z3 = None

from pyvc.contract import Contract, ForAll, LoopSpec, RaiseSpec, contract, REGISTRY
from pyvc.values import And, Implies, Not, Or, L, nth, eq, ite, slice_, cat, SBool, SInt, SOpq
from pyvc import values as V

CP = "py7zr.compressor:"
# Buffer's methods are tiny: they are executed (inlined) as part of the functions that use them
for m in ("add", "set", "reset", "get", "__len__", "__bytes__"):
    REGISTRY.inline.add("py7zr.io:Buffer." + m)


def mk_buffer(c, name="buf"):
    raw = c.eng.alloc("bytearray", items=c.eng.fresh_seq(name + "._buf", "byte", "bytearray"))
    n = c.int(name + "._buflen")
    b = c.obj("Buffer", "py7zr.io", _buf=raw, _buflen=n, view=c.bytes(name + ".view"))
    return b, raw


def buf_inv(c, b):
    raw = c.raw(b, "_buf")
    content = c.view(raw)
    n = c.f(b, "_buflen")
    return And(n >= 0, n <= L(content), eq(c.f(b, "view"), slice_(content, 0, n)))


def buf_content(c, b):
    return c.f(b, "view")


class _AES(Contract):
    replayable = False
    props = ("C01", "C11")
    assumptions = ("Cryptodome AES-CBC: encrypt/decrypt require a multiple of 16 bytes, return as many bytes, and chunked calls continue one CBC stream (assumed contract); memoryview of a fresh bytearray slice is a snapshot",)

    def _self(self, c, cls):
        b, raw = mk_buffer(c)
        ciph = c.cipher()
        return c.obj(cls, "py7zr.compressor", buf=b, cipher=ciph), b, ciph

    def _inv(self, c, self_):
        b = c.raw(self_, "buf")
        return [("buffer-consistent", buf_inv(c, b)), ("residue-shorter-than-a-block", L(buf_content(c, b)) < 16), ("cipher-fed-whole-blocks", L(c.f(c.raw(self_, "cipher"), "fed")) % 16 == 0)]

    def _post_common(self, c, old, result, self_, data, padded=False):
        b = c.raw(self_, "buf")
        ciph = c.raw(self_, "cipher")
        fed0, fed1 = old.f(ciph, "fed"), c.f(ciph, "fed")
        out0, out1 = old.f(ciph, "out"), c.f(ciph, "out")
        pend0, pend1 = old.f(b, "view"), c.f(b, "view")
        return [
            ("order-preserved", eq(cat(fed1, pend1), cat(fed0, pend0, data))),
            ("returns-exactly-what-the-cipher-produced", eq(cat(out0, result), out1)),
        ] + [("inv." + l, f) for l, f in self._inv(c, self_)]


@contract
class AESCompress(_AES):
    """every plaintext byte goes through the cipher exactly once and in order; fewer than 16 bytes stay pending"""

    target = CP + "AESCompressor.compress"

    def setup(self, c):
        s, b, ciph = self._self(c, "AESCompressor")
        return {"self_": s, "data": c.bytes("data")}

    def requires(self, c, self_, data):
        return self._inv(c, self_)

    def modifies(self, c, self_, data):
        return []

    def ensures(self, c, old, result, self_, data):
        return self._post_common(c, old, result, self_, data)


@contract
class AESFlush(_AES):
    """flush pads the pending bytes with zeros to a whole block and encrypts them; nothing stays pending"""

    target = CP + "AESCompressor.flush"

    def setup(self, c):
        s, b, ciph = self._self(c, "AESCompressor")
        return {"self_": s}

    def requires(self, c, self_):
        return self._inv(c, self_)

    def ensures(self, c, old, result, self_):
        b = c.raw(self_, "buf")
        ciph = c.raw(self_, "cipher")
        fed0, fed1 = old.f(ciph, "fed"), c.f(ciph, "fed")
        pend0 = old.f(b, "view")
        pad = slice_(fed1, L(fed0) + L(pend0), None)
        return [
            ("pending-bytes-encrypted-in-order", eq(slice_(fed1, 0, L(fed0) + L(pend0)), cat(fed0, pend0))),
            ("padded-to-a-whole-block", And(L(fed1) % 16 == 0, L(pad) < 16, L(pad) == ite(L(pend0) > 0, (16 - L(pend0) % 16) % 16, 0))),
            ("padding-is-zero", ForAll(lambda k: nth(pad, k) == 0, guard=lambda k: And(k >= 0, k < L(pad)), over=pad)),
            ("nothing-left-pending", L(c.f(b, "view")) == 0),
            ("returns-exactly-what-the-cipher-produced", eq(cat(old.f(ciph, "out"), result), c.f(ciph, "out"))),
        ]


@contract
class AESDecompress(_AES):
    """decryption for EVERY chunking of the ciphertext (block sizes below 16 included): bytes reach the cipher once,
    in order, in whole blocks; an empty call pads and drains the residue"""

    target = CP + "AESDecompressor.decompress"

    def setup(self, c):
        s, b, ciph = self._self(c, "AESDecompressor")
        return {"self_": s, "data": c.bytes("data"), "max_length": c.int("max_length")}

    def requires(self, c, self_, data, max_length):
        return self._inv(c, self_)

    def ensures(self, c, old, result, self_, data, max_length):
        b = c.raw(self_, "buf")
        ciph = c.raw(self_, "cipher")
        fed0, fed1 = old.f(ciph, "fed"), c.f(ciph, "fed")
        pend0, pend1 = old.f(b, "view"), c.f(b, "view")
        nonempty = L(data) > 0
        return [
            ("order-preserved", Implies(nonempty, eq(cat(fed1, pend1), cat(fed0, pend0, data)))),
            ("drain-pads-and-empties", Implies(Not(nonempty), And(L(pend1) == 0, eq(slice_(fed1, 0, L(fed0) + L(pend0)), cat(fed0, pend0))))),
            ("returns-exactly-what-the-cipher-produced", eq(cat(old.f(ciph, "out"), result), c.f(ciph, "out"))),
        ] + [("inv." + l, f) for l, f in self._inv(c, self_)]
