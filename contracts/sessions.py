"""SevenZipFile read-session methods (py7zr/py7zr.py): _read_digest, test, testzip, reset - C04, C05, C12."""
try:
    import z3
except Exception:  # concrete-only interpreter
    z3 = None

from pyvc.contract import Contract, ForAll, LoopSpec, RaiseSpec, contract
from pyvc.values import And, Implies, Not, Or, L, ite, nth, slice_, eq, SBool, SInt, SOpq, truthy
from pyvc import values as V
from spec import crc as CRC

PY = "py7zr.py7zr:"


def mk_archive(c, with_streams=True):
    """a SevenZipFile object in read mode as far as test()/_read_digest() look at it"""
    fp = c.instream("fp")
    packinfo = c.obj("PackInfo", "py7zr.archiveinfo", packpos=c.int("packpos"), numstreams=c.int("numstreams"), packsizes=c.int_list("packsizes"), crcs=c.int_list("crcs"), digestdefined=c.bool_list("digestdefined"), enable_digests=c.bool("enable_digests"))
    ms = c.obj("StreamsInfo", "py7zr.archiveinfo", packinfo=packinfo, unpackinfo=c.opq("unpackinfo"), substreamsinfo=c.opq("substreamsinfo"))
    header = c.obj("Header", "py7zr.archiveinfo", main_streams=ms, files_info=c.opq("files_info"))
    self_ = c.obj("SevenZipFile", "py7zr.py7zr", fp=fp, afterheader=c.int("afterheader"), header=header, files=c.opq("files"), mp=c.bool("mp"), _block_size=c.int("_block_size"), worker=c.opq("worker"), mode="r", password_protected=c.bool("password_protected"), _filePassed=c.bool("_filePassed"))
    return self_, fp, packinfo


@contract
class ReadDigest(Contract):
    """CRC32 of exactly the `size` bytes starting at `pos`, read in blocks; terminates for every size and block size >= 1"""

    target = PY + "SevenZipFile._read_digest"
    props = ("C04", "C05", "C12")
    abstract = True  # only for the object graph; the arithmetic is exact
    opaque = ()
    sample_bounds = {"_block_size": (1, 9), "pos": (0, 20), "size": (0, 40)}
    replayable = True

    def setup(self, c):
        self_, fp, _ = mk_archive(c)
        return {"self_": self_, "pos": c.int("pos"), "size": c.int("size")}

    def requires(self, c, self_, pos, size):
        return [("block-size-positive", c.f(self_, "_block_size") >= 1), ("pos-nonneg", pos >= 0), ("size-nonneg", size >= 0)]

    def modifies(self, c, self_, pos, size):
        return [(c.raw(self_, "fp"), "pos")]

    def fresh_result(self, c, self_, pos, size):
        return c.int("digest")

    def ensures(self, c, old, result, self_, pos, size):
        fp = c.raw(self_, "fp")
        d = old.data(fp)
        n = ite(size > 0, size, 0)
        return [
            ("crc-of-the-declared-range", result == CRC.crc(slice_(d, pos, pos + n), 0)),
            ("range", And(result >= 0, result < (1 << 32))),
            ("file-unchanged", eq(c.data(fp), d)),
        ]

    def loops(self):
        def inv(c, Lp):
            b = c.bound
            fp = c.raw(b["self_"], "fp")
            d = c.old.data(fp)
            size, pos = b["size"], b["pos"]
            rem = Lp.local("remaining_size")
            done = ite(size > 0, size, 0) - rem
            return [
                ("remaining", And(rem >= 0, rem <= ite(size > 0, size, 0))),
                ("position", c.pos(fp) == V.min_(pos + done, V.max_(L(d), pos))),
                ("digest-prefix", Lp.local("digest") == CRC.crc(slice_(d, pos, pos + done), 0)),
                ("file-unchanged", eq(c.data(fp), d)),
            ]

        def step(c, Lp):
            b = c.bound
            fp = c.raw(b["self_"], "fp")
            d = c.old.data(fp)
            size, pos = b["size"], b["pos"]
            rem = Lp.local("remaining_size")
            done = ite(size > 0, size, 0) - rem
            blk = V.min_(c.f(b["self_"], "_block_size"), rem)
            a, nx = slice_(d, pos, pos + done), slice_(d, pos + done, pos + done + blk)
            return [CRC.concat_axiom(a, nx, 0)]

        def variant(c, Lp):
            return Lp.local("remaining_size")

        return {"py7zr:SevenZipFile._read_digest#loop0": LoopSpec("while-remaining", inv, variant=variant, unfold_step=step, target="remaining_size > 0")}


def PS(i):
    """prefix sum of packsizes[0:i] (fold; unfolded at each loop step)"""
    return SInt(V.uf("packsizes_prefix_sum", z3.IntSort(), z3.IntSort())(V._zi(i)))


def RANK(i):
    """number of defined digests before stream i"""
    return SInt(V.uf("defined_digests_before", z3.IntSort(), z3.IntSort())(V._zi(i)))


@contract
class TestPacked(Contract):
    """test() returns True only if every packed stream with a defined digest was read at
    afterheader + packpos + sum(previous pack sizes), over exactly its pack size, and its CRC32 equals the stored one"""

    target = PY + "SevenZipFile.test"
    props = ("C04", "C12", "C05")
    abstract = True
    assumptions = ("Worker(...) construction has no effect on the archive file object",)

    def setup(self, c):
        self_, fp, packinfo = mk_archive(c)
        return {"self_": self_, "_packinfo": packinfo, "_fp": fp}

    def call_args(self, bound):
        return [bound["self_"]], {}

    def requires(self, c, self_, _packinfo, _fp):
        ps = c.f(_packinfo, "packsizes")
        return [
            ("block-size-positive", c.f(self_, "_block_size") >= 1),
            ("offsets-nonneg", And(c.f(self_, "afterheader") >= 0, c.f(_packinfo, "packpos") >= 0)),
            ("sizes-nonneg", ForAll(lambda k: nth(ps, k) >= 0, guard=lambda k: And(k >= 0, k < L(ps)), over=ps)),
        ]

    def raises(self):
        return [RaiseSpec("IndexError"), RaiseSpec("Exception")]

    def modifies(self, c, self_, _packinfo, _fp):
        return [(_fp, "pos"), (self_, "worker")]

    def fresh_result(self, c, **b):
        return c.opq("verdict")

    def ensures(self, c, old, result, self_, _packinfo, _fp):
        d = old.data(_fp)
        ps, crcs, dd = c.f(_packinfo, "packsizes"), c.f(_packinfo, "crcs"), c.f(_packinfo, "digestdefined")
        base = c.f(self_, "afterheader") + c.f(_packinfo, "packpos")
        is_true = eq(result, True) if not isinstance(result, SOpq) else eq(result, True)

        def matched(k):
            off = base + PS(k)
            return CRC.crc(slice_(d, off, off + nth(ps, k)), 0) == nth(crcs, RANK(k))

        return [
            ("true-means-every-defined-digest-matched", ForAll(matched, guard=lambda k: And(result is True, k >= 0, k < L(dd), nth(dd, k)), over=dd)),
            ("no-digests-means-none", Implies(L(crcs) == 0, result is None)),
            ("archive-bytes-unchanged", eq(c.data(_fp), d)),
        ]

    def loops(self):
        def inv(c, Lp):
            b = c.bound
            self_, pk, fp = b["self_"], b["_packinfo"], b["_fp"]
            d = c.old.data(fp)
            ps, crcs, dd = c.f(pk, "packsizes"), c.f(pk, "crcs"), c.f(pk, "digestdefined")
            base = c.f(self_, "afterheader") + c.f(pk, "packpos")
            i = Lp.i
            j = Lp.local("j")

            def matched(k):
                off = base + PS(k)
                return CRC.crc(slice_(d, off, off + nth(ps, k)), 0) == nth(crcs, RANK(k))

            return [
                ("offset", And(Lp.local("packpos") == base + PS(i), PS(i) >= 0)),
                ("rank", And(j == RANK(i), j >= 0, j <= i)),
                ("matched-so-far", ForAll(matched, guard=lambda k: And(k >= 0, k < i, nth(dd, k)), over=dd)),
                ("archive-bytes-unchanged", eq(c.data(fp), d)),
            ]

        def init(c, Lp):
            return [PS(0) == 0, RANK(0) == 0]

        def step(c, Lp):
            pk = c.bound["_packinfo"]
            ps, dd = c.f(pk, "packsizes"), c.f(pk, "digestdefined")
            i = Lp.i
            return [Implies(i < L(ps), PS(i + 1) == PS(i) + nth(ps, i)), RANK(i + 1) == RANK(i) + ite(nth(dd, i), 1, 0)]

        return {"py7zr:SevenZipFile.test#loop0": LoopSpec("for-i-d", inv, target="(i, d) in enumerate(digestdefined)", unfold_init=init, unfold_step=step)}


from contracts.extract import attr, item  # noqa: E402


def attr_now(c, o, name):
    """current value of attribute `name` of opaque object o (consults the engine's write log)"""
    from pyvc import builtins_model as B

    return B.get_attr(c.eng, o, name, None)


@contract
class Reset(Contract):
    """after reset() the read session is in the state of a freshly opened archive: the file is positioned at the start
    of the packed streams, a new worker without registered targets is installed and NO folder keeps a decoder"""

    target = PY + "SevenZipFile.reset"
    props = ("C12",)
    abstract = True
    stable_attrs = ("header", "main_streams", "unpackinfo", "folders", "numfolders", "fp", "afterheader", "files", "mp", "mode")
    noraise = ("Worker", "seek")
    frame_preserving = ("seek", "Worker")
    assumptions = ("Worker(...) construction and fp.seek do not touch folder objects",)

    def setup(self, c):
        me = c.opq("self")
        c.assume(eq(attr(me, "mode"), "r"))
        return {"self_": me}

    def raises(self):
        return [RaiseSpec("Exception")]

    def ensures(self, c, old, result, self_):
        eng = c.eng
        if eng.ctx_mode == "assume":
            return []
        folders = attr(attr(attr(attr(self_, "header"), "main_streams"), "unpackinfo"), "folders")
        n = SInt(V.uf("len", V.vsort(), z3.IntSort(), z3.IntSort())(folders.t, z3.IntVal(0)))
        seeks = [e for e in eng.trace if e.kind == "call" and e.name == "seek"]
        workers = [e for e in eng.trace if e.kind == "call" and e.name.endswith("Worker")]
        sets = [e for e in eng.trace if e.kind == "setattr" and e.name == "worker"]
        ms = attr(attr(self_, "header"), "main_streams")
        has_folders = And(Not(eq(ms, None)), SBool(V.uf("cmp_Gt", V.vsort(), V.vsort(), z3.BoolSort())(attr(attr(ms, "unpackinfo"), "numfolders").t, V.box(0).t)))
        return [
            ("repositioned-at-start-of-packed-streams", bool(seeks) and And(eq(seeks[-1].recv, attr(self_, "fp")), eq(seeks[-1].args[0], attr(self_, "afterheader")))),
            ("new-worker-installed", bool(workers and sets) and eq(sets[-1].args[0], workers[-1].result)),
            ("no-folder-keeps-a-decoder", ForAll(lambda k: eq(attr_now(c, item(folders, k), "decompressor"), None), guard=lambda k: And(has_folders, k >= 0, k < n), n=n)),
        ]

    def loops(self):
        def inv(c, Lp):
            me = c.bound["self_"]
            folders = attr(attr(attr(attr(me, "header"), "main_streams"), "unpackinfo"), "folders")
            i = Lp.i
            return [("cleared-so-far", ForAll(lambda k: eq(attr_now(c, item(folders, k), "decompressor"), None), guard=lambda k: And(k >= 0, k < i), n=i))]

        return {"py7zr:SevenZipFile.reset#loop0": LoopSpec("for-i-folder", inv)}  # the invariant mentions no local variable: no text anchor needed


@contract
class TestZip(Contract):
    """testzip() is right at any point of a session: it starts from fresh decoders, positions the file, registers no
    target for any member, decodes every member (skip_notarget=False) and only uses the parallel path for archives
    opened by name"""

    target = PY + "SevenZipFile.testzip"
    props = ("C12", "C04")
    abstract = True
    stable_attrs = ("header", "main_streams", "unpackinfo", "folders", "numfolders", "fp", "afterheader", "files", "mp", "password_protected", "_filePassed", "id", "args")
    noraise = ("Worker", "seek", "register_filelike")
    frame_preserving = ("seek", "Worker", "register_filelike")

    def setup(self, c):
        return {"self_": c.opq("self")}

    def raises(self):
        return [RaiseSpec("Exception")]

    def ensures(self, c, old, result, self_):
        eng = c.eng
        if eng.ctx_mode == "assume":
            return []
        ex = [e for e in eng.trace if e.kind == "call" and e.name == "extract"]
        out = [("decodes-through-the-worker-once", len(ex) == 1)]
        if len(ex) == 1:
            e = ex[0]
            par = e.kwargs.get("parallel")
            out.append(("every-member-is-decoded", e.kwargs.get("skip_notarget") is False))
            out.append(("parallel-only-for-named-unprotected-archives", Implies(par, And(Not(truthy(attr(self_, "password_protected"))), Not(truthy(attr(self_, "_filePassed"))))) if par is not None else False))
            out.append(("no-output-path", e.args[1] is None))
        return out

    def hooks(self):
        def on_extract(c, ev):
            me = c.bound["self_"]
            folders = attr(attr(attr(attr(me, "header"), "main_streams"), "unpackinfo"), "folders")
            n = SInt(V.uf("len", V.vsort(), z3.IntSort(), z3.IntSort())(folders.t, z3.IntVal(0)))
            ms = attr(attr(me, "header"), "main_streams")
            has_folders = And(Not(eq(ms, None)), SBool(V.uf("cmp_Gt", V.vsort(), V.vsort(), z3.BoolSort())(attr(attr(ms, "unpackinfo"), "numfolders").t, V.box(0).t)))
            c.eng.prove_item("assert", "decoding-starts-from-fresh-decoders@extract", ForAll(lambda k: eq(attr_now(c, item(folders, k), "decompressor"), None), guard=lambda k: And(has_folders, k >= 0, k < n), n=n), props=("C12",), assume_after=False)
            seeks = [e for e in c.eng.trace if e.kind == "call" and e.name == "seek"]
            c.oblig("assert", "file-positioned-at-start-of-packed-streams@extract", bool(seeks) and eq(seeks[-1].args[0], attr(me, "afterheader")), props=("C12",))

        return {("call", "extract"): [on_extract]}

    def loops(self):
        def inv0(c, Lp):
            me = c.bound["self_"]
            folders = attr(attr(attr(attr(me, "header"), "main_streams"), "unpackinfo"), "folders")
            i = Lp.i
            return [("fresh-decoders-so-far", ForAll(lambda k: eq(attr_now(c, item(folders, k), "decompressor"), None), guard=lambda k: And(k >= 0, k < i), n=i))]

        def inv1(c, Lp):
            return []

        def asserts1(c, Lp):
            eng = c.eng
            regs = [e for e in eng.trace[Lp.trace_mark:] if e.kind == "call" and e.name == "register_filelike"]
            return [("member-registered-without-target", len(regs) == 1 and regs[0].args[1] is None)]

        return {
            "py7zr:SevenZipFile.testzip#loop0": LoopSpec("for-folder", inv0),
            "py7zr:SevenZipFile.testzip#loop1": LoopSpec("for-f", inv1, target="f in self.files", asserts=asserts1),
        }
