"""Contracts for calculate_crc32 (helpers) and SignatureHeader (archiveinfo) - C04, C07, C14."""
from pyvc.contract import Contract, ForAll, LoopSpec, RaiseSpec, contract
from pyvc.values import And, Implies, Not, Or, L, ite, nth, slice_, eq, cat, to_bytes_le
from pyvc import values as V
from spec import primitives as SP
from spec import crc as CRC

AI = "py7zr.archiveinfo:"
MAGIC = b"7z\xbc\xaf\x27\x1c"  # docs/archive_format.rst: signature '7', 'z', 0xBC, 0xAF, 0x27, 0x1C


@contract
class CalculateCrc32(Contract):
    """== CRC-32 of the whole data continued from `value`, for every block size >= 1"""

    target = "py7zr.helpers:calculate_crc32"
    props = ("C04", "C07", "C01")
    sample_bounds = {"blocksize": (1, 40), "value": (0, (1 << 32) - 1)}

    def setup(self, c):
        return {"data": c.bytes("data"), "value": c.int("value"), "blocksize": c.int("blocksize")}

    def requires(self, c, data, value, blocksize):
        return [("blocksize-positive", blocksize >= 1), ("seed-32-bits", And(value >= 0, value < (1 << 32)))]

    def fresh_result(self, c, data, value, blocksize):
        return c.int("crc")

    def ensures(self, c, old, result, data, value, blocksize):
        data = c.view(data)  # a bytearray argument is used by value
        return [("equals-crc32", result == CRC.crc(data, value)), ("range", And(result >= 0, result < (1 << 32)))]

    def loops(self):
        def inv(c, Lp):
            b = c.bound
            data, value0 = b["data"], b["value"]
            pos = Lp.local("pos")
            val = Lp.local("value")
            return [
                ("pos", And(pos >= 0, pos >= b["blocksize"])),
                ("partial", val == CRC.crc(slice_(data, 0, V.min_(pos, L(data))), value0)),
            ]

        def step(c, Lp):
            b = c.bound
            data = b["data"]
            pos = Lp.local("pos")
            bs = b["blocksize"]
            a = slice_(data, 0, pos)
            nxt = slice_(data, pos, pos + bs)
            return [CRC.concat_axiom(a, nxt, b["value"]), eq(V.concat(a, nxt), slice_(data, 0, V.min_(pos + bs, L(data))))]

        def variant(c, Lp):
            return L(c.bound["data"]) - Lp.local("pos")

        return {"helpers:calculate_crc32#loop0": LoopSpec("while-pos", inv, variant=variant, unfold_step=step, target="pos < length")}


@contract
class SigCalcCrc(Contract):
    """startheadercrc = CRC32(nextheaderofs || nextheadersize || nextheadercrc) as UINT64/UINT64/UINT32 little endian"""

    target = AI + "SignatureHeader.calccrc"
    props = ("C07", "C14", "C04")
    sample_bounds = {"ofs": (0, (1 << 64) - 1), "length": (0, (1 << 64) - 1), "header_crc": (0, (1 << 32) - 1)}

    def setup(self, c):
        self_ = c.obj("SignatureHeader", "py7zr.archiveinfo", version=(b"\x00", b"\x04"), startheadercrc=-1, nextheaderofs=c.int("ofs"), nextheadersize=-1, nextheadercrc=-1)
        return {"self_": self_, "length": c.int("length"), "header_crc": c.int("header_crc")}

    def requires(self, c, self_, length, header_crc):
        return [("offset-64-bits", And(c.f(self_, "nextheaderofs") >= 0, c.f(self_, "nextheaderofs") < (1 << 64))), ("size-64-bits", And(length >= 0, length < (1 << 64))), ("crc-32-bits", And(header_crc >= 0, header_crc < (1 << 32)))]

    def modifies(self, c, self_, length, header_crc):
        return [(self_, "nextheadersize"), (self_, "nextheadercrc"), (self_, "startheadercrc")]

    def ensures(self, c, old, result, self_, length, header_crc):
        ofs = old.f(self_, "nextheaderofs")
        fields = cat(to_bytes_le(ofs, 8), to_bytes_le(length, 8), to_bytes_le(header_crc, 4))
        return [
            ("size-stored", c.f(self_, "nextheadersize") == length),
            ("crc-stored", c.f(self_, "nextheadercrc") == header_crc),
            ("offset-kept", c.f(self_, "nextheaderofs") == ofs),
            ("start-header-crc", c.f(self_, "startheadercrc") == CRC.crc(fields, 0)),
        ]


def sig_layout(version0, version1, shcrc, ofs, size, hcrc):
    return cat(MAGIC, version0, version1, to_bytes_le(shcrc, 4), to_bytes_le(ofs, 8), to_bytes_le(size, 8), to_bytes_le(hcrc, 4))


@contract
class SigWrite(Contract):
    """the 32 bytes of the signature header, laid out as the format's table says, written at offset 0"""

    target = AI + "SignatureHeader.write"
    props = ("C07", "C14")
    assert_mode = "raise"
    ostream_seek_ok = True
    sample_bounds = {"v0": ("len", 1), "v1": ("len", 1), "shcrc": (-1, (1 << 32) - 1), "hcrc": (-1, (1 << 32) - 1), "ofs": (-1, (1 << 64) - 1), "size": (-1, (1 << 64) - 1)}

    def setup(self, c):
        self_ = c.obj("SignatureHeader", "py7zr.archiveinfo", version=(c.bytes("v0"), c.bytes("v1")), startheadercrc=c.int("shcrc"), nextheaderofs=c.int("ofs"), nextheadersize=c.int("size"), nextheadercrc=c.int("hcrc"))
        return {"self_": self_, "file": c.outstream("file")}

    def requires(self, c, self_, file):
        v = c.f(self_, "version")
        return [
            ("version-bytes", And(L(v[0]) == 1, L(v[1]) == 1)),
            ("crc-32-bits", And(c.f(self_, "startheadercrc") < (1 << 32), c.f(self_, "nextheadercrc") < (1 << 32))),
            ("ofs-size-64-bits", And(c.f(self_, "nextheaderofs") < (1 << 64), c.f(self_, "nextheadersize") < (1 << 64))),
        ]

    def raises(self):
        return [RaiseSpec("AssertionError", when=lambda c, self_, file: Or(c.old.f(self_, "startheadercrc") < 0, c.old.f(self_, "nextheadercrc") < 0, c.old.f(self_, "nextheaderofs") < 0, c.old.f(self_, "nextheadersize") <= 0), iff=True)]

    def modifies(self, c, self_, file):
        return [(file, "out")]

    def ensures(self, c, old, result, self_, file):
        v = c.f(self_, "version")
        app = c.appended(old, file)
        return [
            ("thirty-two-bytes", L(app) == 32),
            ("layout", eq(app, sig_layout(v[0], v[1], c.f(self_, "startheadercrc"), c.f(self_, "nextheaderofs"), c.f(self_, "nextheadersize"), c.f(self_, "nextheadercrc")))),
            ("written-at-offset-0", c.seeks(file) == [0]),
        ]


@contract
class SigWriteSkeleton(Contract):
    """placeholder signature header: fields (1, 2, 3, 4) - its CRC field cannot verify (lemma C14/placeholder)"""

    target = AI + "SignatureHeader._write_skeleton"
    props = ("C14", "C07")
    ostream_seek_ok = True
    sample_bounds = {"v0": ("len", 1), "v1": ("len", 1)}

    def setup(self, c):
        self_ = c.obj("SignatureHeader", "py7zr.archiveinfo", version=(c.bytes("v0"), c.bytes("v1")), startheadercrc=-1, nextheaderofs=-1, nextheadersize=-1, nextheadercrc=-1)
        return {"self_": self_, "file": c.outstream("file")}

    def requires(self, c, self_, file):
        v = c.f(self_, "version")
        return [("version-bytes", And(L(v[0]) == 1, L(v[1]) == 1))]

    def modifies(self, c, self_, file):
        return [(file, "out")]

    def ensures(self, c, old, result, self_, file):
        v = c.f(self_, "version")
        app = c.appended(old, file)
        return [("thirty-two-bytes", L(app) == 32), ("placeholder-layout", eq(app, sig_layout(v[0], v[1], 1, 2, 3, 4))), ("written-at-offset-0", c.seeks(file) == [0])]


@contract
class SigRead(Contract):
    """normal exit  =>  the stored start-header CRC equals the CRC of the 20 bytes that follow it (C04);
    fields are read from the offsets the format's table gives"""

    target = AI + "SignatureHeader._read"
    props = ("C04", "C06", "C14", "C05")
    assumptions = ("zlib.crc32 streaming homomorphism crc(a++b, i) = crc(b, crc(a, i)) (assumed contract, instantiated explicitly)",)

    def setup(self, c):
        self_ = c.obj("SignatureHeader", "py7zr.archiveinfo", version=(b"\x00", b"\x04"), startheadercrc=-1, nextheaderofs=-1, nextheadersize=-1, nextheadercrc=-1)
        return {"self_": self_, "file": c.instream("file")}

    def raises(self):
        return [RaiseSpec("struct.error", when=lambda c, self_, file: L(c.old.data(file)) < 32), RaiseSpec("Bad7zFile")]

    def modifies(self, c, self_, file):
        return [(self_, "version"), (self_, "startheadercrc"), (self_, "nextheaderofs"), (self_, "nextheadersize"), (self_, "nextheadercrc"), (file, "pos")]

    def ensures(self, c, old, result, self_, file):
        d = old.data(file)
        # CRC32 streaming homomorphism (assumed contract of zlib.crc32, DESIGN.md 6.4), instantiated for the three fields
        a, b2, c3 = slice_(d, 12, 20), slice_(d, 20, 28), slice_(d, 28, 32)
        c.assume(CRC.concat_axiom(a, b2, 0))
        c.assume(CRC.concat_axiom(V.concat(a, b2), c3, 0))
        c.lemma("slices-tile-the-20-bytes", Implies(L(d) >= 32, And(eq(V.concat(a, b2), slice_(d, 12, 28)), eq(V.concat(V.concat(a, b2), c3), slice_(d, 12, 32)))))
        return [
            ("complete-header-present", L(d) >= 32),
            ("start-header-crc-verified", SP.uint32_le(d, 8) == CRC.crc(slice_(d, 12, 32), 0)),
            ("fields", And(c.f(self_, "startheadercrc") == SP.uint32_le(d, 8), c.f(self_, "nextheaderofs") == SP.uint64_le(d, 12), c.f(self_, "nextheadersize") == SP.uint64_le(d, 20), c.f(self_, "nextheadercrc") == SP.uint32_le(d, 28))),
            ("position-after-header", c.pos(file) == 32),
        ]
