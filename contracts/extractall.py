"""SevenZipFile._extract (py7zr/py7zr.py), abstract mode: every path handed to a filesystem sink is the result of
get_sanitized_output_path against the absolute destination (C03); 'pre' is the first and 'post' the last progress
event (C18); the metadata post-pass only touches registered outputs (C03, C02)."""
try:
    import z3
except Exception:
    z3 = None

from pyvc.contract import Contract, ForAll, LoopSpec, RaiseSpec, contract
from pyvc.values import And, Implies, Not, Or, eq, SBool, SInt, SOpq, truthy
from pyvc import values as V
from contracts.extract import attr

PY = "py7zr.py7zr:"


def san(x):
    """ghost predicate: x is a value returned by get_sanitized_output_path(name, <absolute destination or None>)"""
    if x is None:
        return False
    return SBool(V.uf("san", V.vsort(), z3.BoolSort())(x.t))


def seqv(x):
    return V.to_seq(list(x), elem="opq", py="list") if isinstance(x, (tuple, list)) else x


def item0(e):
    return SOpq(V.uf("item", V.vsort(), z3.IntSort(), V.vsort())(e.t, z3.IntVal(0)))


@contract
class ExtractAll(Contract):
    target = PY + "SevenZipFile._extract"
    props = ("C03", "C18", "C02", "C09")
    abstract = True
    opaque = ("helpers:get_sanitized_output_path",)  # its own contract: contracts/paths.py (lexically inside, no '..')
    pure = ("get_sanitized_output_path", "as_posix", "str", "is_absolute", "joinpath", "pathlib.Path", "getcwd", "MemIO", "file_properties", "set", "sorted", "isinstance")
    stable_attrs = ("files", "worker", "q", "fp", "password_protected", "_filePassed", "filename", "id", "is_directory", "is_socket", "is_symlink", "is_junction", "reporterd")
    frame_preserving = ("put", "register_filelike", "exists", "append", "start", "Thread")
    noraise = ("put", "register_filelike", "append")
    int_functions = ("totimestamp",)  # ArchiveTimestamp.totimestamp() returns a number (never None); its value is arbitrary here
    assumptions = (
        "abstract mode: pathlib / os.getcwd / MemIO construction are pure; ArchiveFile properties are stable",
        "get_sanitized_output_path(name, base) returns only paths lexically inside canonical(base) without '..' (its contract, proved separately)",
    )

    def setup(self, c):
        case = c.choice(3)
        path = None if case == 0 else c.opq("path")
        if path is not None:
            c.assume(Not(eq(path, None)))
            c.assume(SBool(V.uf("isinstance_str", V.vsort(), z3.BoolSort())(path.t)) == False)  # noqa: E712  (a str is converted first; that conversion is pathlib's)
        cb = c.choice(2)
        callback = None if cb == 0 else c.opq("callback")
        if callback is not None:
            c.assume(Not(eq(callback, None)))
        wf = None if case != 2 else c.opq("writer_factory")
        if wf is not None:
            c.assume(Not(eq(wf, None)))
        c.eng.ghost["sanitized"] = []
        return {"self_": c.opq("self"), "path": path, "targets": c.opq("targets"), "callback": callback, "recursive": c.opq("recursive"), "writer_factory": wf}

    def raises(self):
        return [RaiseSpec("Exception")]

    def pure_function(self, name):
        if str(name).split(":")[-1].split(".")[-1] == "sorted":
            def model(ctx, recv, args, kwargs):
                # sorted() returns a permutation: a predicate that holds of every element of the argument holds of every
                # element of the result (used for `san` only; proved of the argument here, assumed of the result)
                eng = ctx.eng
                src = seqv(ctx.view(args[0]))
                eng.prove_item("assert", "every-directory-to-create-is-sanitised@sorted", ForAll(lambda k: Implies(And(k >= 0, k < V.L(src)), san(V.nth(src, k))), over=src), props=("C03",), assume_after=False)
                r = eng.fresh_seq("sorted_dirs", "opq", "list")
                eng.assume(V.L(r) == V.L(src))
                eng.register_forall(ForAll(lambda k: Implies(And(k >= 0, k < V.L(r)), san(V.nth(r, k))), over=r))
                return r

            return model
        return Contract.pure_function(self, name)

    def hooks(self):
        def on_san(c, ev):
            eng = c.eng
            path = c.bound["path"]
            base = ev.args[1]
            # the destination handed to the sanitiser is absolute (or None = current directory)
            if path is None:
                ok = base is None
            else:
                isabs = [e for e in eng.trace if e.kind == "pure" and e.name.endswith("is_absolute") and e.recv is path]
                joined = [e for e in eng.trace if e.kind == "pure" and e.name.endswith("joinpath") and e.result is base]
                ok = Or(And(bool(isabs), truthy(isabs[-1].result) if isabs else False, bool(base is path)), bool(joined and joined[-1].args[0] is path))
            c.oblig("assert", "destination-is-absolute-or-cwd@get_sanitized_output_path", ok, props=("C03",))
            c.assume(san(ev.result))

        def on_register(c, ev):
            eng = c.eng
            x = ev.args[1]
            if x is None:
                good = True
            else:
                mem = [e for e in eng.trace if e.kind == "pure" and e.name.endswith("MemIO") and e.result is x]
                if mem:
                    # in-memory writer: the name handed over is the posix form of a sanitised path
                    nm = mem[-1].args[0]
                    src = [e for e in eng.trace if e.kind == "pure" and e.name.endswith("as_posix") and e.result is nm]
                    good = san(src[-1].recv) if src else False
                else:
                    good = san(x)
            c.oblig("assert", "registered-paths-are-sanitised@register_filelike", good, props=("C03",))

        def on_put(c, ev):
            c.eng.ghost.setdefault("puts", []).append(ev)

        def on_sink(c, ev):
            # mkdir / chmod / stat in _extract itself: only on the destination or on sanitised paths
            r = ev.recv
            ok = True if r is c.bound["path"] else san(r)
            c.oblig("assert", "sink-on-destination-or-sanitised-path@%s" % ev.name.split(".")[-1], ok, props=("C03", "C02"))

        def on_utime(c, ev):
            eng = c.eng
            x = ev.args[0]
            # the engine's model of str(p) for an opaque p is the term str(p): utime's argument must be str(<sanitised path>)
            inner = SOpq(x.t.arg(0)) if isinstance(x, SOpq) and x.t.decl().name() == "str" and x.t.num_args() == 1 else None
            c.oblig("assert", "utime-on-sanitised-path@utime", san(inner) if inner is not None else False, props=("C03", "C02"))
            t = ev.kwargs.get("times")
            c.oblig("assert", "utime-sets-atime-and-mtime-to-the-stored-time@utime", bool(isinstance(t, tuple) and len(t) == 2 and t[0] is t[1]), props=("C02",))

        return {
            ("pure", "get_sanitized_output_path"): [on_san],
            ("call", "register_filelike"): [on_register],
            ("call", "put"): [on_put],
            ("call", "mkdir"): [on_sink],
            ("call", "chmod"): [on_sink],
            ("call", "utime"): [on_utime],
        }

    def loops(self):
        def inv0(c, Lp):
            tf = seqv(c.local("target_files"))
            td = seqv(c.local("target_dirs"))
            return [
                ("post-pass-targets-are-sanitised", ForAll(lambda k: Implies(And(k >= 0, k < V.L(tf)), san(item0(V.nth(tf, k)))), over=tf)),
                ("directories-to-create-are-sanitised", ForAll(lambda k: Implies(And(k >= 0, k < V.L(td)), san(V.nth(td, k))), over=td)),
            ]

        def noinv(c, Lp):
            return []

        def restore_asserts(c, Lp):
            # C02: whenever the member has a stored modification time (totimestamp() returned), that very value is
            # handed to os.utime - whatever the value is (also 0.0 = the epoch)
            evs = c.eng.trace[Lp.trace_mark:]
            stamps = [e for e in evs if e.kind == "call" and e.name.endswith("totimestamp")]
            ut = [e for e in evs if e.kind == "call" and e.name.endswith("utime")]
            if not stamps:
                return [("no-time-restored-without-a-stored-time", len(ut) == 0)]
            t = ut[-1].kwargs.get("times") if ut else None
            return [("stored-time-is-restored", bool(len(ut) == 1 and isinstance(t, tuple) and len(t) == 2 and t[0] is stamps[-1].result and t[1] is stamps[-1].result))]

        return {
            "py7zr:SevenZipFile._extract#loop0": LoopSpec("for-f", inv0, cells={"target_files": "opq", "target_dirs": "opq"}),
            "py7zr:SevenZipFile._extract#loop1": LoopSpec("for-target_dir", noinv),
            "py7zr:SevenZipFile._extract#loop2": LoopSpec("for-outfilename", noinv, asserts=restore_asserts),
        }

    def ensures(self, c, old, result, **b):
        eng = c.eng
        if eng.ctx_mode == "assume":
            return []
        puts = eng.ghost.get("puts", [])
        ex = [e for e in eng.trace if e.kind == "call" and e.name == "extract"]
        out = []
        shape = len(puts) == 2 and isinstance(puts[0].args[0], tuple) and isinstance(puts[1].args[0], tuple)
        out.append(("two-progress-events", bool(shape), ("C18",)))
        if shape:
            out.append(("pre-first-post-last", bool(puts[0].args[0][0] == "pre" and puts[1].args[0][0] == "post"), ("C18",)))
            out.append(("post-after-the-workers-finished", bool(ex and eng.trace.index(ex[-1]) < eng.trace.index(puts[1]) and eng.trace.index(puts[0]) < eng.trace.index(ex[-1])), ("C18",)))
            regs = [e for e in eng.trace if e.kind == "call" and e.name == "register_filelike"]
            out.append(("pre-before-any-member-is-registered", bool(all(eng.trace.index(puts[0]) < eng.trace.index(r) for r in regs)), ("C18",)))
        if ex:
            par = ex[-1].kwargs.get("parallel")
            me = b["self_"]
            out.append(("parallel-only-for-named-unprotected-archives", Implies(truthy(par) if not isinstance(par, bool) else par, And(Not(truthy(attr(me, "password_protected"))), Not(truthy(attr(me, "_filePassed"))))) if par is not None else False, ("C13", "C12")))
        return out
