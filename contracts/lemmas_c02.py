"""C02: the modification time survives the FILETIME encoding to within 5 microseconds.

The two one-line conversions of py7zr/helpers.py (ArchiveTimestamp.from_datetime, .totimestamp) are read from the
current source and turned into a verification condition over the reals by pyvc.floatvc (rounding-error model stated
there).  Obligations: for every double t in [0, 4102444800] (1970..2100, with sub-second part),
  * the FILETIME value fits the 64-bit field that FilesInfo._write_times stores, and is not negative;
  * | totimestamp(from_datetime(t)) - t | <= 5e-6.
"""
import os

from pyvc.contract import Lemma, lemma
from pyvc import values as V

T_MAX = 4102444800  # 2100-01-01T00:00:00Z
TOL_NUM, TOL_DEN = 5, 1000000


def _vc():
    import z3
    from pyvc.floatvc import FloatVC, Val

    repo = os.environ.get("VERIF_REPO", "/repo")
    vc = FloatVC(os.path.join(repo, "py7zr", "helpers.py"))
    t = z3.Real("mtime")
    vc.constraints += [t >= 0, t <= T_MAX]
    ft = vc.run("ArchiveTimestamp.from_datetime", {"val": Val(t, "float", 0, T_MAX, True)})
    back = vc.run("ArchiveTimestamp.totimestamp", {}, self_val=ft)
    return vc, t, ft, back


@lemma
class TimestampRoundTrip(Lemma):
    name = "C02/timestamp"
    props = ("C02",)
    assumptions = (
        "IEEE-754 binary64 round-to-nearest: each float operation returns the exact result plus at most half an ulp of the binade bounding its magnitude on the stated range (pyvc.floatvc); int()/ArchiveTimestamp() truncate toward zero",
    )

    def statements(self):
        import z3

        def build_range(c):
            vc, t, ft, back = _vc()
            for f in vc.constraints:
                c.assume(V.SBool(f))
            return V.SBool(z3.And(ft.t >= 0, ft.t < 2 ** 64))

        def build_err(c):
            vc, t, ft, back = _vc()
            for f in vc.constraints:
                c.assume(V.SBool(f))
            d = back.t - t
            tol = z3.Q(TOL_NUM, TOL_DEN)
            return V.SBool(z3.And(d <= tol, -d <= tol))

        return [("filetime-fits-uint64", build_range), ("roundtrip-within-5-microseconds", build_err)]

    @staticmethod
    def replay(model):
        """run the real conversions on the counter-model's mtime (nearest double) and on a few neighbours"""
        import json, subprocess

        raw = str(model.get("mtime", "0")) if isinstance(model, dict) else "0"
        code = (
            "import json, sys, fractions\n"
            "from py7zr.helpers import ArchiveTimestamp\n"
            "raw = %r\n"
            "try:\n    t0 = float(fractions.Fraction(raw.replace('?', '')))\nexcept Exception:\n    t0 = 0.0\n"
            "import math\n"
            "cands = [t0, math.nextafter(t0, 1e300), math.nextafter(t0, -1e300), t0 + 0.25, t0 + 0.123456, 1234567890.25, 0.5, 4102444799.999999]\n"
            "bad = None\n"
            "for t in cands:\n"
            "    if not (0 <= t <= %d):\n        continue\n"
            "    ft = ArchiveTimestamp.from_datetime(t)\n"
            "    back = ArchiveTimestamp(ft).totimestamp()\n"
            "    if abs(back - t) > 5e-6 or not (0 <= ft < 2**64):\n        bad = {'mtime': t, 'filetime': int(ft), 'back': back, 'error': back - t}\n        break\n"
            "print(json.dumps({'reproduced': bad is not None, 'input': bad, 'detail': 'real ArchiveTimestamp.from_datetime/totimestamp'}))\n"
        ) % (raw, T_MAX)
        env = dict(os.environ, PYTHONPATH=os.environ.get("VERIF_REPO", "/repo"))
        try:
            p = subprocess.run(["/venv/bin/python", "-c", code], capture_output=True, text=True, timeout=60, env=env)
            return json.loads(p.stdout.strip().split("\n")[-1])
        except Exception as e:  # pragma: no cover
            return {"reproduced": False, "detail": "replay failed: %s" % e}


# ------------------------------------------------------------------------------------------------ attribute word
def _attr_paths():
    """(encoder paths of the POSIX branch of _make_file_info, interpreter)"""
    from pyvc.bvexec import Interp

    repo = os.environ.get("VERIF_REPO", "/repo")
    consts = {}
    # FILE_ATTRIBUTE_UNIX_EXTENSION and friends live in py7zr/properties.py (plain integer assignments)
    import ast

    for st in ast.parse(open(os.path.join(repo, "py7zr", "properties.py")).read()).body:
        if isinstance(st, ast.Assign) and len(st.targets) == 1 and isinstance(st.targets[0], ast.Name):
            try:
                v = ast.literal_eval(st.value)
                if isinstance(v, int) and not isinstance(v, bool):
                    consts[st.targets[0].id] = v
            except Exception:
                pass
    it = Interp(os.path.join(repo, "py7zr", "py7zr.py"), consts=consts, platform="linux")
    return it


@lemma
class AttributeWordRoundTrip(Lemma):
    """kind and permission bits survive the attribute word: for every st_mode the POSIX branch of _make_file_info
    produces a 32-bit word from which ArchiveFile.is_directory / is_symlink / posix_mode recover the member kind and
    exactly the permission bits S_IMODE(st_mode); directories are stored as empty streams, files and links are not"""

    name = "C02/attributes"
    props = ("C02",)
    assumptions = (
        "bit-vector interpretation of the attribute code (pyvc.bvexec): 64-bit words, Linux branch of _make_file_info; stat.S_I* helpers as documented in the stat module; target.is_symlink()/is_dir()/is_file() are arbitrary booleans, st_mode arbitrary",
    )

    def statements(self):
        import z3
        from pyvc.bvexec import Unsupported, NONE, bv, as_bool

        def one_input(it, kind, suffix):
            hits = [v for (k, name), v in it.inputs.items() if k == kind and name.endswith(suffix)]
            if len(hits) != 1:
                raise Unsupported("anchor lost: expected exactly one input ending in %r, found %d" % (suffix, len(hits)))
            return hits[0]

        def decode(qual, word):
            return _attr_paths().prop("ArchiveFile." + qual, word)

        def value_is(res, pred):
            """every decoder path satisfies pred(value) under its path condition"""
            gs = [z3.Implies(z3.And(*conds) if conds else z3.BoolVal(True), pred(v)) for conds, v in res]
            return z3.And(*gs) if gs else z3.BoolVal(False)

        def truth(v):
            return z3.BoolVal(v) if isinstance(v, bool) else as_bool(v)

        def build_for(clause):
            def build(c):
                it = _attr_paths()
                paths = it.run("SevenZipFile._make_file_info", {"self": ("opaque", "self")}, cls="SevenZipFile")
                paths = [(cs, rec) for cs, ret, rec in paths if not (isinstance(ret, tuple) and ret and ret[0] == "infeasible") and "attributes" in rec]
                if not paths:
                    raise Unsupported("anchor lost: no path of _make_file_info stores an attribute word")
                def opt(kind, suffix):
                    hits = [v for (k, name), v in it.inputs.items() if k == kind and name.endswith(suffix)]
                    if len(hits) > 1:
                        raise Unsupported("anchor lost: several inputs end in %r" % suffix)
                    return hits[0] if hits else None

                D = one_input(it, "b", "dereference")
                lmode = one_input(it, "i", ".lstat().st_mode")
                smode = opt("i", ".stat().st_mode")
                if smode is None:
                    smode = z3.BitVec("unused.stat().st_mode", 64)
                fmt = lambda m, kind: (m & bv(0o170000)) == bv(kind)
                S = fmt(lmode, 0o120000)
                # assumed contracts of pathlib (documented behaviour): is_symlink() tests the lstat mode, is_dir() and
                # is_file() follow links (test the stat mode); for an object that is not a link stat == lstat
                axioms = [z3.Implies(z3.Not(S), smode == lmode)]
                for suffix, rhs in ((".is_symlink()", S), (".is_dir()", fmt(smode, 0o040000)), (".is_file()", fmt(smode, 0o100000))):
                    a = opt("b", suffix)
                    if a is not None:
                        axioms.append(a == rhs)
                for ax in axioms:
                    c.assume(V.SBool(ax))
                # what the member IS, from the statement of the property: a link unless dereferenced; a dereferenced
                # link is what it points to; permission bits are those of the object that is stored
                link = z3.And(S, z3.Not(D))
                followed = z3.And(S, D)
                directory = z3.If(followed, fmt(smode, 0o040000), fmt(lmode, 0o040000))
                mode = z3.If(followed, smode, lmode)
                goals = []
                for conds, rec in paths:
                    word = rec["attributes"]
                    word = word if z3.is_bv(word) else bv(word)
                    es = rec.get("emptystream")
                    g = clause(word, es, link, directory, mode)
                    goals.append(z3.Implies(z3.And(*conds) if conds else z3.BoolVal(True), g))
                return V.SBool(z3.And(*goals))

            return build

        def fits(word, es, link, directory, mode):
            return z3.ULT(word, bv(1 << 32))

        def kind_dir(word, es, link, directory, mode):
            return value_is(decode("is_directory", word), lambda v: truth(v) == directory)

        def kind_link(word, es, link, directory, mode):
            return value_is(decode("is_symlink", word), lambda v: truth(v) == link)

        def perm(word, es, link, directory, mode):
            return value_is(decode("posix_mode", word), lambda v: z3.BoolVal(False) if v is NONE else (v == (mode & bv(0o7777))))

        def empty(word, es, link, directory, mode):
            return (z3.BoolVal(es) if isinstance(es, bool) else truth(es)) == directory if es is not None else z3.BoolVal(False)

        return [
            ("attribute-word-fits-32-bits", build_for(fits)),
            ("directory-flag-survives", build_for(kind_dir)),
            ("symlink-flag-survives", build_for(kind_link)),
            ("permission-bits-survive", build_for(perm)),
            ("directories-are-empty-streams-and-nothing-else-is", build_for(empty)),
        ]
