"""py7zr/cli.py: volume-size parsing and exit-status guards - C19."""
try:
    import z3
except Exception:
    z3 = None

from pyvc.contract import Contract, ForAll, LoopSpec, RaiseSpec, contract
from pyvc.values import And, Implies, Not, Or, L, nth, eq, ite, SBool, SInt, SOpq, SSeq, truthy
from pyvc import values as V

CLI = "py7zr.cli:"
PATTERN = r"^([0-9]+)([bkmg]?)$"
DUNITS = {"b": 1, "k": 1024, "m": 1024 ** 2, "g": 1024 ** 3}  # from the help text: -v SIZE[b|k|m|g]


def mk_cli(c):
    return c.obj("Cli", "py7zr.cli", unit_pattern=c.regex(PATTERN), parser=c.opq("parser"))


def _split(size):
    import re

    m = re.compile(PATTERN, re.IGNORECASE).match(size)
    return None if m is None else (m.group(1), m.group(2))


@contract
class VolumeSizeConv(Contract):
    """every size the help describes (digits with optional unit b/k/m/g, any case, unit optional) converts without an
    exception to number * unit factor; anything else gives -1"""

    target = CLI + "Cli._volumesize_unitconv"
    props = ("C19",)
    assumptions = ("`re` matches the literal pattern ^([0-9]+)([bkmg]?)$ (IGNORECASE) as documented; int() of ASCII digits is their decimal value (uninterpreted str_to_int, non-negative)",)

    def setup(self, c):
        return {"self_": mk_cli(c), "size": c.str("size")}

    def fresh_result(self, c, self_, size):
        return c.int("bytes")

    def ensures(self, c, old, result, self_, size):
        if getattr(c, "concrete", False):
            sp = _split(size)
            if sp is None:
                return [("no-match-gives-minus-one", result == -1)]
            num, unit = sp
            return [("number-times-unit", result == int(num) * (DUNITS[unit.lower()] if unit else 1))]
        g = c.eng.ghost.get("unit_match")
        if g is None:
            return [("no-match-gives-minus-one", result == -1)]
        D, U, T = g
        val = SInt(V.uf("str_to_int", V.seq_sort("char"), z3.IntSort())(D.t))
        factor = 1
        for ch, f in (("b", 1), ("k", 1024), ("m", 1024 ** 2), ("g", 1024 ** 3)):
            factor = ite(And(L(U) == 1, Or(nth(U, 0) == ord(ch), nth(U, 0) == ord(ch.upper()))), f, factor)
        return [("number-times-unit", result == val * factor)]


@contract
class VolumeSizeValid(Contract):
    target = CLI + "Cli._check_volumesize_valid"
    props = ("C19",)

    def setup(self, c):
        return {"self_": mk_cli(c), "size": c.str("size")}

    def fresh_result(self, c, self_, size):
        return c.bool("valid")

    def ensures(self, c, old, result, self_, size):
        if getattr(c, "concrete", False):
            return [("valid-iff-pattern-matches", result == (_split(size) is not None))]
        g = c.eng.ghost.get("unit_match")
        return [("valid-iff-pattern-matches", result == (g is not None))]


class _RunBase(Contract):
    abstract = True
    props = ("C19",)
    pure = ("str",)
    noraise = ("write", "print")
    frame_preserving = ("write", "print")

    def setup(self, c):
        c.eng.ghost["caught"] = 0
        return {"self_": c.opq("self"), "args": c.opq("args")}

    def raises(self):
        return [RaiseSpec("Exception"), RaiseSpec("BaseException")]

    def hooks(self):
        def on_except(c, ev):
            c.eng.ghost["caught"] = c.eng.ghost["caught"] + 1

        return {("except", None): [on_except]}


@contract
class RunTest(_RunBase):
    """`py7zr t`: exit status 0 only when the file is a 7z archive, opening and testzip() completed without an
    exception and testzip() reported no bad member; every handled exception gives a non-zero status"""

    target = CLI + "Cli.run_test"

    def ensures(self, c, old, result, self_, args):
        eng = c.eng
        if eng.ctx_mode == "assume":
            return []
        tz = [e for e in eng.trace if e.kind == "call" and e.name == "testzip"]
        is7 = [e for e in eng.trace if e.kind == "call" and e.name.endswith("is_7zfile")]
        zero = eq(result, 0)
        return [
            ("zero-only-after-testzip-found-nothing", Implies(zero, And(bool(tz), eq(tz[-1].result, None)) if tz else False)),
            ("zero-only-for-7z-files", Implies(zero, And(bool(is7), truthy(is7[-1].result)) if is7 else False)),
            ("handled-exceptions-give-nonzero", Implies(zero, eng.ghost["caught"] == 0)),
        ]


@contract
class RunExtract(_RunBase):
    """`py7zr x`: exit status 0 only when opening and extractall() completed without an exception"""

    target = CLI + "Cli.run_extract"

    def ensures(self, c, old, result, self_, args):
        eng = c.eng
        if eng.ctx_mode == "assume":
            return []
        ex = [e for e in eng.trace if e.kind == "call" and e.name == "extractall"]
        is7 = [e for e in eng.trace if e.kind == "call" and e.name.endswith("is_7zfile")]
        zero = eq(result, 0)
        return [
            ("zero-only-after-extractall-completed", Implies(zero, bool(ex) and eng.trace.index(ex[-1]) == max(eng.trace.index(e) for e in eng.trace if e.kind == "call"))),
            ("zero-only-for-7z-files", Implies(zero, And(bool(is7), truthy(is7[-1].result)) if is7 else False)),
            ("handled-exceptions-give-nonzero", Implies(zero, eng.ghost["caught"] == 0)),
        ]
