"""py7zr/cli.py: volume-size parsing and exit-status guards - C19."""
try:
    import z3
except Exception:
    z3 = None

from pyvc.contract import Contract, ForAll, LoopSpec, RaiseSpec, contract
from pyvc.values import And, Implies, Not, Or, L, nth, eq, ite, SBool, SInt, SOpq, SSeq, truthy
from pyvc import values as V

CLI = "py7zr.cli:"
PATTERN = r"^([0-9]+)([bkmg]?)$"
DUNITS = {"b": 1, "k": 1024, "m": 1024 ** 2, "g": 1024 ** 3}  # from the help text: -v SIZE[b|k|m|g]


def mk_cli(c):
    return c.obj("Cli", "py7zr.cli", unit_pattern=c.regex(PATTERN), parser=c.opq("parser"))


def _split(size):
    import re

    m = re.compile(PATTERN, re.IGNORECASE).match(size)
    return None if m is None else (m.group(1), m.group(2))


@contract
class VolumeSizeConv(Contract):
    """every size the help describes (digits with optional unit b/k/m/g, any case, unit optional) converts without an
    exception to number * unit factor; anything else gives -1"""

    target = CLI + "Cli._volumesize_unitconv"
    props = ("C19",)
    assumptions = ("`re` matches the literal pattern ^([0-9]+)([bkmg]?)$ (IGNORECASE) as documented; int() of ASCII digits is their decimal value (uninterpreted str_to_int, non-negative)",)

    def setup(self, c):
        return {"self_": mk_cli(c), "size": c.str("size")}

    def fresh_result(self, c, self_, size):
        return c.int("bytes")

    def ensures(self, c, old, result, self_, size):
        if getattr(c, "concrete", False):
            sp = _split(size)
            if sp is None:
                return [("no-match-gives-minus-one", result == -1)]
            num, unit = sp
            return [("number-times-unit", result == int(num) * (DUNITS[unit.lower()] if unit else 1))]
        g = c.eng.ghost.get("unit_match")
        if g is None:
            return [("no-match-gives-minus-one", result == -1)]
        D, U, T = g
        val = SInt(V.uf("str_to_int", V.seq_sort("char"), z3.IntSort())(D.t))
        factor = 1
        for ch, f in (("b", 1), ("k", 1024), ("m", 1024 ** 2), ("g", 1024 ** 3)):
            factor = ite(And(L(U) == 1, Or(nth(U, 0) == ord(ch), nth(U, 0) == ord(ch.upper()))), f, factor)
        return [("number-times-unit", result == val * factor)]


@contract
class VolumeSizeValid(Contract):
    target = CLI + "Cli._check_volumesize_valid"
    props = ("C19",)

    def setup(self, c):
        return {"self_": mk_cli(c), "size": c.str("size")}

    def fresh_result(self, c, self_, size):
        return c.bool("valid")

    def ensures(self, c, old, result, self_, size):
        if getattr(c, "concrete", False):
            return [("valid-iff-pattern-matches", result == (_split(size) is not None))]
        g = c.eng.ghost.get("unit_match")
        return [("valid-iff-pattern-matches", result == (g is not None))]


class _RunBase(Contract):
    abstract = True
    props = ("C19",)
    pure = ("str",)
    noraise = ("write", "print")
    frame_preserving = ("write", "print")

    def setup(self, c):
        c.eng.ghost["caught"] = 0
        return {"self_": c.opq("self"), "args": c.opq("args")}

    def raises(self):
        return [RaiseSpec("Exception"), RaiseSpec("BaseException")]

    def hooks(self):
        def on_except(c, ev):
            c.eng.ghost["caught"] = c.eng.ghost["caught"] + 1

        return {("except", None): [on_except]}


@contract
class RunTest(_RunBase):
    """`py7zr t`: exit status 0 only when the file is a 7z archive, opening and testzip() completed without an
    exception and testzip() reported no bad member; every handled exception gives a non-zero status"""

    target = CLI + "Cli.run_test"

    def ensures(self, c, old, result, self_, args):
        eng = c.eng
        if eng.ctx_mode == "assume":
            return []
        tz = [e for e in eng.trace if e.kind == "call" and e.name == "testzip"]
        is7 = [e for e in eng.trace if e.kind == "call" and e.name.endswith("is_7zfile")]
        zero = eq(result, 0)
        return [
            ("zero-only-after-testzip-found-nothing", Implies(zero, And(bool(tz), eq(tz[-1].result, None)) if tz else False)),
            ("zero-only-for-7z-files", Implies(zero, And(bool(is7), truthy(is7[-1].result)) if is7 else False)),
            ("handled-exceptions-give-nonzero", Implies(zero, eng.ghost["caught"] == 0)),
        ]


@contract
class RunExtract(_RunBase):
    """`py7zr x`: exit status 0 only when opening and extractall() completed without an exception"""

    target = CLI + "Cli.run_extract"

    def ensures(self, c, old, result, self_, args):
        eng = c.eng
        if eng.ctx_mode == "assume":
            return []
        ex = [e for e in eng.trace if e.kind == "call" and e.name == "extractall"]
        is7 = [e for e in eng.trace if e.kind == "call" and e.name.endswith("is_7zfile")]
        zero = eq(result, 0)
        return [
            ("zero-only-after-extractall-completed", Implies(zero, bool(ex) and eng.trace.index(ex[-1]) == max(eng.trace.index(e) for e in eng.trace if e.kind == "call"))),
            ("zero-only-for-7z-files", Implies(zero, And(bool(is7), truthy(is7[-1].result)) if is7 else False)),
            ("handled-exceptions-give-nonzero", Implies(zero, eng.ghost["caught"] == 0)),
        ]


@contract
class RunCreate(_RunBase):
    """`py7zr c`: the archive created is ARCNAME when it already ends in `.7z` and ARCNAME + `.7z` otherwise (the
    extension is appended, never substituted for another dotted component); an existing file is never overwritten;
    exit status 0 only after every named source was handed to write()/writeall() without an exception"""

    target = CLI + "Cli.run_create"
    pure = ("str", "pathlib.Path", "Path", "is_dir")
    noraise = ("write", "print", "pathlib.Path", "Path", "show_help")
    frame_preserving = ("write", "print", "pathlib.Path", "Path", "exists", "is_dir", "show_help")
    assumptions = ("argparse delivers args.arcfile as a str; pathlib.Path(s) is a pure function of s",)

    def raises(self):
        return _RunBase.raises(self) + [RaiseSpec("SystemExit")]  # exit(1) on a bad volume size / an existing archive

    def setup(self, c):
        b = _RunBase.setup(self, c)
        c.eng.ghost["arcfile"] = c.str("arcfile")
        return b

    def attr_model(self, attr):
        if attr == "arcfile":
            return lambda ctx, o: ctx.eng.ghost["arcfile"]
        return None

    def hooks(self):
        h = dict(_RunBase.hooks(self))

        def on_exit(c, ev):
            # exit() does not return: it raises SystemExit
            from pyvc.engine import RaiseExc

            raise RaiseExc("SystemExit", (), ev.node)

        def on_open(c, ev):
            eng = c.eng
            s = eng.ghost["arcfile"]
            tgt = ev.args[0] if ev.args else None
            if ev.name.split(".")[-1] == "SevenZipFile" and any(e.kind == "call" and e.name.split(".")[-1] == "MultiVolume" for e in eng.trace):
                return  # the archive is written into the multi-volume file opened just before (checked there)
            mk = [e for e in eng.trace if e.kind == "pure" and e.name.split(".")[-1] == "Path" and e.result is tgt]
            ok = False
            if mk:
                a = mk[-1].args[0]
                ends = _endswith(s, ".7z")
                ok = Or(And(ends, eq(a, s)), And(Not(ends), eq(a, V.concat(s, ".7z"))))
            c.oblig("assert", "archive-name-is-arcname-with-7z-appended-if-missing@%s" % ev.name.split(".")[-1], ok, props=("C19",))
            ex = [e for e in eng.trace if e.kind == "call" and e.name.endswith("exists") and e.recv is tgt]
            c.oblig("assert", "existing-archive-is-not-overwritten@%s" % ev.name.split(".")[-1], And(bool(ex), Not(truthy(ex[-1].result))) if ex else False, props=("C19",))

        h[("call", "exit")] = [on_exit]
        h[("call", "SevenZipFile")] = [on_open]
        h[("call", "MultiVolume")] = [on_open]
        return h

    def loops(self):
        def noinv(c, Lp):
            return []

        def wrote(c, Lp):
            evs = c.eng.trace[Lp.trace_mark:]
            w = [e for e in evs if e.kind == "call" and e.name.split(".")[-1] in ("write", "writeall") and not (e.args and isinstance(e.args[0], str))]
            return [("every-source-is-written-once", len(w) == 1)]

        return {
            "cli:Cli.run_create#loop0": LoopSpec("for-path", noinv, target="path in filenames", asserts=wrote),
            "cli:Cli.run_create#loop1": LoopSpec("for-path-volumes", noinv, target="path in filenames", asserts=wrote),
        }

    def ensures(self, c, old, result, self_, args):
        eng = c.eng
        if eng.ctx_mode == "assume":
            return []
        zero = eq(result, 0)
        opened = [e for e in eng.trace if e.kind == "call" and e.name.split(".")[-1] == "SevenZipFile"]
        return [
            ("zero-only-after-the-archive-was-written", Implies(zero, bool(opened))),
            ("handled-exceptions-give-nonzero", Implies(zero, eng.ghost["caught"] == 0)),
        ]


def _endswith(s, suffix):
    """s.endswith(suffix) for a symbolic string s and a literal suffix"""
    n = len(suffix)
    if not V.is_sym(s):
        return s.endswith(suffix)
    ln = V.L(s)
    conds = [ln >= n]
    for j, ch in enumerate(suffix):
        conds.append(V.nth(s, ln - n + j) == ord(ch))
    return And(*conds)
