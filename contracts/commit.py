"""SevenZipFile.close / _write_flush / _write_header / _prepare_write / _prepare_append (py7zr/py7zr.py):
commit order of a write session - C14 (and C01/C08 links).  Abstract mode, effect-trace obligations."""
try:
    import z3
except Exception:
    z3 = None
import ast as _ast

from pyvc.contract import Contract, ForAll, LoopSpec, RaiseSpec, contract
from pyvc.values import And, Implies, Not, Or, eq, SBool, SInt, SOpq, truthy
from pyvc import values as V
from contracts.extract import attr

PY = "py7zr.py7zr:"


def calls(eng, *names):
    return [e for e in eng.trace if e.kind in ("call", "contract-call") and str(e.name).split(".")[-1].split(":")[-1] in names]


@contract
class WriteHeader(Contract):
    """header bytes first, then the signature header fields are derived from what Header.write returned,
    and the 32-byte signature header is the LAST write of the session"""

    target = PY + "SevenZipFile._write_header"
    props = ("C14", "C07")
    abstract = True
    stable_attrs = ("header", "sig_header", "fp", "afterheader", "encoded_header_mode", "header_encryption")
    frame_preserving = ("write", "calccrc")

    def setup(self, c):
        return {"self_": c.opq("self")}

    def raises(self):
        return [RaiseSpec("Exception")]

    def ensures(self, c, old, result, self_):
        eng = c.eng
        if eng.ctx_mode == "assume":
            return []
        from pyvc import builtins_model as B

        w = calls(eng, "write")
        cc = calls(eng, "calccrc")
        sets = [e for e in eng.trace if e.kind == "setattr" and e.name == "nextheaderofs"]
        shape = len(w) == 2 and len(cc) == 1 and len(sets) == 1
        out = [("effects-shape", bool(shape))]
        if not shape:
            return out
        hw, sw = w
        order = eng.trace.index(hw) < eng.trace.index(sets[0]) < eng.trace.index(cc[0]) < eng.trace.index(sw)
        hdr, sig = attr(self_, "header"), attr(self_, "sig_header")
        res = hw.result
        item = lambda k: SOpq(V.uf("item", V.vsort(), z3.IntSort(), V.vsort())(res.t, z3.IntVal(k)))
        out += [
            ("header-written-before-signature-header", bool(order)),
            ("receivers", And(eq(hw.recv, hdr), eq(sw.recv, sig), eq(cc[0].recv, sig), eq(sets[0].recv, sig))),
            ("both-write-to-the-archive-file", And(eq(hw.args[0], attr(self_, "fp")), eq(sw.args[0], attr(self_, "fp")))),
            ("offset-is-relative-to-end-of-signature-header", eq(sets[0].args[0], B.binop(eng, _ast.Sub(), item(0), attr(self_, "afterheader"), None))),
            ("size-and-crc-come-from-the-header-writer", And(eq(cc[0].args[0], item(1)), eq(cc[0].args[1], item(2)))),
            ("header-mode-flags-forwarded", And(eq(hw.kwargs.get("encoded"), attr(self_, "encoded_header_mode")), eq(hw.kwargs.get("encrypted"), attr(self_, "header_encryption")), eq(hw.args[1], attr(self_, "afterheader"))), ("C11", "C14")),
            ("signature-header-is-the-last-effect", eng.trace.index(sw) == max(eng.trace.index(e) for e in eng.trace if e.kind in ("call", "setattr"))),
        ]
        return out


@contract
class WriteFlush(Contract):
    """pending compressed data is flushed before the header is written"""

    target = PY + "SevenZipFile._write_flush"
    props = ("C14", "C01")
    abstract = True
    self_class = ("py7zr.py7zr", "SevenZipFile")
    stable_attrs = ("header", "worker", "fp", "main_streams", "unpackinfo", "folders", "_initialized")
    opaque = ("py7zr:SevenZipFile._write_header",)

    def setup(self, c):
        return {"self_": c.opq("self")}

    def raises(self):
        return [RaiseSpec("Exception")]

    def ensures(self, c, old, result, self_):
        eng = c.eng
        if eng.ctx_mode == "assume":
            return []
        fl = calls(eng, "flush_archive")
        wh = calls(eng, "_write_header")
        hdr = attr(self_, "header")
        has_header = Not(eq(hdr, None))
        out = [
            ("header-written-when-there-is-one", Implies(has_header, len(wh) == 1)),
            ("flush-precedes-header", bool(not fl or (wh and eng.trace.index(fl[0]) < eng.trace.index(wh[0])))),
            ("initialised-session-flushes-its-folder", Implies(And(has_header, truthy(attr(hdr, "_initialized"))), len(fl) == 1)),
        ]
        return out


@contract
class Close(Contract):
    """every creating/appending mode writes the header exactly once, before the file is closed; read mode never writes"""

    target = PY + "SevenZipFile.close"
    props = ("C14", "C01", "C12", "C18")
    abstract = True
    self_class = ("py7zr.py7zr", "SevenZipFile")
    stable_attrs = ("q", "reporterd", "mode")
    opaque = ("py7zr:SevenZipFile._write_flush", "py7zr:SevenZipFile._fpclose", "py7zr:SevenZipFile._var_release")
    noraise = ("put_nowait",)

    def setup(self, c):
        m = c.choice(4)
        mode = ("r", "w", "x", "a")[m]
        return {"self_": c.obj("SevenZipFile", "py7zr.py7zr", mode=mode, reporterd=c.opq("reporterd"), q=c.opq("q")), "_mode": mode}

    def call_args(self, bound):
        return [bound["self_"]], {}

    def raises(self):
        return [RaiseSpec("Exception")]

    def ensures(self, c, old, result, self_, _mode):
        eng = c.eng
        if eng.ctx_mode == "assume":
            return []
        fl = calls(eng, "_write_flush")
        cl = calls(eng, "_fpclose")
        out = []
        if _mode in ("w", "x", "a"):
            out.append(("creating-modes-write-the-header", len(fl) == 1, ("C14", "C01")))
            out.append(("header-before-closing-the-file", bool(fl and cl and eng.trace.index(fl[0]) < eng.trace.index(cl[0])), ("C14",)))
        else:
            out.append(("read-mode-never-writes", len(fl) == 0, ("C12",)))
            puts = calls(eng, "put_nowait")
            joins = calls(eng, "join")
            rep = old.f(self_, "reporterd")
            # C18: the sentinel is posted and the reporter joined before close() returns (when a reporter exists)
            alive = calls(eng, "is_alive")
            out.append(("returns-only-after-the-reporter-has-finished", Implies(Not(eq(rep, None)), And(bool(alive), Not(truthy(alive[-1].result))) if alive else False), ("C18",)))
            out.append(("sentinel-then-join", Implies(Not(eq(rep, None)), bool(len(puts) == 1 and len(joins) == 1 and puts[0].args[0] is None and eng.trace.index(puts[0]) < eng.trace.index(joins[0]))), ("C18",)))
        out.append(("file-closed-once", len(cl) == 1))
        return out
