"""Contracts for the header primitives of py7zr/archiveinfo.py (C17; used by C05/C06/C07/C08).

Sidecar file: /repo is not edited.  Postconditions are taken from the property statement and from
docs/archive_format.rst (via spec.primitives); preconditions / frames from the code's call sites.
"""
from pyvc.contract import Contract, LoopSpec, RaiseSpec, contract
from pyvc.values import And, Implies, Not, Or, L, ite, nth, slice_, ceil8, eq
from spec import primitives as SP

AI = "py7zr.archiveinfo:"
U64 = 1 << 64


def avail(c, file):
    return L(c.data(file)) - c.pos(file)


# ---------------------------------------------------------------------------------------- bytes
@contract
class ReadByte(Contract):
    target = AI + "read_byte"
    props = ("C17", "C06", "C05")

    def setup(self, c):
        return {"file": c.instream("file")}

    def raises(self):
        # ord(b"") at end of input: an ordinary exception (C05 allows it)
        return [RaiseSpec("TypeError", when=lambda c, file: L(c.old.data(file)) - c.old.pos(file) <= 0, iff=True)]

    def modifies(self, c, file):
        return [(file, "pos")]

    def fresh_result(self, c, file):
        return c.int("byte")

    def ensures(self, c, old, result, file):
        return [
            ("value", result == nth(old.data(file), old.pos(file))),
            ("range", And(result >= 0, result < 256)),
            ("consumed", c.pos(file) == old.pos(file) + 1),
            ("frame-data", eq(c.data(file), old.data(file))),
        ]


@contract
class WriteBytes(Contract):
    target = AI + "write_bytes"
    props = ("C17", "C07")

    def setup(self, c):
        return {"file": c.outstream("file"), "data": c.bytes("data")}

    def modifies(self, c, file, data):
        return [(file, "out")]

    def fresh_result(self, c, file, data):
        return c.int("n")

    def ensures(self, c, old, result, file, data):
        return [("appends", eq(c.out(file), old.out(file) + data)), ("returns-length", result == L(data))]


@contract
class WriteByte(Contract):
    target = AI + "write_byte"
    props = ("C17", "C07")
    assert_mode = "check"

    def setup(self, c):
        return {"file": c.outstream("file"), "data": c.bytes("data")}

    def requires(self, c, file, data):
        return [("one-byte", L(data) == 1)]

    def modifies(self, c, file, data):
        return [(file, "out")]

    def fresh_result(self, c, file, data):
        return c.int("n")

    def ensures(self, c, old, result, file, data):
        return [("appends", eq(c.out(file), old.out(file) + data)), ("one-byte-written", L(c.out(file)) == L(old.out(file)) + 1)]


# ---------------------------------------------------------------------------------------- fixed width
@contract
class ReadRealUint64(Contract):
    target = AI + "read_real_uint64"
    props = ("C17", "C06", "C05")

    def setup(self, c):
        return {"file": c.instream("file")}

    def raises(self):
        return [RaiseSpec("struct.error", when=lambda c, file: L(c.old.data(file)) - c.old.pos(file) < 8, iff=True)]

    def modifies(self, c, file):
        return [(file, "pos")]

    def fresh_result(self, c, file):
        return (c.int("u64"), c.bytes("raw8"))

    def ensures(self, c, old, result, file):
        d, p = old.data(file), old.pos(file)
        return [
            ("value", result[0] == SP.uint64_le(d, p)),
            ("range", And(result[0] >= 0, result[0] < U64)),
            ("raw", eq(result[1], slice_(d, p, p + 8))),
            ("consumed", c.pos(file) == p + 8),
            ("frame-data", eq(c.data(file), d)),
        ]


@contract
class ReadUint32(Contract):
    target = AI + "read_uint32"
    props = ("C17", "C06", "C05")

    def setup(self, c):
        return {"file": c.instream("file")}

    def raises(self):
        return [RaiseSpec("struct.error", when=lambda c, file: L(c.old.data(file)) - c.old.pos(file) < 4, iff=True)]

    def modifies(self, c, file):
        return [(file, "pos")]

    def fresh_result(self, c, file):
        return (c.int("u32"), c.bytes("raw4"))

    def ensures(self, c, old, result, file):
        d, p = old.data(file), old.pos(file)
        return [
            ("value", result[0] == SP.uint32_le(d, p)),
            ("range", And(result[0] >= 0, result[0] < (1 << 32))),
            ("raw", eq(result[1], slice_(d, p, p + 4))),
            ("consumed", c.pos(file) == p + 4),
            ("frame-data", eq(c.data(file), d)),
        ]


@contract
class WriteUint32(Contract):
    target = AI + "write_uint32"
    props = ("C17", "C07")

    def setup(self, c):
        return {"file": c.outstream("file"), "value": c.int("value")}

    def requires(self, c, file, value):
        return [("fits-32-bits", And(value >= 0, value < (1 << 32)))]

    def modifies(self, c, file, value):
        return [(file, "out")]

    def ensures(self, c, old, result, file, value):
        o0, o1 = old.out(file), c.out(file)
        n0 = L(o0)
        return [
            ("appends-4", And(L(o1) == n0 + 4, eq(slice_(o1, 0, n0), o0))),
            ("decodes", SP.uint32_le(o1, n0) == value),
        ]


@contract
class WriteRealUint64(Contract):
    target = AI + "write_real_uint64"
    props = ("C17", "C07")

    def setup(self, c):
        return {"file": c.outstream("file"), "value": c.int("value")}

    def requires(self, c, file, value):
        return [("fits-64-bits", And(value >= 0, value < U64))]

    def modifies(self, c, file, value):
        return [(file, "out")]

    def ensures(self, c, old, result, file, value):
        o0, o1 = old.out(file), c.out(file)
        n0 = L(o0)
        return [
            ("appends-8", And(L(o1) == n0 + 8, eq(slice_(o1, 0, n0), o0))),
            ("decodes", SP.uint64_le(o1, n0) == value),
        ]


# ---------------------------------------------------------------------------------------- NUMBER
@contract
class ReadUint64(Contract):
    """py7zr reads every specification-conforming encoding of every value (all 256 first bytes,
    non-minimal encodings included) and consumes exactly the announced bytes."""

    target = AI + "read_uint64"
    props = ("C17", "C06", "C05")
    opaque = ()

    def setup(self, c):
        return {"file": c.instream("file")}

    def raises(self):
        return [
            RaiseSpec("TypeError", when=lambda c, file: L(c.old.data(file)) - c.old.pos(file) <= 0, iff=True),
            RaiseSpec(
                "struct.error",
                when=lambda c, file: And(L(c.old.data(file)) - c.old.pos(file) > 0, nth(c.old.data(file), c.old.pos(file)) == 255, L(c.old.data(file)) - c.old.pos(file) < 9),
                iff=True,
            ),
        ]

    def modifies(self, c, file):
        return [(file, "pos")]

    def fresh_result(self, c, file):
        return c.int("number")

    def ensures(self, c, old, result, file):
        d, p = old.data(file), old.pos(file)
        n = SP.number_extra(nth(d, p))
        full = L(d) - p >= 1 + n
        return [
            ("value", Implies(full, result == SP.number_value(d, p))),
            ("consumed", Implies(full, c.pos(file) == p + 1 + n)),
            ("short-read-consumes-rest", Implies(Not(full), c.pos(file) == L(d))),
            ("range", And(result >= 0, result < U64)),
            ("progress", c.pos(file) > p),
            ("frame-data", eq(c.data(file), d)),
        ]


@contract
class WriteUint64(Contract):
    """every value 0..2^64-1 is written in at most nine bytes that the specification's NUMBER table
    decodes to the same value"""

    target = AI + "write_uint64"
    props = ("C17", "C07")

    def setup(self, c):
        return {"file": c.outstream("file"), "value": c.int("value")}

    def requires(self, c, file, value):
        return [("value-in-uint64", And(value >= 0, value < U64))]

    def modifies(self, c, file, value):
        return [(file, "out")]

    def ensures(self, c, old, result, file, value):
        o0, o1 = old.out(file), c.out(file)
        n0 = L(o0)
        return [
            ("appends", And(L(o1) > n0, eq(slice_(o1, 0, n0), o0))),
            ("at-most-9-bytes", L(o1) - n0 <= 9),
            ("length-announced", L(o1) - n0 == SP.number_len(o1, n0)),
            ("decodes-to-value", SP.number_value(o1, n0) == value),
        ]
