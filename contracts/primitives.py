"""Contracts for the header primitives of py7zr/archiveinfo.py (C17; used by C05/C06/C07/C08).

Sidecar file: /repo is not edited.  Postconditions are taken from the property statement and from
docs/archive_format.rst (via spec.primitives); preconditions / frames from the code's call sites.
"""
from pyvc.contract import Contract, LoopSpec, RaiseSpec, contract
from pyvc.values import And, Implies, Not, Or, L, ite, nth, slice_, ceil8, eq, to_bytes_le
from spec import primitives as SP

AI = "py7zr.archiveinfo:"
U64 = 1 << 64


def avail(c, file):
    return L(c.data(file)) - c.pos(file)


# ---------------------------------------------------------------------------------------- bytes
@contract
class ReadByte(Contract):
    target = AI + "read_byte"
    props = ("C17", "C06", "C05")

    def setup(self, c):
        return {"file": c.instream("file")}

    def raises(self):
        # ord(b"") at end of input: an ordinary exception (C05 allows it)
        return [RaiseSpec("TypeError", when=lambda c, file: L(c.old.data(file)) - c.old.pos(file) <= 0, iff=True)]

    def modifies(self, c, file):
        return [(file, "pos")]

    def fresh_result(self, c, file):
        return c.int("byte")

    def ensures(self, c, old, result, file):
        return [
            ("value", result == nth(old.data(file), old.pos(file))),
            ("range", And(result >= 0, result < 256)),
            ("consumed", c.pos(file) == old.pos(file) + 1),
            ("frame-data", eq(c.data(file), old.data(file))),
        ]


@contract
class RemainingSize(Contract):
    """bytes left in a header buffer: what bounds every count that the header declares (FX24); the position is restored"""

    target = AI + "remaining_size"
    props = ("C05", "C06")

    def setup(self, c):
        return {"file": c.instream("file")}

    def modifies(self, c, file):
        return [(file, "pos")]

    def fresh_result(self, c, file):
        return c.int("remaining")

    def ensures(self, c, old, result, file):
        return [
            ("bytes-up-to-the-end", result == L(old.data(file)) - old.pos(file)),
            ("position-restored", c.pos(file) == old.pos(file)),
            ("frame-data", eq(c.data(file), old.data(file))),
        ]


@contract
class WriteBytes(Contract):
    target = AI + "write_bytes"
    props = ("C17", "C07")

    def setup(self, c):
        return {"file": c.outstream("file"), "data": c.bytes("data")}

    def modifies(self, c, file, data):
        return [(file, "out")]

    def fresh_result(self, c, file, data):
        return c.int("n")

    def ensures(self, c, old, result, file, data):
        return [("appends", eq(c.appended(old, file), data)), ("returns-length", result == L(data))]


@contract
class WriteByte(Contract):
    target = AI + "write_byte"
    props = ("C17", "C07")
    assert_mode = "check"

    def setup(self, c):
        return {"file": c.outstream("file"), "data": c.bytes("data")}

    def requires(self, c, file, data):
        return [("one-byte", L(data) == 1)]

    def modifies(self, c, file, data):
        return [(file, "out")]

    def fresh_result(self, c, file, data):
        return c.int("n")

    def ensures(self, c, old, result, file, data):
        return [("appends", eq(c.appended(old, file), data)), ("one-byte-written", L(c.appended(old, file)) == 1)]


# ---------------------------------------------------------------------------------------- fixed width
@contract
class ReadRealUint64(Contract):
    target = AI + "read_real_uint64"
    props = ("C17", "C06", "C05")

    def setup(self, c):
        return {"file": c.instream("file")}

    def raises(self):
        return [RaiseSpec("struct.error", when=lambda c, file: L(c.old.data(file)) - c.old.pos(file) < 8, iff=True)]

    def modifies(self, c, file):
        return [(file, "pos")]

    def fresh_result(self, c, file):
        return (c.int("u64"), c.bytes("raw8"))

    def ensures(self, c, old, result, file):
        d, p = old.data(file), old.pos(file)
        return [
            ("value", result[0] == SP.uint64_le(d, p)),
            ("range", And(result[0] >= 0, result[0] < U64)),
            ("raw", eq(result[1], slice_(d, p, p + 8))),
            ("consumed", c.pos(file) == p + 8),
            ("frame-data", eq(c.data(file), d)),
        ]


@contract
class ReadUint32(Contract):
    target = AI + "read_uint32"
    props = ("C17", "C06", "C05")

    def setup(self, c):
        return {"file": c.instream("file")}

    def raises(self):
        return [RaiseSpec("struct.error", when=lambda c, file: L(c.old.data(file)) - c.old.pos(file) < 4, iff=True)]

    def modifies(self, c, file):
        return [(file, "pos")]

    def fresh_result(self, c, file):
        return (c.int("u32"), c.bytes("raw4"))

    def ensures(self, c, old, result, file):
        d, p = old.data(file), old.pos(file)
        return [
            ("value", result[0] == SP.uint32_le(d, p)),
            ("range", And(result[0] >= 0, result[0] < (1 << 32))),
            ("raw", eq(result[1], slice_(d, p, p + 4))),
            ("consumed", c.pos(file) == p + 4),
            ("frame-data", eq(c.data(file), d)),
        ]


@contract
class WriteUint32(Contract):
    target = AI + "write_uint32"
    props = ("C17", "C07")

    def setup(self, c):
        return {"file": c.outstream("file"), "value": c.int("value")}

    def requires(self, c, file, value):
        return [("fits-32-bits", And(value >= 0, value < (1 << 32)))]

    def modifies(self, c, file, value):
        return [(file, "out")]

    def ensures(self, c, old, result, file, value):
        app = c.appended(old, file)
        return [
            ("appends-4", L(app) == 4),
            ("decodes", SP.uint32_le(app, 0) == value),
            ("exact", eq(app, to_bytes_le(value, 4))),
        ]


@contract
class WriteRealUint64(Contract):
    target = AI + "write_real_uint64"
    props = ("C17", "C07")

    def setup(self, c):
        return {"file": c.outstream("file"), "value": c.int("value")}

    def requires(self, c, file, value):
        return [("fits-64-bits", And(value >= 0, value < U64))]

    def modifies(self, c, file, value):
        return [(file, "out")]

    def ensures(self, c, old, result, file, value):
        app = c.appended(old, file)
        return [
            ("appends-8", L(app) == 8),
            ("decodes", SP.uint64_le(app, 0) == value),
            ("exact", eq(app, to_bytes_le(value, 8))),
        ]


# ---------------------------------------------------------------------------------------- NUMBER
@contract
class ReadUint64(Contract):
    """py7zr reads every specification-conforming encoding of every value (all 256 first bytes,
    non-minimal encodings included) and consumes exactly the announced bytes."""

    target = AI + "read_uint64"
    props = ("C17", "C06", "C05")
    opaque = ()

    def setup(self, c):
        return {"file": c.instream("file")}

    def raises(self):
        return [
            RaiseSpec("TypeError", when=lambda c, file: L(c.old.data(file)) - c.old.pos(file) <= 0, iff=True),
            RaiseSpec(
                "struct.error",
                when=lambda c, file: And(L(c.old.data(file)) - c.old.pos(file) > 0, nth(c.old.data(file), c.old.pos(file)) == 255, L(c.old.data(file)) - c.old.pos(file) < 9),
                iff=True,
            ),
        ]

    def modifies(self, c, file):
        return [(file, "pos")]

    def fresh_result(self, c, file):
        return c.int("number")

    def ensures(self, c, old, result, file):
        d, p = old.data(file), old.pos(file)
        mode = getattr(getattr(c, "eng", None), "ctx_mode", None)
        # the same facts through the opaque NUMBER functions (spec.primitives.NV / NL), for callers that walk lists
        full_o = And(p < L(d), p + SP.NL(d, p) <= L(d))
        opaque = [
            ("opaque-number", Implies(full_o, And(result == SP.NV(d, p), c.pos(file) == p + SP.NL(d, p)))),
            ("opaque-short-read-consumes-rest", Implies(Not(full_o), c.pos(file) == L(d))),
        ]
        common = [
            ("range", And(result >= 0, result < U64)),
            ("progress", c.pos(file) > p),
            ("frame-data", eq(c.data(file), d)),
        ]
        if mode == "assume" and getattr(c.eng.contract, "opaque_numbers", False):
            return opaque + common
        if mode == "prove":
            c.assume(SP.reveal_number(d, p))  # definition of the opaque NUMBER functions at (d, p)
        n = SP.number_extra(nth(d, p))
        full = L(d) - p >= 1 + n
        return [
            ("value", Implies(full, result == SP.number_value(d, p))),
            ("consumed", Implies(full, c.pos(file) == p + 1 + n)),
            ("short-read-consumes-rest", Implies(Not(full), c.pos(file) == L(d))),
        ] + common + opaque


@contract
class WriteUint64(Contract):
    """every value 0..2^64-1 is written in at most nine bytes that the specification's NUMBER table
    decodes to the same value"""

    target = AI + "write_uint64"
    props = ("C17", "C07")

    def setup(self, c):
        return {"file": c.outstream("file"), "value": c.int("value")}

    def requires(self, c, file, value):
        return [("value-in-uint64", And(value >= 0, value < U64))]

    def modifies(self, c, file, value):
        return [(file, "out")]

    def ensures(self, c, old, result, file, value):
        app = c.appended(old, file)
        mode = getattr(getattr(c, "eng", None), "ctx_mode", None)
        if mode == "prove":
            c.assume(SP.reveal_number(app, 0))  # definition of the opaque NUMBER functions at (app, 0)
            return [
                ("appends", L(app) >= 1),
                ("at-most-9-bytes", L(app) <= 9),
                ("length-announced", L(app) == SP.number_len(app, 0)),
                ("decodes-to-value", SP.number_value(app, 0) == value),
                ("opaque-number", And(SP.NL(app, 0) == L(app), SP.NV(app, 0) == value)),
            ]
        if mode == "assume" and getattr(c.eng.contract, "opaque_numbers", False):
            # callers that reason about lists of NUMBERs use the opaque form only (EUF + linear arithmetic)
            return [("appends", And(L(app) >= 1, L(app) <= 9)), ("opaque-number", And(SP.NL(app, 0) == L(app), SP.NV(app, 0) == value))]
        return [
            ("appends", L(app) >= 1),
            ("at-most-9-bytes", L(app) <= 9),
            ("length-announced", L(app) == SP.number_len(app, 0)),
            ("decodes-to-value", SP.number_value(app, 0) == value),
            ("opaque-number", And(SP.NL(app, 0) == L(app), SP.NV(app, 0) == value)),
        ]


# ---------------------------------------------------------------------------------------- BooleanList
from pyvc.contract import ForAll  # noqa: E402


def _mask_of(i):
    """value of `mask` at the head of iteration i of read_boolean's loop"""
    r = i % 8
    m = 0
    for j in range(1, 8):
        m = ite(r == j, 0x80 >> j, m)
    return m


@contract
class ReadBoolean(Contract):
    """bit k of the result is bit k of the BitField (MSB first), for vectors of every length;
    the all-defined shortcut yields count times True"""

    target = AI + "read_boolean"
    props = ("C17", "C06", "C05")
    sample_bounds = {"count": (0, 300)}

    def setup(self, c):
        return {"file": c.instream("file"), "count": c.int("count"), "checkall": c.bool("checkall")}

    def requires(self, c, file, count, checkall):
        return [("count-nonneg", count >= 0)]

    @staticmethod
    def _shortcut(snap, file, checkall):
        d, p = snap.data(file), snap.pos(file)
        return And(checkall, Or(L(d) - p <= 0, nth(d, p) != 0))

    @staticmethod
    def _q0(snap, file, checkall):
        return snap.pos(file) + ite(checkall, 1, 0)

    def raises(self):
        def when(c, file, count, checkall):
            o = c.old
            return And(Not(ReadBoolean._shortcut(o, file, checkall)), ReadBoolean._q0(o, file, checkall) + ceil8(count) > L(o.data(file)))

        return [RaiseSpec("TypeError", when=when, iff=True)]

    def modifies(self, c, file, count, checkall):
        return [(file, "pos")]

    def fresh_result(self, c, file, count, checkall):
        return c.bool_list("bools")

    def ensures(self, c, old, result, file, count, checkall):
        d, p = old.data(file), old.pos(file)
        sc = self._shortcut(old, file, checkall)
        q0 = self._q0(old, file, checkall)
        r = c.view(result)
        return [
            ("length", L(r) == count),
            ("shortcut-all-true", ForAll(lambda k: Implies(And(sc, k >= 0, k < count), nth(r, k)), over=r)),
            ("shortcut-consumes-flag", Implies(sc, c.pos(file) == ite(L(d) - p <= 0, p, p + 1))),
            ("bit-k", ForAll(lambda k: Implies(And(Not(sc), k >= 0, k < count), nth(r, k) == SP.bit(d, q0, k)), over=r)),
            ("consumed", Implies(Not(sc), c.pos(file) == q0 + ceil8(count))),
            ("frame-data", eq(c.data(file), d)),
        ]

    def loops(self):
        def inv(c, Lp):
            b = c.bound
            file, count, checkall = b["file"], b["count"], b["checkall"]
            o = c.old
            d = o.data(file)
            q0 = self._q0(o, file, checkall)
            i = Lp.i
            res = Lp.local("result")
            bb, mask = Lp.local("b"), Lp.local("mask")
            return [
                ("pos", c.pos(file) == q0 + ceil8(i)),
                ("mask", mask == _mask_of(i)),
                ("byte", And(bb >= 0, bb < 256, Implies(i % 8 != 0, bb == nth(d, q0 + i // 8)))),
                ("length", L(res) == i),
                ("prefix", ForAll(lambda k: Implies(And(k >= 0, k < i), nth(res, k) == SP.bit(d, q0, k)), over=res)),
                ("frame-data", eq(c.data(file), d)),
            ]

        return {"archiveinfo:read_boolean#loop0": LoopSpec(
                "for-i",
                inv,
                target="i in range(count)",
                cells={"result": "bool"},
                # prove the step separately for each bit position inside the byte (8 cases)
                case_split=[("@index_mod", 8), ("mask", lambda c, Lp: Lp.local("mask"))],
            )
        }


@contract
class WriteBoolean(Contract):
    target = AI + "write_boolean"
    props = ("C17", "C07")

    def setup(self, c):
        return {"file": c.outstream("file"), "booleans": c.bool_list("booleans"), "all_defined": c.bool("all_defined")}

    def modifies(self, c, file, booleans, all_defined):
        return [(file, "out")]

    def ensures(self, c, old, result, file, booleans, all_defined):
        from pyvc.values import all_true_of

        bs = c.view(booleans)
        app = c.appended(old, file)
        return SP.boolean_list_clauses(c, app, bs, all_defined)

    def loops(self):
        def inv(c, Lp):
            bs = c.view(c.bound["booleans"])
            n = L(bs)
            o = Lp.local("o")
            i = Lp.i
            return [
                ("length", L(o) == ceil8(n)),
                ("bits", ForAll(lambda k: Implies(And(k >= 0, k < 8 * ceil8(n)), SP.bit(o, 0, k) == And(k < i, nth(bs, k))), over=o, trigger=False, mod=8)),
                ("frame-out", eq(c.out(c.bound["file"]), Lp.ghost["out_at_loop"])),
            ]

        def init(c, Lp):
            Lp.ghost["out_at_loop"] = c.out(c.bound["file"])
            return []

        return {
            "archiveinfo:write_boolean#loop0": LoopSpec(
                "for-i-b", inv, target="(i, b) in enumerate(booleans)", unfold_init=init, case_split=[("@index_mod", 8)]
            )
        }


# ---------------------------------------------------------------------------------------- misc
@contract
class BitsToBytes(Contract):
    target = AI + "bits_to_bytes"
    props = ("C17", "C07")

    def setup(self, c):
        return {"bit_length": c.int("bit_length")}

    def fresh_result(self, c, bit_length):
        return c.int("nbytes")

    def ensures(self, c, old, result, bit_length):
        return [("ceil-div-8", result == ceil8(bit_length))]


# ---------------------------------------------------------------------------------------- CRC lists
@contract
class ReadCrcs(Contract):
    target = AI + "read_crcs"
    props = ("C17", "C06", "C05")
    sample_bounds = {"count": (0, 40)}

    def setup(self, c):
        return {"file": c.instream("file"), "count": c.int("count")}

    def requires(self, c, file, count):
        return [("count-nonneg", count >= 0)]

    def raises(self):
        return [RaiseSpec("struct.error", when=lambda c, file, count: L(c.old.data(file)) - c.old.pos(file) < 4 * count, iff=True)]

    def modifies(self, c, file, count):
        return [(file, "pos")]

    def fresh_result(self, c, file, count):
        return c.int_list("crcs")

    def ensures(self, c, old, result, file, count):
        d, p = old.data(file), old.pos(file)
        r = c.view(result)
        return [
            ("length", L(r) == count),
            ("value-k", ForAll(lambda k: Implies(And(k >= 0, k < count), nth(r, k) == SP.uint32_le(d, p + 4 * k)), over=r)),
            ("consumed", c.pos(file) == p + 4 * count),
            ("frame-data", eq(c.data(file), d)),
        ]


@contract
class WriteCrcs(Contract):
    target = AI + "write_crcs"
    props = ("C17", "C07")

    def setup(self, c):
        return {"file": c.outstream("file"), "crcs": c.int_list("crcs")}

    def requires(self, c, file, crcs):
        xs = c.view(crcs)
        return [("crcs-fit-32-bits", ForAll(lambda k: Implies(And(k >= 0, k < L(xs)), And(nth(xs, k) >= 0, nth(xs, k) < (1 << 32))), over=xs))]

    def modifies(self, c, file, crcs):
        return [(file, "out")]

    def ensures(self, c, old, result, file, crcs):
        xs = c.view(crcs)
        app = c.appended(old, file)
        return [
            ("length", L(app) == 4 * L(xs)),
            ("value-k", ForAll(lambda k: Implies(And(k >= 0, k < L(xs)), SP.uint32_le(app, 4 * k) == nth(xs, k)), over=xs)),
        ]

    def loops(self):
        def inv(c, Lp):
            file = c.bound["file"]
            xs = c.view(c.bound["crcs"])
            app = c.appended(c.old, file)
            i = Lp.i
            return [
                ("length", L(app) == 4 * i),
                ("value-k", ForAll(lambda k: Implies(And(k >= 0, k < i), SP.uint32_le(app, 4 * k) == nth(xs, k)), over=xs)),
            ]

        return {"archiveinfo:write_crcs#loop0": LoopSpec("for-crc", inv, target="crc in crcs")}


# ---------------------------------------------------------------------------------------- UTF-16 names
from pyvc.values import SSeq as _SSeq, is_sym as _is_sym  # noqa: E402
from spec import utf16 as U16  # noqa: E402


@contract
class WriteUtf16(Contract):
    """emits the UTF-16-LE code units of the name, then the zero unit"""

    target = AI + "write_utf16"
    props = ("C17", "C07", "C01")
    assumptions = ("str.encode('utf-16LE') is concatenation-compatible (encoding of a string is the concatenation of the encodings of its characters) - assumed codec fact, DESIGN.md 6.3",)

    def setup(self, c):
        return {"file": c.outstream("file"), "val": c.str("val")}

    def raises(self):
        return [RaiseSpec("UnicodeEncodeError")]  # lone surrogates cannot be encoded: an ordinary exception

    def modifies(self, c, file, val):
        return [(file, "out")]

    def ensures(self, c, old, result, file, val):
        return [("units-then-terminator", eq(c.appended(old, file), U16.encode(val) + b"\x00\x00"))]

    def loops(self):
        def inv(c, Lp):
            file, val = c.bound["file"], c.bound["val"]
            return [("emitted-prefix", eq(c.appended(c.old, file), U16.encode(slice_(val, 0, Lp.i))))]

        def step(c, Lp):
            val = c.bound["val"]
            return [U16.concat_axiom(slice_(val, 0, Lp.i), slice_(val, Lp.i, Lp.i + 1)), eq(slice_(val, 0, Lp.i + 1), slice_(val, 0, Lp.i) + slice_(val, Lp.i, Lp.i + 1))]

        def init(c, Lp):
            return [U16.empty_axiom()]

        return {"archiveinfo:write_utf16#loop0": LoopSpec("for-c", inv, target="c in val", unfold_init=init, unfold_step=step)}


MAX_UNITS = 65536  # archiveinfo.MAX_LENGTH (checked against the module constant by the loop anchor below)


@contract
class ReadUtf16(Contract):
    """returns the decoding of the code units before the first (aligned) zero unit, and consumes them and the
    terminator; never consumes more than MAX_LENGTH units (C05)"""

    target = AI + "read_utf16"
    props = ("C17", "C06", "C05", "C01")

    def setup(self, c):
        return {"file": c.instream("file")}

    def raises(self):
        return [RaiseSpec("UnicodeDecodeError")]

    def modifies(self, c, file):
        return [(file, "pos")]

    def fresh_result(self, c, file):
        return c.str("name")

    @staticmethod
    def _term(d, p, p1):
        return And(p1 - p >= 2, (p1 - p) % 2 == 0, nth(d, p1 - 2) == 0, nth(d, p1 - 1) == 0)

    def ensures(self, c, old, result, file):
        from pyvc.values import min_

        d, p = old.data(file), old.pos(file)
        p1 = c.pos(file)
        term = self._term(d, p, p1)
        e = ite(term, p1 - 2, p1)
        c.inst((p1 - p) // 2 - 1)  # proof hint: the loop invariant's fact about the last unit read
        return [
            ("terminated-name", Implies(term, eq(result, U16.decode(slice_(d, p, p1 - 2))))),
            ("unterminated-name", Implies(Not(term), And(eq(result, U16.decode(slice_(d, p, p1))), p1 == min_(p + 2 * MAX_UNITS, L(d))))),
            ("no-earlier-terminator", ForAll(lambda j: Implies(And(j >= 0, p + 2 * j + 2 <= e), Not(And(nth(d, p + 2 * j) == 0, nth(d, p + 2 * j + 1) == 0))), over=d, trigger=False)),
            ("bounded-consumption", And(p1 >= p, p1 <= p + 2 * MAX_UNITS, p1 <= L(d))),
            ("frame-data", eq(c.data(file), d)),
        ]

    def loops(self):
        def inv(c, Lp):
            from pyvc.values import min_

            file = c.bound["file"]
            d, p = c.old.data(file), c.old.pos(file)
            i = Lp.i
            pos = c.pos(file)
            val = Lp.local("val")
            return [
                ("pos", pos == min_(p + 2 * i, L(d))),
                ("val", eq(val, slice_(d, p, pos))),
                ("no-zero-unit", ForAll(lambda j: Implies(And(j >= 0, j < i, p + 2 * j + 2 <= L(d)), Not(And(nth(d, p + 2 * j) == 0, nth(d, p + 2 * j + 1) == 0))), over=d, trigger=False)),
                ("frame-data", eq(c.data(file), d)),
            ]

        return {"archiveinfo:read_utf16#loop0": LoopSpec("for-units", inv, target="_ in range(MAX_LENGTH)")}
