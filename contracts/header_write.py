"""Header.write / Header._encode_header (py7zr/archiveinfo.py), abstract mode - C07, C11, C14.

* Header.write: with `encrypted` the header goes through the ENCRYPTING coder chain (never in the clear), with `encoded`
  through the compressing chain, otherwise it is written raw: HEADER id, main streams, files info, END - all through the
  CRC-accumulating wrapper; the returned length is end position minus start position and the returned CRC is the
  wrapper's digest (C07 "declared equals actual").
* Header._encode_header: the raw header is serialised into a memory buffer only (never into the archive file), compressed
  with the given chain into the file; the encoded-header record announces pack position = start - afterheader, one pack
  stream of the compressor's packed size, the raw header's length and CRC.
"""
try:
    import z3
except Exception:
    z3 = None

from pyvc.contract import Contract, ForAll, LoopSpec, RaiseSpec, contract
from pyvc.values import And, Implies, Not, Or, eq, SBool, SInt, SOpq, truthy
from pyvc import values as V
from contracts.extract import attr

AI = "py7zr.archiveinfo:"


def _const(name):
    """integer constant `name` of py7zr/properties.py (read from the current source)"""
    import ast
    import os

    repo = os.environ.get("VERIF_REPO", "/repo")
    for st in ast.parse(open(os.path.join(repo, "py7zr", "properties.py")).read()).body:
        if isinstance(st, ast.Assign) and len(st.targets) == 1 and isinstance(st.targets[0], ast.Name) and st.targets[0].id == name:
            try:
                return ast.literal_eval(st.value)
            except Exception:
                return None
    return None


@contract
class HeaderWrite(Contract):
    target = AI + "Header.write"
    props = ("C07", "C11", "C14")
    abstract = True
    opaque = ("archiveinfo:write_byte", "archiveinfo:Header._encode_header", "archiveinfo:StreamsInfo.write", "archiveinfo:FilesInfo.write")
    stable_attrs = ("main_streams", "files_info", "digest")
    noraise = ("WriteWithCrc", "tell")
    frame_preserving = ("WriteWithCrc", "tell")

    def setup(self, c):
        e1 = c.choice(2)
        e2 = c.choice(2)
        return {"self_": c.opq("self"), "file": c.opq("file"), "afterheader": c.opq("afterheader"), "encoded": bool(e1), "encrypted": bool(e2)}

    def raises(self):
        return [RaiseSpec("Exception")]

    def global_override(self, modname, name):
        return None

    def ensures(self, c, old, result, **b):
        eng = c.eng
        if eng.ctx_mode == "assume":
            return []
        me, file = b["self_"], b["file"]
        enc = [e for e in eng.trace if e.kind == "call" and e.name.endswith("_encode_header")]
        raw = [e for e in eng.trace if e.kind == "call" and e.name.split(":")[-1].split(".")[-1] in ("write_byte",)]
        subs = [e for e in eng.trace if e.kind == "call" and e.name.split(":")[-1].split(".")[-1] == "write" and e.recv is not None]
        wrap = [e for e in eng.trace if e.kind == "call" and e.name.endswith("WriteWithCrc")]
        tells = [e for e in eng.trace if e.kind == "call" and e.name.endswith("tell")]
        out = []
        if b["encrypted"] or b["encoded"]:
            flt = enc[0].args[-1] if enc else None
            out.append(("header-goes-through-the-coder-chain-once", bool(len(enc) == 1 and not raw and not subs)))
            # the chain handed to _encode_header: a list of filter records; it encrypts iff one of them is the 7zAES filter
            ids = []
            try:
                for d in eng.static_items(flt):
                    ids.append(eng.get_field(d, "items").get("id"))
            except Exception:
                ids = None
            aes = _const("FILTER_CRYPTO_AES256_SHA256")
            if ids is None or aes is None:
                out.append(("chain-is-a-literal-filter-list", False))
            else:
                has_aes = any((not V.is_sym(x)) and x == aes for x in ids)
                out.append(("chain-encrypts-iff-header-encryption-was-requested", bool(has_aes == bool(b["encrypted"]) and len(ids) >= 1)))
        else:
            out.append(("raw-header-not-encoded", bool(not enc)))
            ok = len(raw) == 2 and len(wrap) == 1 and raw[0].args[0] is wrap[0].result and raw[1].args[0] is wrap[0].result and raw[0].args[1] == b"\x01" and raw[1].args[1] == b"\x00"
            out.append(("raw-header-framed-by-header-id-and-end-through-the-crc-wrapper", bool(ok)))
            out.append(("sections-written-through-the-crc-wrapper", bool(wrap and all(e.args and e.args[0] is wrap[0].result for e in subs))))
            out.append(("crc-is-the-wrapper's-digest", bool(isinstance(result, tuple) and len(result) == 3 and wrap) and eq(result[2], attr(wrap[0].result, "digest")) if isinstance(result, tuple) and len(result) == 3 and wrap and V.is_sym(result[2]) else False))
        out.append(("returns-start-length-crc", bool(isinstance(result, tuple) and len(result) == 3)))
        return out
