"""Smaller contracts added after the first seeded-change round:

* AESDecompressor.__init__ (compressor.py)  - C05 / C11: the key-derivation work factor taken from the (attacker
  controlled) coder properties is bounded before the KDF runs; salt / IV / cycles are the ones the properties carry.
* Worker.__init__ (py7zr.py)                - C13 / C08: every worker owns a fresh target table; the write cursor
  starts after the members already present.
* Worker.flush_archive (py7zr.py)           - C15 / C07 / C08: the last member's entry is touched only when a member
  exists; exactly one pack stream (size, optional CRC) is recorded for the folder.
* Cli.run_create (cli.py)                   - C19: the archive that is created is <name> when it ends in .7z and
  <name>.7z otherwise; exit status 0 only after the members were written.

All four are abstract-mode contracts (DESIGN.md 2.4): objects are opaque, the obligations are assertions over the
effect trace and the path condition; integer / string arithmetic is exact.
"""
import ast

try:
    import z3
except Exception:  # concrete-only interpreter
    z3 = None

from pyvc.contract import Contract, ForAll, LoopSpec, RaiseSpec, contract
from pyvc.values import And, Implies, Not, Or, L, ite, nth, slice_, eq, SBool, SInt, SOpq, SSeq, truthy
from pyvc import values as V
from pyvc.engine import Ref
from contracts.extract import attr, to_int

PY = "py7zr.py7zr:"


def len0(x):
    return SInt(V.uf("len", V.vsort(), z3.IntSort(), z3.IntSort())(x.t, z3.IntVal(0)))


def len_now(c, x):
    """len(x) of an opaque (mutable) container in the CURRENT heap version"""
    return SInt(V.uf("len", V.vsort(), z3.IntSort(), z3.IntSort())(x.t, z3.IntVal(c.eng.ghost.get("heapver", 0))))


# ============================================================================================ AESDecompressor.__init__
@contract
class AESDecompressorInit(Contract):
    """7zAES properties: byte0 = cycles(6 bits) | ivflag<<6 | saltflag<<7, byte1 = (saltsize-saltflag)<<4 | (ivsize-ivflag),
    then salt, then IV.  NumCyclesPower above 24 must be refused BEFORE the key derivation runs (2**24 SHA-256 rounds is
    the work bound the archive can impose); salt and IV handed on are exactly the bytes the properties carry."""

    target = "py7zr.compressor:AESDecompressor.__init__"
    props = ("C05", "C11", "C07")
    abstract = True
    assert_mode = "raise"
    pure = ("encode", "get_default_blocksize", "bytes")
    noraise = ("encode", "get_default_blocksize", "Buffer", "bytes")
    frame_preserving = ("encode", "get_default_blocksize", "Buffer", "calculate_key", "new", "bytes")
    assumptions = ("calculate_key(password, cycles, salt, digest) performs 2**cycles hash rounds (helpers.py); AES.new / Buffer construct objects without side effects",)

    def setup(self, c):
        props = c.bytes("aes_properties")
        bs = c.choice(2)
        return {"self_": c.opq("self"), "aes_properties": props, "password": c.opq("password"), "blocksize": None if bs == 0 else c.int("blocksize")}

    def raises(self):
        return [RaiseSpec("Exception")]

    @property
    def stmt_hooks(self):
        def hook(c, st):
            eng = c.eng
            if len(eng.frames) == 1 and isinstance(st, ast.If) and ast.unparse(st.test).replace(" ", "") == "ivsize<16":
                env = eng.frame.env
                env["ivsize"] = eng.concretize_int(env["ivsize"], "IV size (0..16 by construction of the two property bytes)", limit=40)

        return (hook,)

    def hooks(self):
        def on_kdf(c, ev):
            p = c.bound["aes_properties"]
            first = nth(p, 0)
            second = nth(p, 1)
            cycles = ev.args[1]
            salt = ev.args[2]
            saltsize = (first // 128) % 2 + second // 16
            c.oblig("assert", "kdf-work-factor-bounded@calculate_key", And(cycles >= 0, cycles <= 24), props=("C05",))
            c.oblig("assert", "kdf-cycles-are-the-stored-ones@calculate_key", cycles == first % 64, props=("C11", "C07"))
            c.oblig("assert", "kdf-salt-is-the-stored-one@calculate_key", eq(salt, slice_(p, 2, 2 + saltsize)), props=("C11", "C07"))
            c.eng.ghost["kdf"] = ev

        def on_new(c, ev):
            p = c.bound["aes_properties"]
            first, second = nth(p, 0), nth(p, 1)
            saltsize = (first // 128) % 2 + second // 16
            ivsize = (first // 64) % 2 + second % 16
            kdf = c.eng.ghost.get("kdf")
            c.oblig("assert", "cipher-key-is-the-derived-key@new", bool(kdf is not None and ev.args and ev.args[0] is kdf.result), props=("C11",))
            iv = ev.args[2] if len(ev.args) > 2 else None
            ok = False
            if iv is not None and isinstance(iv, (SSeq, bytes)):
                stored = slice_(p, 2 + saltsize, 2 + saltsize + ivsize)
                ok = And(eq(slice_(iv, 0, ivsize), stored), L(iv) == V.max_(16, ivsize))
            c.oblig("assert", "cipher-iv-is-the-stored-one-zero-padded@new", ok, props=("C11", "C07"))

        # `calculate_key` is an alias chosen at import time (helpers.py): _calculate_key3 or _calculate_key2
        return {("call", "calculate_key"): [on_kdf], ("call", "_calculate_key3"): [on_kdf], ("call", "_calculate_key2"): [on_kdf], ("call", "_calculate_key1"): [on_kdf], ("call", "new"): [on_new]}

    def ensures(self, c, old, result, **b):
        if c.eng.ctx_mode == "assume":
            return []
        kdf = c.eng.ghost.get("kdf")
        return [("key-derived-before-normal-return", bool(kdf is not None))]


# ===================================================================================================== Worker.__init__
@contract
class WorkerInit(Contract):
    """every Worker object gets its OWN, initially empty, member-id -> output-target table (concurrent SevenZipFile
    objects must not share one), and the write cursor starts behind the members that already exist"""

    target = PY + "Worker.__init__"
    props = ("C13", "C08", "C12")
    abstract = True
    noraise = ("len",)
    stable_attrs = ("files",)

    def setup(self, c):
        mp = c.choice(2)
        return {"self_": c.opq("self"), "files": c.opq("files"), "src_start": c.opq("src_start"), "header": c.opq("header"), "mp": bool(mp)}

    def raises(self):
        return [RaiseSpec("Exception")]

    def ensures(self, c, old, result, **b):
        eng = c.eng
        if eng.ctx_mode == "assume":
            return []
        me = b["self_"]
        sets = {}
        for e in eng.trace:
            if e.kind == "setattr" and e.recv is me:
                sets[e.name] = e.args[0]
        tf = sets.get("target_filepath")
        fresh_empty = isinstance(tf, Ref) and eng.kind(tf) == "dict" and len(eng.get_field(tf, "items")) == 0 and tf.id >= eng.ghost.get("first_id_in_call", 0)
        n = len0(b["files"])
        cur, last = sets.get("current_file_index"), sets.get("last_file_index")
        out = [
            ("own-empty-target-table", bool(fresh_empty), ("C13", "C12")),
            ("members-and-header-kept", bool(sets.get("files") is b["files"] and sets.get("header") is b["header"] and sets.get("src_start") is b["src_start"])),
            ("write-cursor-after-existing-members", (cur == n) if cur is not None and V.is_sym(cur) else False, ("C08",)),
            ("last-written-index-before-the-cursor", (last == n - 1) if last is not None and V.is_sym(last) else False, ("C08",)),
        ]
        return out


# ================================================================================================= Worker.flush_archive
@contract
class FlushArchive(Contract):
    """closing a folder: the rest of the coder output is flushed, exactly one pack stream is recorded (its size, and its
    CRC iff pack digests are enabled), the folder gets the coder unpack sizes, and the entry of the last written member
    is only touched when the session has a member at all"""

    target = PY + "Worker.flush_archive"
    props = ("C15", "C07", "C08")
    abstract = True
    stable_attrs = ("header", "files_info", "main_streams", "packinfo", "files", "last_file_index", "packsizes", "crcs", "digestdefined", "packsize", "digest", "unpacksizes")
    noraise = ("get_compressor", "append", "len", "get")
    frame_preserving = ("get_compressor", "append", "len", "get")
    pure = ("get",)
    assumptions = ("list.append and dict.get do not raise and dict.get modifies nothing; compressor.flush(fp) may raise (source of the folder is the codec)",)

    def setup(self, c):
        return {"self_": c.opq("self"), "fp": c.opq("fp"), "folder": c.opq("folder")}

    def raises(self):
        return [RaiseSpec("Exception")]

    @property
    def stmt_hooks(self):
        def hook(c, st):
            eng = c.eng
            if len(eng.frames) != 1:
                return
            # any statement of flush_archive itself that reads the last member's entry
            head = st.test if isinstance(st, ast.If) else st
            if isinstance(st, (ast.If, ast.Assign, ast.AugAssign, ast.Expr, ast.AnnAssign)) and "files[self.last_file_index]" in ast.unparse(head).replace(" ", ""):
                me = c.bound["self_"]
                c.oblig("assert", "last-member-entry-touched-only-when-a-member-exists@%s" % type(st).__name__, len_now(c, attr(me, "files")) > 0, props=("C15",))

        return (hook,)

    def ensures(self, c, old, result, **b):
        eng = c.eng
        if eng.ctx_mode == "assume":
            return []
        me = b["self_"]
        pk = attr(attr(attr(me, "header"), "main_streams"), "packinfo")
        comps = [e for e in eng.trace if e.kind == "call" and e.name.endswith("get_compressor")]
        comp = comps[-1].result if comps else None
        flushes = [e for e in eng.trace if e.kind == "call" and e.name.endswith("flush")]
        apps = [e for e in eng.trace if e.kind == "call" and e.name.endswith("append")]
        ps_app = [e for e in apps if eq(e.recv, attr(pk, "packsizes")) is not False and c.pc_implies(eq(e.recv, attr(pk, "packsizes")))]
        crc_app = [e for e in apps if c.pc_implies(eq(e.recv, attr(pk, "crcs")))]
        dd_app = [e for e in apps if c.pc_implies(eq(e.recv, attr(pk, "digestdefined")))]
        sets = [e for e in eng.trace if e.kind == "setattr"]
        ns = [e for e in sets if e.name == "numstreams"]
        fu = [e for e in sets if e.name == "unpacksizes" and e.recv is b["folder"]]
        out = [
            ("coder-output-flushed-once", bool(len(flushes) == 1 and comp is not None and flushes[0].recv is comp and flushes[0].args and flushes[0].args[0] is b["fp"]), ("C07", "C01")),
            ("one-pack-size-recorded", bool(len(ps_app) == 1) and (eq(ps_app[0].args[0], attr(comp, "packsize")) if len(ps_app) == 1 and comp is not None else False), ("C07", "C08")),
            ("pack-crc-recorded-iff-enabled", bool(len(crc_app) == len(dd_app) and len(crc_app) <= 1) and (And(eq(crc_app[0].args[0], attr(comp, "digest")), eq(dd_app[0].args[0], True)) if len(crc_app) == 1 and comp is not None else True), ("C07",)),
            ("stream-count-incremented", bool(len(ns) == 1), ("C07", "C08")),
            ("folder-gets-the-coder-unpack-sizes", bool(len(fu) == 1) and (eq(fu[0].args[0], attr(comp, "unpacksizes")) if len(fu) == 1 and comp is not None else False), ("C07",)),
        ]
        return out


# ================================================================================================== Header.initialize
@contract
class HeaderInitialize(Contract):
    """first write of a session.  Append mode (main_streams parsed from the existing archive): ONE new folder is added
    at the END of the folder list, the folder count grows by one and a zero unpack-stream counter is appended for it -
    nothing that describes the old members is touched.  Create mode: a header with exactly one folder, no pack
    streams, no members.  Later calls return the folder opened by the first one."""

    target = "py7zr.archiveinfo:Header.initialize"
    props = ("C08", "C07")
    abstract = True
    stable_attrs = ("password", "filters")
    noraise = ("append", "Folder", "FilesInfo", "StreamsInfo", "PackInfo", "UnpackInfo", "SubstreamsInfo", "len")
    frame_preserving = ("append", "Folder", "FilesInfo", "StreamsInfo", "PackInfo", "UnpackInfo", "SubstreamsInfo", "prepare_coderinfo", "len")
    assumptions = ("constructors of the header record classes and Folder.prepare_coderinfo touch only the object they build / the new folder",)

    def setup(self, c):
        me = c.opq("self")
        ms = attr(me, "main_streams")
        # precondition (established by StreamsInfo.read since the repair FX14, and by create mode itself): a header with
        # main streams has folder information and a SubStreamsInfo object
        c.assume(Or(eq(ms, None), And(Not(eq(attr(ms, "unpackinfo"), None)), Not(eq(attr(ms, "substreamsinfo"), None)))))
        return {"self_": me}

    def raises(self):
        return [RaiseSpec("Exception")]

    def ensures(self, c, old, result, **b):
        eng = c.eng
        if eng.ctx_mode == "assume":
            return []
        me = b["self_"]
        mk = [e for e in eng.trace if e.kind == "call" and e.name.split(":")[-1].split(".")[-1] == "Folder"]
        apps = [e for e in eng.trace if e.kind == "call" and e.name.endswith("append")]
        sets = [e for e in eng.trace if e.kind == "setattr"]
        if not mk:
            # a later call of the session: nothing may be modified
            return [("later-calls-change-nothing", bool(not apps and not sets))]
        folder = mk[-1].result
        out = [("returns-the-new-folder", bool(result is folder))]
        ms_sets = [e for e in sets if e.name == "main_streams" and e.recv is me]
        if ms_sets:
            # create mode
            fsets = [e for e in sets if e.name == "folders"]
            nsets = [e for e in sets if e.name == "num_unpackstreams_folders"]
            ok_f = bool(fsets) and isinstance(fsets[-1].args[0], Ref) and eng.kind(fsets[-1].args[0]) == "list" and eng.static_items(fsets[-1].args[0]) == [folder]
            last_n = nsets[-1].args[0] if nsets else None
            ok_n = isinstance(last_n, Ref) and eng.kind(last_n) == "list" and eng.static_items(last_n) == [0]
            out.append(("new-header-has-exactly-the-new-folder", bool(ok_f)))
            out.append(("new-header-counts-no-unpack-streams-yet", bool(ok_n)))
            return out
        # append mode: the parsed header is extended in place
        ms = attr(me, "main_streams")
        up = attr(ms, "unpackinfo")
        ss = attr(ms, "substreamsinfo")
        f_app = [e for e in apps if e.args and e.args[0] is folder]
        n_app = [e for e in apps if e.args and not V.is_sym(e.args[0]) and e.args[0] == 0]
        nf = [e for e in sets if e.name == "numfolders"]
        touched = [e for e in sets if e.name not in ("numfolders", "_initialized", "password")] + [e for e in apps if e not in f_app and e not in n_app]
        out += [
            ("folder-appended-at-the-end-of-the-folder-list", bool(len(f_app) == 1) and (eq(f_app[0].recv, attr(up, "folders")) if len(f_app) == 1 else False)),
            ("folder-count-grows-by-one", bool(len(nf) == 1) and (eq(nf[0].recv, up) if len(nf) == 1 else False)),
            ("zero-stream-counter-appended-for-the-new-folder", bool(len(n_app) == 1) and (eq(n_app[0].recv, attr(ss, "num_unpackstreams_folders")) if len(n_app) == 1 else False)),
            ("nothing-else-of-the-parsed-header-is-touched", bool(not touched)),
        ]
        return out


# ================================================================================================== Worker._after_write
@contract
class AfterWrite(Contract):
    """bookkeeping after one member was compressed: exactly one size, one CRC and one defined-flag are APPENDED to the
    substream lists (old entries stay), and the stream counter of the LAST folder - the one this session writes to -
    grows by one"""

    target = PY + "Worker._after_write"
    props = ("C08", "C07", "C01")
    abstract = True
    stable_attrs = ("header", "main_streams", "substreamsinfo", "digestsdefined", "digests")
    noraise = ("append",)
    frame_preserving = ("append",)

    def setup(self, c):
        return {"self_": c.opq("self"), "insize": c.opq("insize"), "foutsize": c.opq("foutsize"), "crc": c.opq("crc")}

    def raises(self):
        return [RaiseSpec("Exception")]

    def ensures(self, c, old, result, **b):
        eng = c.eng
        if eng.ctx_mode == "assume":
            return []
        me = b["self_"]
        ss = attr(attr(attr(me, "header"), "main_streams"), "substreamsinfo")
        apps = [e for e in eng.trace if e.kind == "call" and e.name.endswith("append")]
        sets = [e for e in eng.trace if e.kind == "setattr"]
        items = [e for e in eng.trace if e.kind == "setitem"]
        a_dd = [e for e in apps if e.args and e.args[0] is True]
        a_crc = [e for e in apps if e.args and e.args[0] is b["crc"]]
        a_sz = [e for e in apps if e.args and e.args[0] is b["insize"]]
        s_sz = [e for e in sets if e.name == "unpacksizes"]
        s_n = [e for e in sets if e.name == "num_unpackstreams_folders"]
        size_ok = (len(a_sz) == 1 and not s_sz) or (len(s_sz) == 1 and not a_sz and isinstance(s_sz[0].args[0], Ref) and eng.static_items(s_sz[0].args[0]) == [b["insize"]])
        cnt_ok = (len(items) == 1 and not s_n and not V.is_sym(items[0].args[0]) and items[0].args[0] == -1) or (len(s_n) == 1 and not items)
        return [
            ("one-defined-flag-appended", bool(len(a_dd) == 1) and (eq(a_dd[0].recv, attr(ss, "digestsdefined")) if len(a_dd) == 1 else False)),
            ("the-member-crc-appended", bool(len(a_crc) == 1) and (eq(a_crc[0].recv, attr(ss, "digests")) if len(a_crc) == 1 else False)),
            ("the-member-size-appended", bool(size_ok)),
            ("last-folder-counter-incremented", bool(cnt_ok)),
            ("returns-packed-size-and-crc", bool(isinstance(result, tuple) and len(result) == 2 and result[0] is b["foutsize"] and result[1] is b["crc"])),
            ("nothing-else-modified", bool(len(apps) == len(a_dd) + len(a_crc) + len(a_sz) and len(sets) == len(s_sz) + len(s_n))),
        ]


# ====================================================================================== SevenZipCompressor.unpacksizes
@contract
class CompressorUnpackSizes(Contract):
    """one unpack size per CODER of the folder, last coder first: coder i gets the size fed to the chain element that
    implements it; two consecutive coders that are both handled by the native lzma chain share one element.  Verified
    for coder lists of length 1..4 (4 is the format's maximum, docs/archive_format.rst 'Coders Information')."""

    target = "py7zr.compressor:SevenZipCompressor.unpacksizes"
    props = ("C07", "C01")
    unroll_limit = 8

    def setup(self, c):
        n = c.choice(4) + 1
        mm = [c.bool("native%d" % k) for k in range(n)]
        self_ = c.obj("SevenZipCompressor", "py7zr.compressor", methods_map=c.list_of(mm), _unpacksizes=c.int_list("chain_sizes"), coders=c.list_of([0] * n))
        return {"self_": self_, "_mm": mm}

    def call_args(self, bound):
        return [bound["self_"]], {}

    def requires(self, c, self_, _mm):
        ups = c.f(self_, "_unpacksizes")
        merged = 0
        for k in range(1, len(_mm)):
            merged = merged + ite(And(_mm[k], _mm[k - 1]), 1, 0)
        return [("one-size-per-chain-element", L(ups) == len(_mm) - merged)]

    def fresh_result(self, c, **b):
        return c.int_list("sizes")

    def ensures(self, c, old, result, self_, _mm):
        ups = c.f(self_, "_unpacksizes")
        r = c.view(result)
        n = len(_mm)
        out = [("one-size-per-coder", L(r) == n)]
        shift = 0
        for i in range(n):
            if i >= 1:
                shift = shift + ite(And(_mm[i], _mm[i - 1]), 1, 0)
            out.append(("coder-%d-gets-its-chain-element's-size" % i, nth(r, n - 1 - i) == nth(ups, i - shift)))
        return out


# ===================================================================================================== UnpackInfo.write
@contract
class UnpackInfoWrite(Contract):
    """UnpackInfo as py7zr writes it (and as its own reader and the format accept it): id 0x07, Folder id 0x0B, NUMBER
    folder count, external = 0, every folder's coder description once and in order, id 0x0C, every coder unpack size of
    every folder in order, END - and nothing else (in particular no UnpackDigests record: single-stream folder CRCs are
    carried by SubStreamsInfo, which would otherwise list them twice)"""

    target = "py7zr.archiveinfo:UnpackInfo.write"
    props = ("C08", "C07")
    abstract = True
    assert_mode = "raise"
    opaque = ("archiveinfo:write_uint64", "archiveinfo:write_byte", "archiveinfo:write_bytes", "archiveinfo:write_boolean", "archiveinfo:write_crcs", "archiveinfo:write_uint32", "archiveinfo:Folder.write")
    stable_attrs = ("folders", "numfolders", "unpacksizes")
    noraise = ("len",)
    frame_preserving = ("write", "write_uint64", "write_byte", "write_bytes", "write_boolean", "write_crcs", "write_uint32", "len")

    def setup(self, c):
        return {"self_": c.opq("self"), "file": c.opq("file")}

    def raises(self):
        return [RaiseSpec("Exception")]

    @staticmethod
    def _writes(evs):
        return [e for e in evs if e.kind == "call" and e.name.split(":")[-1].split(".")[-1] in ("write", "write_uint64", "write_byte", "write_bytes", "write_boolean", "write_crcs", "write_uint32", "write_real_uint64")]

    def ensures(self, c, old, result, **b):
        eng = c.eng
        if eng.ctx_mode == "assume":
            return []
        me, file = b["self_"], b["file"]
        w = self._writes(eng.trace)
        shape = [(e.name.split(":")[-1].split(".")[-1], e) for e in w]
        names = [n for n, _ in shape]
        ok_names = names == ["write", "write", "write_uint64", "write_byte", "write_byte", "write_byte"]
        out = [("exactly-the-section-skeleton-outside-the-loops", bool(ok_names))]
        if ok_names:
            ev = [e for _, e in shape]
            raw = lambda e: e.args[0] if e.recv is not None and e.recv is file else (e.args[1] if len(e.args) > 1 else None)
            out += [
                ("section-id", bool(ev[0].recv is file and ev[0].args[0] == b"\x07")),
                ("folder-id", bool(ev[1].recv is file and ev[1].args[0] == b"\x0b")),
                ("folder-count-written", eq(ev[2].args[1], attr(me, "numfolders")) if V.is_sym(ev[2].args[1]) else False),
                ("folders-inline", bool(ev[3].args[1] == b"\x00")),
                ("unpack-size-id", bool(ev[4].args[1] == b"\x0c")),
                ("end-marker-last", bool(ev[5].args[1] == b"\x00" and eng.trace.index(ev[5]) == max(eng.trace.index(e) for e in w))),
                ("all-into-the-same-stream", bool(all((e.recv is file) or (e.args and e.args[0] is file) for e in ev))),
            ]
        return out

    def loops(self):
        def noinv(c, Lp):
            return []

        def one_folder(c, Lp):
            w = self._writes(c.eng.trace[Lp.trace_mark:])
            el = Lp.element(Lp.i)
            ok = len(w) == 1 and w[0].name.endswith("write") and w[0].recv is not None and w[0].args and w[0].args[0] is c.bound["file"]
            return [("each-folder-described-once", eq(w[0].recv, el) if ok else False)]

        def one_size(c, Lp):
            w = self._writes(c.eng.trace[Lp.trace_mark:])
            el = Lp.element(Lp.i)
            ok = len(w) == 1 and w[0].name.endswith("write_uint64") and w[0].args[0] is c.bound["file"]
            return [("each-unpack-size-written-once", eq(w[0].args[1], el) if ok else False)]

        def sizes_of_folder(c, Lp):
            # the inner loop is summarised: nothing else may be written in this iteration
            w = self._writes(c.eng.trace[Lp.trace_mark:])
            return [("only-sizes-between-the-markers", bool(len(w) == 0))]

        return {
            "archiveinfo:UnpackInfo.write#loop0": LoopSpec("for-folder", noinv, target="folder in self.folders", asserts=one_folder),
            "archiveinfo:UnpackInfo.write#loop1": LoopSpec("for-folder-sizes", noinv, target="folder in self.folders", asserts=sizes_of_folder),
            "archiveinfo:UnpackInfo.write#loop2": LoopSpec("for-s", noinv, target="s in folder.unpacksizes", asserts=one_size),
        }


# ================================================================================================ AESCompressor.__init__
@contract
class AESCompressorInit(Contract):
    """every encrypting coder draws a FRESH 16-byte IV from the system randomness while it is being constructed, uses
    exactly that IV for its cipher and keeps it for the coder properties; the key is derived from the caller's password
    with the cycles / salt that the properties will announce"""

    target = "py7zr.compressor:AESCompressor.__init__"
    props = ("C11", "C07")
    abstract = True
    bytes_functions = ("get_random_bytes",)
    pure = ("encode", "get_default_blocksize")
    noraise = ("encode", "get_default_blocksize", "Buffer", "get_random_bytes")
    frame_preserving = ("encode", "get_default_blocksize", "Buffer", "calculate_key", "_calculate_key3", "_calculate_key2", "new", "get_random_bytes")
    assumptions = ("Cryptodome.Random.get_random_bytes(n) returns n fresh random bytes (freshness itself is an assumption about the OS); AES.new / Buffer construct objects without side effects",)

    def setup(self, c):
        bs = c.choice(2)
        return {"self_": c.opq("self"), "password": c.opq("password"), "blocksize": None if bs == 0 else c.int("blocksize")}

    def raises(self):
        return [RaiseSpec("Exception")]

    def hooks(self):
        def on_rand(c, ev):
            c.assume(L(ev.result) == (ev.args[0] if ev.args and isinstance(ev.args[0], int) else 16))

        return {("call", "get_random_bytes"): [on_rand]}

    def ensures(self, c, old, result, **b):
        eng = c.eng
        if eng.ctx_mode == "assume":
            return []
        me = b["self_"]
        rnd = [e for e in eng.trace if e.kind == "call" and e.name.endswith("get_random_bytes")]
        new = [e for e in eng.trace if e.kind == "call" and e.name.split(".")[-1] == "new"]
        kdf = [e for e in eng.trace if e.kind == "call" and "calculate_key" in e.name]
        sets = {}
        for e in eng.trace:
            if e.kind == "setattr" and e.recv is me:
                sets[e.name] = e.args[0]
        out = [("iv-drawn-during-construction", bool(len(rnd) == 1 and rnd[0].args and rnd[0].args[0] == 16))]
        if len(rnd) == 1 and new:
            iv = new[-1].args[2] if len(new[-1].args) > 2 else None
            kept = sets.get("iv")
            # abstract mode does not interpret bytes concatenation on attributes of the opaque `self` (the zero padding
            # `self.iv += bytes(16 - len(self.iv))`): the clauses are taint-style - the value handed to the cipher and the
            # value kept for the properties are the SAME term and that term is built from the fresh random bytes
            sym = str(rnd[0].result.t)
            out.append(("cipher-iv-is-built-from-the-fresh-bytes", bool(iv is not None and V.is_sym(iv) and sym in str(iv.t))))
            out.append(("properties-will-announce-the-cipher's-iv", eq(kept, iv) if kept is not None and iv is not None and V.is_sym(kept) and V.is_sym(iv) else False))
        else:
            out.append(("cipher-iv-is-built-from-the-fresh-bytes", False))
        if kdf and new:
            out.append(("cipher-key-is-derived-from-the-password", bool(new[-1].args[0] is kdf[-1].result)))
            out.append(("kdf-parameters-are-the-announced-ones", And(eq(kdf[-1].args[1], sets.get("cycles")), eq(kdf[-1].args[2], sets.get("salt"))) if "cycles" in sets and "salt" in sets else False))
        else:
            out.append(("cipher-key-is-derived-from-the-password", False))
        return out


# ======================================================================================================= Worker.archive
@contract
class WorkerArchive(Contract):
    """one call archives exactly the member at the write cursor: its data is compressed at most once (members with data,
    and links unless dereferenced), the size / CRC returned by the codec are stored in THAT member's header entry, the
    cursor then advances by one - and stays where it was when compressing raised (C15: the cursor never runs ahead of
    the members that were archived)"""

    target = PY + "Worker.archive"
    props = ("C08", "C15", "C01")
    abstract = True
    track_raises = True
    stable_attrs = ("header", "files_info", "files", "current_file_index")
    noraise = ("has_strdata",)
    frame_preserving = ("has_strdata",)

    def setup(self, c):
        d = c.choice(2)
        return {"self_": c.opq("self"), "fp": c.opq("fp"), "files": c.opq("files"), "folder": c.opq("folder"), "deref": bool(d)}

    def raises(self):
        return [RaiseSpec("Exception")]

    def _facts(self, c, b):
        eng = c.eng
        me = b["self_"]
        comp = [e for e in eng.trace if e.kind == "call" and e.name.split(":")[-1].split(".")[-1] in ("write", "writestr") and e.recv is me]
        sets = [e for e in eng.trace if e.kind == "setattr" and e.recv is me]
        items = [e for e in eng.trace if e.kind == "setitem"]
        return comp, sets, items

    def ensures(self, c, old, result, **b):
        eng = c.eng
        if eng.ctx_mode == "assume":
            return []
        comp, sets, items = self._facts(c, b)
        cur = [e for e in sets if e.name == "current_file_index"]
        last = [e for e in sets if e.name == "last_file_index"]
        out = [
            ("data-compressed-at-most-once", len(comp) <= 1),
            ("cursor-advances-by-exactly-one", len(cur) == 1),
            ("cursor-advances-after-the-data-was-written", bool(not comp or (cur and eng.trace.index(comp[-1]) < eng.trace.index(cur[-1])))),
            ("size-and-crc-recorded-iff-data-was-compressed", bool((len(items) == 2 and len(comp) == 1 and len(last) == 1) or (len(items) == 0 and len(comp) == 0 and len(last) == 0))),
        ]
        if len(comp) == 1 and len(items) == 2:
            keys = sorted(str(e.args[0]) for e in items)
            out.append(("recorded-under-maxsize-and-digest", bool(keys == ["digest", "maxsize"])))
            out.append(("the-member-passed-to-the-codec-is-the-one-at-the-cursor", bool(comp[0].args and len(comp[0].args) >= 2 and comp[0].args[0] is b["fp"])))
        return out

    def xensures(self, c, old, exc, **b):
        comp, sets, items = self._facts(c, b)
        cur = [e for e in sets if e.name == "current_file_index"]
        return [("cursor-unchanged-when-archiving-raised", len(cur) == 0, ("C15",))]
