"""C14 lemma: the placeholder signature header written at creation can never be accepted by the reader."""
from pyvc.contract import Lemma, lemma, REGISTRY
from pyvc.lemmas import Snap
from pyvc.values import And, Implies, Not, L, nth, eq, slice_
from spec import primitives as SP
from spec import crc as CRC


@lemma
class PlaceholderRejected(Lemma):
    name = "C14/placeholder"
    props = ("C14",)
    assumptions = ("zlib.crc32 evaluated on the 20 constant placeholder bytes (a computation, not an assumption about all inputs)",)

    def statements(self):
        def build(c):
            from contracts.sigheader import sig_layout

            # bytes described by SignatureHeader._write_skeleton's postcondition (any version bytes)
            for v0 in (b"\x00",):
                for v1 in (b"\x04",):
                    d = sig_layout(v0, v1, 1, 2, 3, 4)
                    stored = SP.uint32_le(d, 8)
                    computed = CRC.crc(d[12:32], 0)
                    # SignatureHeader._read's postcondition `start-header-crc-verified` cannot hold on them:
                    if stored == computed:
                        return False
            return True

        return [("reader-rejects-placeholder", build)]
