"""Worker._extract_single / _check (py7zr/py7zr.py) in abstract mode: guard, ordering and accounting obligations
for C03 (sinks), C04 (no success without CRC comparison), C09 (skip-offset invariant), C18 (event trace).

Abstract mode (DESIGN.md 2.4): objects are opaque, attribute reads are uninterpreted functions, unknown callees
return fresh values / may raise / havoc what they can reach; designated effect calls are recorded in a trace and
the obligations below are assertions over that trace and the path condition.
"""
try:
    import z3
except Exception:  # concrete-only interpreter
    z3 = None

from pyvc.contract import Contract, ForAll, LoopSpec, RaiseSpec, contract
from pyvc.values import And, Implies, Not, Or, L, ite, nth, eq, SBool, SInt, SOpq, truthy
from pyvc import values as V

PY = "py7zr.py7zr:"

# ArchiveFile properties and pathlib attributes are read-only views of data that extraction does not modify
STABLE = ("id", "filename", "emptystream", "uncompressed", "compressed", "crc32", "folder", "is_symlink", "is_junction", "is_directory", "is_socket", "parent", "target_filepath")


def to_int(x):
    return SInt(V.uf("to_int", V.vsort(), z3.IntSort())(V.box(x).t))


def attr(o, name):
    return SOpq(V.uf("attr_" + name, V.vsort(), z3.IntSort(), V.vsort())(o.t, z3.IntVal(0)))


def SIZE(f):
    """declared uncompressed size of member f (an integer >= 0 for members produced by the header reader)"""
    return to_int(attr(f, "uncompressed"))


def PRE(files, i):
    """PRE(i): bytes of the folder stream before member i = sum of the sizes of the non-empty members before it"""
    return SInt(V.uf("pre_offset", V.vsort(), z3.IntSort(), z3.IntSort())(files.t, V._zi(i)))


def item(files, i):
    return SOpq(V.uf("item", V.vsort(), z3.IntSort(), V.vsort())(files.t, V._zi(i)))


def nonempty(f):
    return Not(truthy(attr(f, "emptystream")))


def pre_unfold(files, i):
    f = item(files, i)
    return PRE(files, i + 1) == PRE(files, i) + ite(nonempty(f), SIZE(f), 0)


def SUMJ(seq):
    """sum of the sizes of a list of (unselected, non-empty) members waiting to be decoded-and-discarded"""
    if not V.is_sym(seq):
        acc = 0
        for g in seq:
            acc = acc + SIZE(g)
        return acc
    return SInt(V.uf("sum_sizes", V.seq_sort("opq"), z3.IntSort())(seq.t))


def sumj_snoc(seq, f):
    s = V.to_seq(seq, elem="opq", py="list") if not isinstance(seq, V.SSeq) else seq
    snoc = V.SSeq(z3.Concat(s.t, z3.Unit(f.t)), "opq", "list")
    return SUMJ(snoc) == SUMJ(s) + SIZE(f)


def sumj_empty():
    e = V.SSeq(z3.Empty(V.seq_sort("opq")), "opq", "list")
    return SUMJ(e) == 0


@contract
class ExtractSingle(Contract):
    target = PY + "Worker._extract_single"
    props = ("C03", "C04", "C09", "C18")
    abstract = True
    self_class = ("py7zr.py7zr", "Worker")
    # Worker.decompress is used here through the facts stated in `assumptions` (hook on its call), its contract is in wdecompress.py
    opaque = ("py7zr:Worker.decompress", "helpers:is_path_valid")  # is_path_valid: lexical containment, its own contract in paths.py
    pure = ("get", "is_path_valid", "joinpath", "pathlib.Path", "pathlib.Path.cwd", "resolve", "str", "decode")
    stable_attrs = STABLE
    track_raises = False
    assumptions = (
        "abstract mode: ArchiveFile properties / pathlib attributes (%s) are stable during the call; dict.get, is_path_valid, joinpath, pathlib.Path, str are pure" % ", ".join(STABLE),
        "filesystem: Path.resolve() of an output path's parent denotes the same location at the containment check and at the effect that follows it in the same iteration (no concurrent modification of the destination; mkdir(parents, exist_ok) only creates the missing tail)",
        "platform: sys.platform == 'linux' (the junction branch is dead there)",
        "Worker.decompress consumes exactly `size` bytes of the folder stream on normal return (its own contract, C01/C05)",
    )

    def setup(self, c):
        qcase = c.choice(2)
        q = None if qcase == 0 else c.opq("q")
        if q is not None:
            c.assume(Not(eq(q, None)))  # second case of the split: a queue object is given
        b = {"self_": c.opq("self"), "fp": c.opq("fp"), "files": c.opq("files"), "path": c.opq("path"), "src_end": c.opq("src_end"), "q": q, "skip_notarget": c.bool("skip_notarget")}
        c.eng.ghost["off"] = 0  # bytes of the folder stream consumed by this call so far
        c.eng.ghost["files"] = b["files"]
        return b

    def raises(self):
        return [RaiseSpec("Exception")]

    # ---- effect hooks --------------------------------------------------------------------------------
    def hooks(self):
        def on_decompress(c, ev):
            eng = c.eng
            files = eng.ghost["files"]
            L_ = eng.ghost.get("loop")
            size = ev.args[3]
            if L_ is not None:
                f = item(files, L_.i)
                # C09: the selected member is decoded from its own offset: everything before it has been consumed
                c.oblig("assert", "offset-of-selected-member@decompress", eng.ghost["off"] == PRE(files, L_.i), props=("C09",))
                c.oblig("assert", "decodes-declared-size@decompress", eq(size, attr(f, "uncompressed")), props=("C09", "C04"))
            eng.ghost["off"] = eng.ghost["off"] + to_int(size)
            eng.ghost.setdefault("decoded", []).append(ev)

        def on_check(c, ev):
            # Worker._check's contract: it decodes (and compares) every member of the list = consumes the sum of their sizes
            eng = c.eng
            jc = ev.args[2]
            items = c.view(jc) if not isinstance(jc, SOpq) else jc
            eng.ghost["off"] = eng.ghost["off"] + SUMJ(items)
            # C18: members that are only decoded to be skipped produce no progress events - the reporter queue is not
            # handed to the skip path (self, fp, list, src_end and nothing else)
            extra = [a for a in ev.args[4:] if a is not None] + [v for v in ev.kwargs.values() if v is not None]
            c.oblig("assert", "skipped-members-report-no-progress@_check", bool(not extra), props=("C18",))

        def is_root(c, t):
            """t is the resolved destination computed at entry: (Path.cwd() if path is None else Path(path)).resolve()"""
            eng = c.eng
            path = c.bound["path"]
            for r in [x for x in eng.trace if x.kind == "pure" and x.name.endswith("resolve") and x.result is t]:
                src = r.recv
                for m in [x for x in eng.trace if x.kind == "pure" and x.result is src]:
                    if m.name.endswith("pathlib.Path.cwd") and not m.args:
                        return eq(path, None)
                    if m.name.endswith("pathlib.Path") and len(m.args) == 1 and m.args[0] is path:
                        return Not(eq(path, None))
            return False

        def resolved_parent(c, t, fileish):
            """formula: t is fileish.parent.resolve()"""
            good = False
            for r in [x for x in c.eng.trace if x.kind == "pure" and x.name.endswith("resolve") and x.result is t]:
                good = Or(good, eq(r.recv, attr(fileish, "parent")))
            return good

        def sink(kind):
            def h(c, ev):
                eng = c.eng
                L_ = eng.ghost.get("loop")
                if L_ is None:
                    return
                fileish = eng.frames[0].env.get("fileish")
                recv = ev.recv
                ok = Or(eq(recv, fileish), eq(recv, attr(fileish, "parent"))) if isinstance(fileish, SOpq) else False
                c.oblig("assert", "sink-uses-registered-path@%s" % kind, ok, props=("C03",))
                if not isinstance(fileish, SOpq):
                    return
                start = eng.ghost.get("iter_start", 0)
                pv = [e for e in eng.trace[start:] if e.kind == "pure" and e.name.endswith("is_path_valid")]
                # C03 (links made by earlier members): the REAL parent directory of the output path was checked against
                # the REAL destination in this iteration, before the first filesystem effect on it
                good = False
                for e in pv:
                    good = Or(good, And(truthy(e.result), resolved_parent(c, e.args[0], fileish), is_root(c, e.args[1])))
                # (an in-memory writer has no filesystem effect)
                memio = SBool(V.uf("isinstance_MemIO", V.vsort(), z3.BoolSort())(fileish.t))
                c.oblig("assert", "real-parent-inside-destination-checked@%s" % kind, Or(memio, good), props=("C03",))
                if kind == "symlink_to":
                    good = False
                    for e in pv:
                        # the check was made on  fileish.parent.resolve().joinpath(dst).resolve()  against the resolved
                        # destination, it held, and the link text is that dst
                        for r2 in [x for x in eng.trace if x.kind == "pure" and x.name.endswith("resolve") and x.result is e.args[0]]:
                            for jp in [x for x in eng.trace if x.kind == "pure" and x.name.endswith("joinpath") and x.result is r2.recv]:
                                dst = jp.args[0]
                                mk = [x for x in eng.trace if x.kind == "pure" and x.name.endswith("pathlib.Path") and x.result is ev.args[0]]
                                cond = And(truthy(e.result), resolved_parent(c, jp.recv, fileish), is_root(c, e.args[1]))
                                cond = And(cond, eq(mk[-1].args[0], dst)) if mk else And(cond, eq(ev.args[0], dst))
                                good = Or(good, cond)
                    c.oblig("assert", "symlink-guarded@symlink_to", good, props=("C03",))

            return h

        def on_put(c, ev):
            c.eng.ghost.setdefault("puts", []).append(ev)

        return {
            ("call", "decompress"): [on_decompress],
            ("contract-call", PY + "Worker._check"): [on_check],
            ("call", "symlink_to"): [sink("symlink_to")],
            ("call", "open"): [sink("open")],
            ("call", "touch"): [sink("touch")],
            ("call", "mkdir"): [sink("mkdir")],
            ("call", "unlink"): [sink("unlink")],
            ("call", "put"): [on_put],
        }

    # ---- the member loop ---------------------------------------------------------------------------------
    def loops(self):
        def inv(c, Lp):
            eng = c.eng
            files = c.bound["files"]
            jc = Lp.local("just_check")
            return [
                ("skip-offset", eng.ghost["off"] + SUMJ(jc) == PRE(files, Lp.i)),
                ("offsets-nonneg", And(eng.ghost["off"] >= 0, SUMJ(jc) >= 0)),
            ]

        def init(c, Lp):
            files = c.bound["files"]
            return [PRE(files, 0) == 0, sumj_empty()]

        def step(c, Lp):
            eng = c.eng
            files = c.bound["files"]
            eng.ghost["loop"] = Lp
            f = item(files, Lp.i)
            jc = Lp.local("just_check")
            eng.ghost["fileish"] = None
            eng.ghost["iter_start"] = len(eng.trace)
            eng.ghost["decoded"] = []
            eng.ghost["puts"] = []
            # fileish as the code computes it: self.target_filepath.get(f.id, None)
            return [pre_unfold(files, Lp.i), sumj_snoc(jc, f), sumj_empty(), SIZE(f) >= 0]

        def asserts(c, Lp):
            eng = c.eng
            files = c.bound["files"]
            f = item(files, Lp.i - 0)
            out = []
            q = c.bound["q"]
            # C04: a delivered non-empty member is never reported as done without the checksum comparison
            for ev in eng.ghost.get("decoded", []):
                kinds = [e.name for e in eng.trace[eng.ghost["iter_start"]:] if e.kind == "call"]
                where = "symlink" if "symlink_to" in kinds else ("regular-file" if "open" in kinds else "other")
                crc = attr(f, "crc32")
                out.append(("crc-compared-before-success@%s" % where, Or(eq(crc, None), eq(ev.result, crc))))
            # C18: exactly one start event first and one end event last, carrying the member's name and size
            if q is not None:
                puts = eng.ghost.get("puts", [])
                calls = [e for e in eng.trace[eng.ghost["iter_start"]:] if e.kind == "call"]
                ok = len(puts) == 2 and calls and calls[0] is puts[0] and calls[-1] is puts[1]
                out.append(("one-start-first-one-end-last", bool(ok)))
                if ok:
                    s_ev, e_ev = puts
                    sa, ea = s_ev.args[0], e_ev.args[0]
                    good = isinstance(sa, tuple) and isinstance(ea, tuple) and sa[0] == "s" and ea[0] == "e"
                    out.append(("event-kinds", bool(good)))
                    if good:
                        out.append(("start-carries-name", eq(sa[1], _str(c, attr(f, "filename")))))
                        out.append(("end-carries-name-and-size", And(eq(ea[1], _str(c, attr(f, "filename"))), eq(ea[2], _str(c, attr(f, "uncompressed"))))))
            return out

        return {
            "py7zr:Worker._extract_single#loop0": LoopSpec(
                "for-f", inv, target="f in files", unfold_init=init, unfold_step=step, cells={"just_check": "opq"}, rebind=("just_check",), ghosts=["off"], asserts=asserts
            )
        }

    def stmt_hook(self, c, st):
        pass

    def ensures(self, c, old, result, **b):
        eng = c.eng
        if eng.ctx_mode == "assume":
            return []  # ghost clauses are exported to callers through their hooks, not assumed as formulas
        files = b["files"]
        n = SInt(V.uf("len", V.vsort(), z3.IntSort(), z3.IntSort())(files.t, z3.IntVal(0)))
        return [
            # testzip(): with skip_notarget False every non-empty member has been decoded (and compared by _check)
            ("all-bytes-consumed-when-not-skipping", Implies(Not(b["skip_notarget"]), eng.ghost["off"] == PRE(files, n)), ("C04", "C09")),
        ]


def _str(c, x):
    return SOpq(V.uf("str", V.vsort(), V.vsort())(V.box(x).t))  # the engine's model of str() in abstract mode


@contract
class WorkerCheck(Contract):
    """delayed CRC check of members that are decoded only to be skipped: every member of the list is decoded with its
    declared size and, on normal return, its CRC has been compared (C04); consumes the sum of their sizes (C09)"""

    target = PY + "Worker._check"
    props = ("C04", "C09", "C18")
    abstract = True
    self_class = ("py7zr.py7zr", "Worker")
    opaque = ("py7zr:Worker.decompress", "helpers:is_path_valid")  # is_path_valid: lexical containment, its own contract in paths.py
    stable_attrs = STABLE
    pure = ("str",)

    def setup(self, c):
        ct = c.list_of(c.eng.fresh_seq("check_target", "opq", "list"))
        c.eng.ghost["consumed"] = 0
        return {"self_": c.opq("self"), "fp": c.opq("fp"), "check_target": ct, "src_end": c.opq("src_end")}

    def raises(self):
        return [RaiseSpec("Exception")]

    def hooks(self):
        def on_decompress(c, ev):
            eng = c.eng
            Lp = eng.ghost.get("loop")
            tgt = c.view(c.bound["check_target"])
            f = nth(tgt, Lp.i)
            c.oblig("assert", "decodes-declared-size@decompress", eq(ev.args[3], attr(f, "uncompressed")), props=("C04", "C09"))
            # C18: decoding a member only to skip it reports nothing (no reporter queue: 7th positional / keyword q)
            qarg = ev.args[6] if len(ev.args) > 6 else ev.kwargs.get("q")
            c.oblig("assert", "skipped-members-report-no-progress@decompress", bool(qarg is None), props=("C18",))
            eng.ghost["consumed"] = eng.ghost["consumed"] + to_int(ev.args[3])
            eng.ghost.setdefault("decoded", []).append(ev)

        return {("call", "decompress"): [on_decompress]}

    def loops(self):
        def inv(c, Lp):
            tgt = c.view(c.bound["check_target"])
            return [("consumed-prefix", c.eng.ghost["consumed"] == SUMJ(V.slice_(tgt, 0, Lp.i)))]

        def init(c, Lp):
            return [sumj_empty()]

        def step(c, Lp):
            eng = c.eng
            eng.ghost["loop"] = Lp
            eng.ghost["decoded"] = []
            tgt = c.view(c.bound["check_target"])
            i = Lp.i
            f = nth(tgt, i)
            pre = V.slice_(tgt, 0, i)
            return [sumj_snoc(pre, f), eq(V.slice_(tgt, 0, i + 1), V.SSeq(z3.Concat(V.to_seq(pre).t, z3.Unit(f.t)), "opq", "list"))]

        def asserts(c, Lp):
            tgt = c.view(c.bound["check_target"])
            f = nth(tgt, Lp.i)
            out = []
            dec = c.eng.ghost.get("decoded", [])
            out.append(("member-decoded-once", len(dec) == 1))
            for ev in dec:
                crc = attr(f, "crc32")
                out.append(("crc-compared-before-success@skipped-member", Or(eq(crc, None), eq(ev.result, crc))))
            return out

        return {"py7zr:Worker._check#loop0": LoopSpec("for-f", inv, target="f in check_target", unfold_init=init, unfold_step=step, ghosts=["consumed"], asserts=asserts)}

    def ensures(self, c, old, result, **b):
        tgt = c.view(b["check_target"])
        out = [("list-unchanged", eq(c.view(b["check_target"]), old.deref(b["check_target"])))]
        if c.eng.ctx_mode != "assume":
            # ghost clause: exported to callers through their `contract-call` hook (they add SUMJ(list) to their offset)
            out.append(("consumes-sum-of-sizes", c.eng.ghost["consumed"] == SUMJ(tgt)))
        return out


@contract
class ExtractSingleOuter(Contract):
    """error propagation of the per-folder worker entry point (C13): without an exception queue every exception
    reaches the caller; with a queue the call never raises and every exception is queued exactly once.
    Also: the folder is decoded from `src_start` (seek before decoding) - C06/C09/C12."""

    target = PY + "Worker.extract_single"
    props = ("C13", "C06", "C12")
    abstract = True
    self_class = ("py7zr.py7zr", "Worker")
    track_raises = True
    pure = ("str",)
    noraise = ("put", "exc_info")  # queue.Queue.put on an unbounded queue and sys.exc_info() do not raise (assumed)
    assumptions = ("queue.Queue.put (unbounded queue) and sys.exc_info() do not raise",)

    def setup(self, c):
        case = c.choice(2)
        exc_q = None if case == 0 else c.opq("exc_q")
        if exc_q is not None:
            c.assume(Not(eq(exc_q, None)))
        files = c.opq("files")
        c.eng.ghost["caught"] = 0
        c.eng.ghost["queued"] = []
        return {"self_": c.opq("self"), "fp": c.opq("fp"), "files": files, "path": c.opq("path"), "src_start": c.opq("src_start"), "src_end": c.opq("src_end"), "q": c.opq("q"), "exc_q": exc_q, "skip_notarget": c.bool("skip_notarget")}

    def raises(self):
        # an exception may leave the call only when no exception queue was given
        return [RaiseSpec("Exception", when=lambda c, **b: b["exc_q"] is None)]

    def hooks(self):
        def on_except(c, ev):
            c.eng.ghost["caught"] = c.eng.ghost["caught"] + 1

        def on_put(c, ev):
            if ev.recv is c.bound["exc_q"]:
                c.eng.ghost["queued"].append(ev)

        def on_inner(c, ev):
            # the folder is decoded after positioning the (own) file handle at src_start
            seeks = [e for e in c.eng.trace if e.kind == "call" and e.name == "seek"]
            ok = bool(seeks) and seeks[-1].args and True
            c.oblig("assert", "seek-to-folder-start-before-decoding", And(bool(ok), eq(seeks[-1].args[0], c.bound["src_start"])) if ok else False, props=("C06", "C12", "C09"))
            c.oblig("assert", "decodes-on-the-handle-it-positioned", eq(ev.args[1], seeks[-1].recv) if ok else False, props=("C13", "C06"))

        return {("except", None): [on_except], ("call", "put"): [on_put], ("contract-call", PY + "Worker._extract_single"): [on_inner]}

    def ensures(self, c, old, result, **b):
        eng = c.eng
        if eng.ctx_mode == "assume":
            return []
        out = []
        if b["exc_q"] is not None:
            out.append(("every-exception-queued-exactly-once", len(eng.ghost["queued"]) == eng.ghost["caught"] and eng.ghost["caught"] <= 1, ("C13",)))
        else:
            out.append(("nothing-swallowed", eng.ghost["caught"] == 0, ("C13",)))
        return out


import ast as _ast  # noqa: E402


@contract
class WorkerExtract(Contract):
    """dispatch of folders to workers (C06, C09, C12, C13): every decode goes through extract_single (which positions
    the handle); folder i is decoded from src_start + packpos + packpositions[i] to src_start + packpos + packpositions[i+1] with its own
    member list; a folder is skipped only when none of its members has a target; parallel workers get the file *name*
    (own handle) and the exception queue, and the queue is consulted before returning."""

    target = PY + "Worker.extract"
    props = ("C13", "C06", "C09", "C12", "C04")
    abstract = True
    self_class = ("py7zr.py7zr", "Worker")
    pure = ("get", "str")
    stable_attrs = ("header", "main_streams", "packinfo", "unpackinfo", "packpositions", "packpos", "numfolders", "folders", "files", "src_start", "target_filepath", "concurrent", "emptystream", "id", "name", "extract_single")
    noraise = ("Queue",)
    opaque = ("py7zr:Worker.extract_single",)  # recorded as an effect call; its own contract: ExtractSingleOuter
    frame_preserving = ("extract_single", "start", "join", "append", "empty", "open", "Queue", "concurrent")
    assumptions = (
        "abstract mode: header / packinfo / folder attributes are stable during the call; list comprehensions over opaque lists are opaque functions of the iterable",
        "threading.Thread: join() returns after the target has finished and workers share the parent's queue object; multiprocessing.Process: the child works on a COPY of the parent's objects (DESIGN.md 6.3)",
    )

    def setup(self, c):
        par = c.bool("parallel")
        c.eng.ghost["calls"] = []
        return {"self_": c.opq("self"), "fp": c.opq("fp"), "path": c.opq("path"), "parallel": par, "skip_notarget": c.bool("skip_notarget"), "q": c.opq("q")}

    def raises(self):
        return [RaiseSpec("Exception")]

    def _expected(self, c, i, plus):
        from pyvc import builtins_model as B

        eng = c.eng
        me = c.bound["self_"]
        positions = attr(attr(attr(attr(me, "header"), "main_streams"), "packinfo"), "packpositions")
        idx = i + plus
        # packed stream i of the main streams starts at  <end of signature header> + pack position + packpositions[i]
        base = B.binop(eng, _ast.Add(), attr(me, "src_start"), attr(attr(attr(attr(me, "header"), "main_streams"), "packinfo"), "packpos"), None)
        return B.binop(eng, _ast.Add(), base, B.get_item(eng, positions, idx, None), None)

    def _pos(self, c, name):
        """position of parameter `name` in the CURRENT signature of Worker.extract_single (after self): positional
        arguments handed to a worker are checked against the parameter they actually bind to"""
        fr = c.eng.registry.resolve_target(PY + "Worker.extract_single")
        names = [a.arg for a in fr.node.args.posonlyargs + fr.node.args.args][1:]
        if name not in names:
            raise V.EngineError("anchor lost: Worker.extract_single has no parameter %s" % name)
        return names.index(name)

    def hooks(self):
        def on_inner(c, ev):
            c.oblig("assert", "no-decoding-without-positioning", False, props=("C12", "C06"))

        def on_es(c, ev):
            eng = c.eng
            eng.ghost["calls"].append(ev)
            Lp = eng.ghost.get("loop")
            me = c.bound["self_"]
            if Lp is None or not eng.ghost.get("in_loop"):
                # outside the folder loops: the single-folder call decodes ALL members from the start of the packed
                # streams to their end (the other out-of-loop calls hand over the empty members with offsets 0, 0)
                P0 = lambda nm: self._pos(c, nm)
                if len(ev.args) > max(P0("files"), P0("src_start"), P0("src_end")) and ev.args[P0("files")] is not None and V.is_sym(ev.args[P0("files")]) and c.pc_implies(eq(ev.args[P0("files")], attr(me, "files"))):
                    from pyvc import builtins_model as B0

                    pk = attr(attr(attr(me, "header"), "main_streams"), "packinfo")
                    base = B0.binop(eng, _ast.Add(), attr(me, "src_start"), attr(pk, "packpos"), None)
                    end = B0.binop(eng, _ast.Add(), base, B0.get_item(eng, attr(pk, "packpositions"), -1, None), None)
                    c.oblig("assert", "single-folder-start-offset@extract_single", eq(ev.args[P0("src_start")], base), props=("C06",))
                    c.oblig("assert", "single-folder-end-offset@extract_single", eq(ev.args[P0("src_end")], end), props=("C06",))
                return
            folders = attr(attr(attr(attr(me, "header"), "main_streams"), "unpackinfo"), "folders")
            from pyvc import builtins_model as B

            i = Lp.i
            fi = B.get_item(eng, folders, i, None)
            P = lambda nm: self._pos(c, nm)
            if len(ev.args) <= max(P("files"), P("src_start"), P("src_end")):
                c.oblig("assert", "folder-member-list@extract_single", False, props=("C06", "C09"))
                return
            c.oblig("assert", "folder-member-list@extract_single", eq(ev.args[P("files")], attr(fi, "files")), props=("C06", "C09"))
            c.oblig("assert", "folder-start-offset@extract_single", eq(ev.args[P("src_start")], self._expected(c, i, 0)), props=("C06",))
            c.oblig("assert", "folder-end-offset@extract_single", eq(ev.args[P("src_end")], self._expected(c, i, 1)), props=("C06",))

        def on_task(c, ev):
            eng = c.eng
            Lp = eng.ghost.get("loop")
            args = ev.kwargs.get("args")
            ok = isinstance(args, tuple) and len(args) == 8
            c.oblig("assert", "worker-task-shape@concurrent", bool(ok), props=("C13",))
            if not ok:
                return
            fname = eng.frames[0].env.get("filename")
            excq = eng.frames[0].env.get("exc_q")
            P = lambda nm: self._pos(c, nm)
            c.oblig("assert", "worker-opens-its-own-handle@concurrent", bool(args[P("fp")] is fname and not (args[P("fp")] is c.bound["fp"])), props=("C13",))
            c.oblig("assert", "worker-gets-the-exception-queue@concurrent", bool(excq is not None and args[P("exc_q")] is excq), props=("C13", "C04"))
            c.oblig("assert", "worker-gets-the-skip-flag@concurrent", bool(args[P("skip_notarget")] is c.bound["skip_notarget"]), props=("C04", "C09"))
            c.oblig("assert", "worker-target-is-extract_single@concurrent", eq(ev.kwargs.get("target"), attr(c.bound["self_"], "extract_single")), props=("C13",))
            me = c.bound["self_"]
            folders = attr(attr(attr(attr(me, "header"), "main_streams"), "unpackinfo"), "folders")
            from pyvc import builtins_model as B

            if Lp is not None:
                fi = B.get_item(eng, folders, Lp.i, None)
                c.oblig("assert", "folder-member-list@concurrent", eq(args[P("files")], attr(fi, "files")), props=("C06", "C09"))
                c.oblig("assert", "folder-start-offset@concurrent", eq(args[P("src_start")], self._expected(c, Lp.i, 0)), props=("C06",))
                c.oblig("assert", "folder-end-offset@concurrent", eq(args[P("src_end")], self._expected(c, Lp.i, 1)), props=("C06",))
            eng.ghost["tasks_this_iter"] = eng.ghost.get("tasks_this_iter", 0) + 1

        return {("contract-call", PY + "Worker._extract_single"): [on_inner], ("call", "_extract_single"): [on_inner], ("call", "extract_single"): [on_es], ("call", "concurrent"): [on_task]}

    def loops(self):
        def mk(name, target, parallel):
            def inv(c, Lp):
                return []

            def step(c, Lp):
                eng = c.eng
                eng.ghost["loop"] = Lp
                eng.ghost["in_loop"] = True
                eng.ghost["iter_start"] = len(eng.trace)
                eng.ghost["tasks_this_iter"] = 0
                return []

            def asserts(c, Lp):
                eng = c.eng
                me = c.bound["self_"]
                evs = eng.trace[eng.ghost["iter_start"]:]
                started = [e for e in evs if e.kind == "call" and e.name in ("extract_single", "concurrent")]
                out = []
                if not started:
                    # the folder was skipped: only allowed when skipping is on and none of its members has a target ...
                    anys = [e for e in evs if e.kind == "pure" and e.name == "any"]
                    comps = [e for e in evs if e.kind == "pure" and e.name == "listcomp"]
                    from pyvc import builtins_model as B

                    folders = attr(attr(attr(attr(me, "header"), "main_streams"), "unpackinfo"), "folders")
                    fi = B.get_item(eng, folders, Lp.i, None)
                    # ... or when the folder owns no member at all (no unpack streams: its member list was never created)
                    ok = eq(attr(fi, "files"), None)
                    for a in anys:
                        for cp in comps:
                            if a.args[0] is cp.result and "target_filepath.get(f.id, None)" in cp.kwargs.get("text", ""):
                                ok = Or(ok, And(eq(cp.args[0], attr(fi, "files")), Not(a.result), c.bound["skip_notarget"]))
                    out.append(("folder-skipped-only-without-targets", ok))
                else:
                    out.append(("one-worker-per-folder", len(started) == 1))
                eng.ghost["in_loop"] = False
                return out

            return LoopSpec(name, inv, target=target, unfold_step=step, asserts=asserts, cells={"concurrent_tasks": "opq"})

        def invj(c, Lp):
            return []

        return {
            "py7zr:Worker.extract#loop0": mk("for-i-sequential", "i in range(numfolders)", False),
            "py7zr:Worker.extract#loop1": mk("for-i-parallel", "i in range(numfolders)", True),
            "py7zr:Worker.extract#loop2": LoopSpec("for-p-join", invj, target="p in concurrent_tasks"),
        }

    def ensures(self, c, old, result, **b):
        eng = c.eng
        if eng.ctx_mode == "assume":
            return []
        out = []
        tr = eng.trace
        tasks = [e for e in tr if e.kind == "call" and e.name == "concurrent"]
        joins = [e for e in tr if e.kind == "call" and e.name == "join"]
        empties = [e for e in tr if e.kind == "call" and e.name == "empty"]
        took_parallel = any(e.kind == "call" and e.name == "Queue" for e in tr)
        if took_parallel:
            # the exception queue is consulted after the joins and a normal return means it was empty
            ok = bool(empties) and truthy(empties[-1].result)
            out.append(("queue-consulted-before-normal-return", ok, ("C13",)))
            # lemma `worker error reaches the caller`: holds under the Thread contract (shared queue object) by the clause
            # above; under the Process contract the child fills a COPY of exc_q, so an empty parent queue says nothing:
            # not provable -> known finding F05 (self.concurrent is Process when mp=True)
            mp_process = SBool(V.uf("concurrent_is_process", V.vsort(), z3.BoolSort())(b["self_"].t))
            out.append(("F05:worker-error-raised-under-process-workers", Not(mp_process), ("C13",), {"kind": "finding"}))
        return out
