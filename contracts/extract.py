"""Worker._extract_single / _check (py7zr/py7zr.py) in abstract mode: guard, ordering and accounting obligations
for C03 (sinks), C04 (no success without CRC comparison), C09 (skip-offset invariant), C18 (event trace).

Abstract mode (DESIGN.md 2.4): objects are opaque, attribute reads are uninterpreted functions, unknown callees
return fresh values / may raise / havoc what they can reach; designated effect calls are recorded in a trace and
the obligations below are assertions over that trace and the path condition.
"""
try:
    import z3
except Exception:  # concrete-only interpreter
    z3 = None

from pyvc.contract import Contract, ForAll, LoopSpec, RaiseSpec, contract
from pyvc.values import And, Implies, Not, Or, L, ite, nth, eq, SBool, SInt, SOpq, truthy
from pyvc import values as V

PY = "py7zr.py7zr:"

# ArchiveFile properties and pathlib attributes are read-only views of data that extraction does not modify
STABLE = ("id", "filename", "emptystream", "uncompressed", "compressed", "crc32", "folder", "is_symlink", "is_junction", "is_directory", "is_socket", "parent", "target_filepath")


def to_int(x):
    return SInt(V.uf("to_int", V.vsort(), z3.IntSort())(V.box(x).t))


def attr(o, name):
    return SOpq(V.uf("attr_" + name, V.vsort(), z3.IntSort(), V.vsort())(o.t, z3.IntVal(0)))


def SIZE(f):
    """declared uncompressed size of member f (an integer >= 0 for members produced by the header reader)"""
    return to_int(attr(f, "uncompressed"))


def PRE(files, i):
    """PRE(i): bytes of the folder stream before member i = sum of the sizes of the non-empty members before it"""
    return SInt(V.uf("pre_offset", V.vsort(), z3.IntSort(), z3.IntSort())(files.t, V._zi(i)))


def item(files, i):
    return SOpq(V.uf("item", V.vsort(), z3.IntSort(), V.vsort())(files.t, V._zi(i)))


def nonempty(f):
    return Not(truthy(attr(f, "emptystream")))


def pre_unfold(files, i):
    f = item(files, i)
    return PRE(files, i + 1) == PRE(files, i) + ite(nonempty(f), SIZE(f), 0)


def SUMJ(seq):
    """sum of the sizes of a list of (unselected, non-empty) members waiting to be decoded-and-discarded"""
    if not V.is_sym(seq):
        acc = 0
        for g in seq:
            acc = acc + SIZE(g)
        return acc
    return SInt(V.uf("sum_sizes", V.seq_sort("opq"), z3.IntSort())(seq.t))


def sumj_snoc(seq, f):
    s = V.to_seq(seq, elem="opq", py="list") if not isinstance(seq, V.SSeq) else seq
    snoc = V.SSeq(z3.Concat(s.t, z3.Unit(f.t)), "opq", "list")
    return SUMJ(snoc) == SUMJ(s) + SIZE(f)


def sumj_empty():
    e = V.SSeq(z3.Empty(V.seq_sort("opq")), "opq", "list")
    return SUMJ(e) == 0


@contract
class ExtractSingle(Contract):
    target = PY + "Worker._extract_single"
    props = ("C03", "C04", "C09", "C18")
    abstract = True
    self_class = ("py7zr.py7zr", "Worker")
    # Worker.decompress is used here through the facts stated in `assumptions` (hook on its call), its contract is in wdecompress.py
    opaque = ("py7zr:Worker.decompress",)
    pure = ("get", "is_path_valid", "joinpath", "pathlib.Path", "str", "decode")
    stable_attrs = STABLE
    track_raises = False
    assumptions = (
        "abstract mode: ArchiveFile properties / pathlib attributes (%s) are stable during the call; dict.get, is_path_valid, joinpath, pathlib.Path, str are pure" % ", ".join(STABLE),
        "platform: sys.platform == 'linux' (the junction branch is dead there)",
        "Worker.decompress consumes exactly `size` bytes of the folder stream on normal return (its own contract, C01/C05)",
    )

    def setup(self, c):
        qcase = c.choice(2)
        q = None if qcase == 0 else c.opq("q")
        if q is not None:
            c.assume(Not(eq(q, None)))  # second case of the split: a queue object is given
        b = {"self_": c.opq("self"), "fp": c.opq("fp"), "files": c.opq("files"), "path": c.opq("path"), "src_end": c.opq("src_end"), "q": q, "skip_notarget": c.bool("skip_notarget")}
        c.eng.ghost["off"] = 0  # bytes of the folder stream consumed by this call so far
        c.eng.ghost["files"] = b["files"]
        return b

    def raises(self):
        return [RaiseSpec("Exception")]

    # ---- effect hooks --------------------------------------------------------------------------------
    def hooks(self):
        def on_decompress(c, ev):
            eng = c.eng
            files = eng.ghost["files"]
            L_ = eng.ghost.get("loop")
            size = ev.args[3]
            if L_ is not None:
                f = item(files, L_.i)
                # C09: the selected member is decoded from its own offset: everything before it has been consumed
                c.oblig("assert", "offset-of-selected-member@decompress", eng.ghost["off"] == PRE(files, L_.i), props=("C09",))
                c.oblig("assert", "decodes-declared-size@decompress", eq(size, attr(f, "uncompressed")), props=("C09", "C04"))
            eng.ghost["off"] = eng.ghost["off"] + to_int(size)
            eng.ghost.setdefault("decoded", []).append(ev)

        def on_check(c, ev):
            # Worker._check's contract: it decodes (and compares) every member of the list = consumes the sum of their sizes
            eng = c.eng
            jc = ev.args[2]
            items = c.view(jc) if not isinstance(jc, SOpq) else jc
            eng.ghost["off"] = eng.ghost["off"] + SUMJ(items)

        def sink(kind):
            def h(c, ev):
                eng = c.eng
                L_ = eng.ghost.get("loop")
                if L_ is None:
                    return
                fileish = eng.frames[0].env.get("fileish")
                recv = ev.recv
                ok = Or(eq(recv, fileish), eq(recv, attr(fileish, "parent"))) if isinstance(fileish, SOpq) else False
                c.oblig("assert", "sink-uses-registered-path@%s" % kind, ok, props=("C03",))
                if kind == "symlink_to":
                    path = c.bound["path"]
                    pv = [e for e in eng.trace if e.kind == "pure" and e.name.endswith("is_path_valid")]
                    good = False
                    for e in pv:
                        tgt = e.args[0]
                        # the check was made on  fileish.parent.joinpath(dst)  against the destination, and it held
                        jp = [x for x in eng.trace if x.kind == "pure" and x.name == "joinpath" and x.result is tgt]
                        if not jp:
                            continue
                        dst = jp[-1].args[0]
                        mk = [x for x in eng.trace if x.kind == "pure" and x.name == "pathlib.Path" and x.result is ev.args[0]]
                        cond = And(truthy(e.result), eq(jp[-1].recv, attr(fileish, "parent")), eq(e.args[1], path))
                        if mk:
                            cond = And(cond, eq(mk[-1].args[0], dst))
                        else:
                            cond = And(cond, eq(ev.args[0], dst))
                        good = Or(good, cond)
                    c.oblig("assert", "symlink-guarded@symlink_to", good, props=("C03",))

            return h

        def on_put(c, ev):
            c.eng.ghost.setdefault("puts", []).append(ev)

        return {
            ("call", "decompress"): [on_decompress],
            ("contract-call", PY + "Worker._check"): [on_check],
            ("call", "symlink_to"): [sink("symlink_to")],
            ("call", "open"): [sink("open")],
            ("call", "touch"): [sink("touch")],
            ("call", "mkdir"): [sink("mkdir")],
            ("call", "unlink"): [sink("unlink")],
            ("call", "put"): [on_put],
        }

    # ---- the member loop ---------------------------------------------------------------------------------
    def loops(self):
        def inv(c, Lp):
            eng = c.eng
            files = c.bound["files"]
            jc = Lp.local("just_check")
            return [
                ("skip-offset", eng.ghost["off"] + SUMJ(jc) == PRE(files, Lp.i)),
                ("offsets-nonneg", And(eng.ghost["off"] >= 0, SUMJ(jc) >= 0)),
            ]

        def init(c, Lp):
            files = c.bound["files"]
            return [PRE(files, 0) == 0, sumj_empty()]

        def step(c, Lp):
            eng = c.eng
            files = c.bound["files"]
            eng.ghost["loop"] = Lp
            f = item(files, Lp.i)
            jc = Lp.local("just_check")
            eng.ghost["fileish"] = None
            eng.ghost["iter_start"] = len(eng.trace)
            eng.ghost["decoded"] = []
            eng.ghost["puts"] = []
            # fileish as the code computes it: self.target_filepath.get(f.id, None)
            return [pre_unfold(files, Lp.i), sumj_snoc(jc, f), sumj_empty(), SIZE(f) >= 0]

        def asserts(c, Lp):
            eng = c.eng
            files = c.bound["files"]
            f = item(files, Lp.i - 0)
            out = []
            q = c.bound["q"]
            # C04: a delivered non-empty member is never reported as done without the checksum comparison
            for ev in eng.ghost.get("decoded", []):
                kinds = [e.name for e in eng.trace[eng.ghost["iter_start"]:] if e.kind == "call"]
                where = "symlink" if "symlink_to" in kinds else ("regular-file" if "open" in kinds else "other")
                crc = attr(f, "crc32")
                out.append(("crc-compared-before-success@%s" % where, Or(eq(crc, None), eq(ev.result, crc))))
            # C18: exactly one start event first and one end event last, carrying the member's name and size
            if q is not None:
                puts = eng.ghost.get("puts", [])
                calls = [e for e in eng.trace[eng.ghost["iter_start"]:] if e.kind == "call"]
                ok = len(puts) == 2 and calls and calls[0] is puts[0] and calls[-1] is puts[1]
                out.append(("one-start-first-one-end-last", bool(ok)))
                if ok:
                    s_ev, e_ev = puts
                    sa, ea = s_ev.args[0], e_ev.args[0]
                    good = isinstance(sa, tuple) and isinstance(ea, tuple) and sa[0] == "s" and ea[0] == "e"
                    out.append(("event-kinds", bool(good)))
                    if good:
                        out.append(("start-carries-name", eq(sa[1], _str(c, attr(f, "filename")))))
                        out.append(("end-carries-name-and-size", And(eq(ea[1], _str(c, attr(f, "filename"))), eq(ea[2], _str(c, attr(f, "uncompressed"))))))
            return out

        return {
            "py7zr:Worker._extract_single#loop0": LoopSpec(
                "for-f", inv, target="f in files", unfold_init=init, unfold_step=step, cells={"just_check": "opq"}, rebind=("just_check",), ghosts=["off"], asserts=asserts
            )
        }

    def stmt_hook(self, c, st):
        pass

    def ensures(self, c, old, result, **b):
        eng = c.eng
        files = b["files"]
        n = SInt(V.uf("len", V.vsort(), z3.IntSort(), z3.IntSort())(files.t, z3.IntVal(0)))
        return [
            # testzip(): with skip_notarget False every non-empty member has been decoded (and compared by _check)
            ("all-bytes-consumed-when-not-skipping", Implies(Not(b["skip_notarget"]), eng.ghost["off"] == PRE(files, n)), ("C04", "C09")),
        ]


def _str(c, x):
    return SOpq(V.uf("str", V.vsort(), V.vsort())(V.box(x).t))  # the engine's model of str() in abstract mode


@contract
class WorkerCheck(Contract):
    """delayed CRC check of members that are decoded only to be skipped: every member of the list is decoded with its
    declared size and, on normal return, its CRC has been compared (C04); consumes the sum of their sizes (C09)"""

    target = PY + "Worker._check"
    props = ("C04", "C09")
    abstract = True
    self_class = ("py7zr.py7zr", "Worker")
    opaque = ("py7zr:Worker.decompress",)
    stable_attrs = STABLE
    pure = ("str",)

    def setup(self, c):
        ct = c.list_of(c.eng.fresh_seq("check_target", "opq", "list"))
        c.eng.ghost["consumed"] = 0
        return {"self_": c.opq("self"), "fp": c.opq("fp"), "check_target": ct, "src_end": c.opq("src_end")}

    def raises(self):
        return [RaiseSpec("Exception")]

    def hooks(self):
        def on_decompress(c, ev):
            eng = c.eng
            Lp = eng.ghost.get("loop")
            tgt = c.view(c.bound["check_target"])
            f = nth(tgt, Lp.i)
            c.oblig("assert", "decodes-declared-size@decompress", eq(ev.args[3], attr(f, "uncompressed")), props=("C04", "C09"))
            eng.ghost["consumed"] = eng.ghost["consumed"] + to_int(ev.args[3])
            eng.ghost.setdefault("decoded", []).append(ev)

        return {("call", "decompress"): [on_decompress]}

    def loops(self):
        def inv(c, Lp):
            tgt = c.view(c.bound["check_target"])
            return [("consumed-prefix", c.eng.ghost["consumed"] == SUMJ(V.slice_(tgt, 0, Lp.i)))]

        def init(c, Lp):
            return [sumj_empty()]

        def step(c, Lp):
            eng = c.eng
            eng.ghost["loop"] = Lp
            eng.ghost["decoded"] = []
            tgt = c.view(c.bound["check_target"])
            i = Lp.i
            f = nth(tgt, i)
            pre = V.slice_(tgt, 0, i)
            return [sumj_snoc(pre, f), eq(V.slice_(tgt, 0, i + 1), V.SSeq(z3.Concat(V.to_seq(pre).t, z3.Unit(f.t)), "opq", "list"))]

        def asserts(c, Lp):
            tgt = c.view(c.bound["check_target"])
            f = nth(tgt, Lp.i)
            out = []
            dec = c.eng.ghost.get("decoded", [])
            out.append(("member-decoded-once", len(dec) == 1))
            for ev in dec:
                crc = attr(f, "crc32")
                out.append(("crc-compared-before-success@skipped-member", Or(eq(crc, None), eq(ev.result, crc))))
            return out

        return {"py7zr:Worker._check#loop0": LoopSpec("for-f", inv, target="f in check_target", unfold_init=init, unfold_step=step, ghosts=["consumed"], asserts=asserts)}

    def ensures(self, c, old, result, **b):
        tgt = c.view(b["check_target"])
        out = [("list-unchanged", eq(c.view(b["check_target"]), old.deref(b["check_target"])))]
        if c.eng.ctx_mode != "assume":
            # ghost clause: exported to callers through their `contract-call` hook (they add SUMJ(list) to their offset)
            out.append(("consumes-sum-of-sizes", c.eng.ghost["consumed"] == SUMJ(tgt)))
        return out
