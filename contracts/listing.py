"""Listing interfaces of SevenZipFile (py7zr/py7zr.py): namelist/getnames/getinfo/list/needs_password - C10."""
try:
    import z3
except Exception:
    z3 = None

from pyvc.contract import Contract, ForAll, LoopSpec, RaiseSpec, contract
from pyvc.values import And, Implies, Not, Or, L, nth, eq, SBool, SInt, SOpq, truthy
from pyvc import values as V
from contracts.extract import attr

PY = "py7zr.py7zr:"
STABLE = ("filename", "compressed", "uncompressed", "archivable", "is_directory", "crc32", "lastwritetime", "files", "password_protected")


def mk(c):
    files = c.list_of(c.eng.fresh_seq("files", "opq", "list"))
    return c.obj("SevenZipFile", "py7zr.py7zr", files=files, password_protected=c.bool("password_protected")), files


@contract
class NameList(Contract):
    """names in stored order: result[k] is the filename of member k, for archives of any size"""

    target = PY + "SevenZipFile.namelist"
    props = ("C10", "C01")
    abstract = True
    stable_attrs = STABLE

    def setup(self, c):
        self_, files = mk(c)
        return {"self_": self_}

    def fresh_result(self, c, **b):
        return c.list_of(c.eng.fresh_seq("names", "opq", "list"))

    def ensures(self, c, old, result, self_):
        fs = c.view(c.raw(self_, "files"))
        r = c.view(result)
        return [("one-name-per-member", L(r) == L(fs)), ("stored-order", ForAll(lambda k: eq(nth(r, k), attr(nth(fs, k), "filename")), guard=lambda k: And(k >= 0, k < L(fs)), over=r))]


@contract
class GetNames(Contract):
    target = PY + "SevenZipFile.getnames"
    props = ("C10",)
    abstract = True
    stable_attrs = STABLE

    def setup(self, c):
        self_, files = mk(c)
        return {"self_": self_}

    def ensures(self, c, old, result, self_):
        fs = c.view(c.raw(self_, "files"))
        r = c.view(result)
        return [("identical-to-namelist", And(L(r) == L(fs), True)), ("stored-order", ForAll(lambda k: eq(nth(r, k), attr(nth(fs, k), "filename")), guard=lambda k: And(k >= 0, k < L(fs)), over=r))]


@contract
class GetInfo(Contract):
    """returns the FIRST member whose name equals the query with one trailing slash removed; KeyError iff there is none"""

    target = PY + "SevenZipFile.getinfo"
    props = ("C10",)
    abstract = True
    stable_attrs = STABLE
    opaque = ("helpers:remove_trailing_slash",)
    pure = ("remove_trailing_slash",)

    def setup(self, c):
        self_, files = mk(c)
        return {"self_": self_, "name": c.opq("name")}

    def requires(self, c, self_, name):
        fs = c.view(c.raw(self_, "files"))
        return [("members-are-objects", ForAll(lambda k: Not(eq(nth(fs, k), None)), guard=lambda k: And(k >= 0, k < L(fs)), over=fs))]

    def raises(self):
        return [RaiseSpec("KeyError")]

    def _q(self, c, name):
        from pyvc.builtins_model import _box

        return SOpq(V.uf("pure_helpers_remove_trailing_slash_1", V.vsort(), V.vsort())(name.t))

    def ensures(self, c, old, result, self_, name):
        fs = c.view(c.raw(self_, "files"))
        q = self._q(c, name)
        w = c.eng.ghost.get("first_match") if c.eng.ctx_mode != "assume" else None
        out = [("result-has-the-queried-name", eq(attr(result, "filename"), q))]
        if w is not None:
            out.append(("result-is-a-member", And(w >= 0, w < L(fs), eq(result, nth(fs, w)))))
            out.append(("no-earlier-member-has-that-name", ForAll(lambda k: Not(eq(attr(nth(fs, k), "filename"), q)), guard=lambda k: And(k >= 0, k < w), over=fs)))
        else:
            out.append(("result-is-a-member", False if c.eng.ctx_mode != "assume" else True))
        return out

    def xensures(self, c, old, exc, self_, name):
        fs = c.view(c.raw(self_, "files"))
        q = self._q(c, name)
        if exc.cls == "KeyError":
            return [("keyerror-only-when-no-member-has-that-name", ForAll(lambda k: Not(eq(attr(nth(fs, k), "filename"), q)), guard=lambda k: And(k >= 0, k < L(fs)), over=fs))]
        return []


@contract
class ListMembers(Contract):
    """list(): one FileInfo per member, in order, built from the same fields extraction enforces
    (uncompressed size, crc32, is_directory) and the member's own name"""

    target = PY + "SevenZipFile.list"
    props = ("C10",)
    abstract = True
    stable_attrs = STABLE
    pure = ("filetime_to_dt",)
    opaque = ("py7zr:FileInfo",)
    noraise = ("FileInfo", "append")

    def setup(self, c):
        self_, files = mk(c)
        return {"self_": self_}

    def raises(self):
        return [RaiseSpec("Exception")]

    def hooks(self):
        def on_fi(c, ev):
            eng = c.eng
            Lp = eng.ghost.get("loop")
            fs = c.view(c.raw(c.bound["self_"], "files"))
            f = nth(fs, Lp.i)
            a = ev.args
            ok = len(a) == 7
            c.oblig("assert", "fileinfo-shape", bool(ok))
            if ok:
                c.oblig("assert", "fileinfo-fields-of-this-member", And(eq(a[0], attr(f, "filename")), eq(a[1], attr(f, "compressed")), eq(a[2], attr(f, "uncompressed")), eq(a[4], attr(f, "is_directory")), eq(a[6], attr(f, "crc32"))))
                # the time shown is THIS member's stored time, and none when it has none (FX28: the previous member's
                # time used to be carried over)
                conv = [e for e in eng.trace[Lp.trace_mark:] if e.kind == "pure" and str(e.name).endswith("filetime_to_dt")]
                lw = attr(f, "lastwritetime")
                if conv:
                    own = len(conv) == 1 and a[5] is conv[0].result
                    c.oblig("assert", "time-is-this-member's-own", And(bool(own), eq(conv[0].args[0], lw), Not(eq(lw, None))))
                else:
                    c.oblig("assert", "no-time-shown-without-a-stored-time", And(a[5] is None, eq(lw, None)))
            eng.ghost["made"] = eng.ghost.get("made", 0) + 1

        return {("call", "FileInfo"): [on_fi]}

    def loops(self):
        def inv(c, Lp):
            al = Lp.local("alist")
            return [("one-entry-per-member-so-far", L(al) == Lp.i)]

        def step(c, Lp):
            c.eng.ghost["loop"] = Lp
            c.eng.ghost["made"] = 0
            return []

        def asserts(c, Lp):
            return [("exactly-one-fileinfo-per-member", c.eng.ghost.get("made", 0) == 1)]

        return {"py7zr:SevenZipFile.list#loop0": LoopSpec("for-f", inv, target="f in self.files", unfold_step=step, asserts=asserts, cells={"alist": "opq"})}

    def ensures(self, c, old, result, self_):
        fs = c.view(c.raw(self_, "files"))
        return [("one-entry-per-member", L(c.view(result)) == L(fs))]


@contract
class NeedsPassword(Contract):
    target = PY + "SevenZipFile.needs_password"
    props = ("C10", "C11")
    abstract = True
    stable_attrs = STABLE

    def setup(self, c):
        self_, files = mk(c)
        return {"self_": self_}

    def ensures(self, c, old, result, self_):
        return [("reports-the-flag-set-by-the-header-reader", eq(result, old.f(self_, "password_protected")))]


# ---------------------------------------------------------------------------------------------- ArchiveFile.crc32
@contract
class ArchiveFileCrc32(Contract):
    """the CRC shown by list()/getinfo() and compared on extraction is the member's stored digest, whatever its value
    (0 is a legitimate CRC-32), and None exactly when the header stores none"""

    target = PY + "ArchiveFile.crc32"
    props = ("C10", "C04")
    inline = ("py7zr:ArchiveFile._get_property",)

    def setup(self, c):
        info = c.dict_of({"digest": c.int("digest")}, presence={"digest": c.bool("has_digest")})
        self_ = c.obj("ArchiveFile", "py7zr.py7zr", _file_info=info)
        return {"self_": self_, "_info": info}

    def call_args(self, bound):
        return [bound["self_"]], {}

    def requires(self, c, self_, _info):
        if getattr(c, "concrete", False):
            d = _info.get("digest", 0)
            return [("digest-is-a-crc32", 0 <= d < (1 << 32))]
        return [("digest-is-a-crc32", And(c.dict_items(_info)["digest"] >= 0, c.dict_items(_info)["digest"] < (1 << 32)))]

    def ensures(self, c, old, result, self_, _info):
        has = c.raw(_info, "presence")["digest"] if not getattr(c, "concrete", False) else ("digest" in _info)
        dg = c.dict_items(_info)["digest"] if not getattr(c, "concrete", False) else _info.get("digest")
        if getattr(c, "concrete", False):
            return [("stored-digest-or-none", (result == dg and result is not None) if has else result is None)]
        return [("stored-digest-when-present", Implies(has, And(result is not None, (result == dg) if result is not None else False))), ("none-when-absent", Implies(Not(has), result is None))]


# ---------------------------------------------------------------------------------------------- SevenZipFile._is_solid
@contract
class IsSolid(Contract):
    """archiveinfo().solid: True exactly when some folder packs more than one member"""

    target = PY + "SevenZipFile._is_solid"
    props = ("C10",)
    abstract = True  # only for the object graph self.header.main_streams.substreamsinfo; the list and the arithmetic are exact

    def setup(self, c):
        nus = c.int_list("nus")
        ss = c.obj("SubstreamsInfo", "py7zr.archiveinfo", num_unpackstreams_folders=nus)
        ms = c.obj("StreamsInfo", "py7zr.archiveinfo", substreamsinfo=ss)
        # an archive without data streams (no members; only directories / empty files) has no MainStreamsInfo
        none = c.choice(2) == 1
        hd = c.obj("Header", "py7zr.archiveinfo", main_streams=None if none else ms)
        return {"self_": c.obj("SevenZipFile", "py7zr.py7zr", header=hd), "_nus": nus, "_none": none}

    def call_args(self, bound):
        return [bound["self_"]], {}

    def fresh_result(self, c, **b):
        return c.bool("solid")

    def ensures(self, c, old, result, self_, _nus, _none):
        if _none:
            return [("not-solid-without-data-streams", result is False)]
        xs = c.view(_nus)
        from contracts.sections import exists_of

        some = exists_of(c, "folder-with-several", xs, lambda x: x > 1)
        return [("solid-iff-some-folder-holds-several-members", (result is True or (result is not False and result)) == some if getattr(c, "concrete", False) else (V.truthy(result) == some))]

    def loops(self):
        def inv(c, Lp):
            xs = c.view(c.bound["_nus"])
            return [("none-so-far", ForAll(lambda k: nth(xs, k) <= 1, guard=lambda k: And(k >= 0, k < Lp.i), over=xs))]

        return {"py7zr:SevenZipFile._is_solid#loop0": LoopSpec("for-f", inv)}


# ---------------------------------------------------------------------------------------------- ArchiveFileList
@contract
class ArchiveFileListAppend(Contract):
    """a member list remembers, for every member, the archive-wide id under which output targets are registered:
    the id handed over, or - for the archive-wide list itself - the next consecutive number"""

    target = PY + "ArchiveFileList.append"
    props = ("C01", "C06", "C09")

    def setup(self, c):
        case = c.choice(2)
        self_ = c.obj("ArchiveFileList", "py7zr.py7zr", files_list=c.int_list("members"), ids=c.int_list("ids"), index=0, offset=c.int("offset"))
        return {"self_": self_, "file_info": c.int("member"), "id": None if case == 0 else c.int("id")}

    def requires(self, c, self_, file_info, id):
        return [("one-id-per-member", L(c.f(self_, "ids")) == L(c.f(self_, "files_list")))]

    def modifies(self, c, self_, file_info, id):
        return [(self_, "files_list"), (self_, "ids")]

    def ensures(self, c, old, result, self_, file_info, id):
        ids0, fl0 = old.f(self_, "ids"), old.f(self_, "files_list")
        ids, fl = c.f(self_, "ids"), c.f(self_, "files_list")
        want = (L(fl0) + old.f(self_, "offset")) if id is None else id
        return [
            ("member-appended", And(L(fl) == L(fl0) + 1, nth(fl, L(fl0)) == file_info, eq(V.slice_(fl, 0, L(fl0)), fl0))),
            ("id-appended", And(L(ids) == L(ids0) + 1, nth(ids, L(ids0)) == want, eq(V.slice_(ids, 0, L(ids0)), ids0))),
        ]


@contract
class ArchiveFileListGetItem(Contract):
    """member k of a list is handed out with the id recorded for it (never with a recomputed one)"""

    target = PY + "ArchiveFileList.__getitem__"
    props = ("C01", "C06", "C09")
    inline = ("py7zr:ArchiveFile.__init__",)

    def setup(self, c):
        self_ = c.obj("ArchiveFileList", "py7zr.py7zr", files_list=c.int_list("members"), ids=c.int_list("ids"), index=0, offset=c.int("offset"))
        return {"self_": self_, "index": c.int("index")}

    def requires(self, c, self_, index):
        return [("one-id-per-member", L(c.f(self_, "ids")) == L(c.f(self_, "files_list")))]

    def raises(self):
        return [RaiseSpec("IndexError")]

    def ensures(self, c, old, result, self_, index):
        if getattr(c, "concrete", False):
            return [("id-is-the-recorded-one", result.id == self_.ids[index] and result._file_info == self_.files_list[index])]
        return [
            ("id-is-the-recorded-one", c.f(result, "id") == nth(c.f(self_, "ids"), index)),
            ("member-is-the-kth", c.f(result, "_file_info") == nth(c.f(self_, "files_list"), index)),
        ]


# ------------------------------------------------------------------------------------- archive summary (archiveinfo)
def _events(eng, name, kinds=("call", "contract-call", "pure")):
    return [e for e in eng.trace if e.kind in kinds and str(e.name).split(".")[-1].split(":")[-1] == name]


@contract
class GetMethodNames(Contract):
    """the method names of the summary are computed from the coder lists of ALL folders of the archive (and are
    empty when the archive has no data streams); a coder id without a name is reported as an unsupported method"""

    target = PY + "SevenZipFile._get_method_names"
    props = ("C10",)
    abstract = True
    track_raises = True
    opaque = ("compressor:get_methods_names",)  # its own contract: contracts/listing.py MethodsNames

    def setup(self, c):
        none = c.choice(2) == 1
        folders = c.list_of(c.eng.fresh_seq("folders", "opq", "list"))
        ui = c.obj("UnpackInfo", "py7zr.archiveinfo", folders=folders)
        ms = c.obj("StreamsInfo", "py7zr.archiveinfo", unpackinfo=ui)
        hd = c.obj("Header", "py7zr.archiveinfo", main_streams=None if none else ms)
        return {"self_": c.obj("SevenZipFile", "py7zr.py7zr", header=hd), "_none": none, "_folders": folders}

    def call_args(self, bound):
        return [bound["self_"]], {}

    def raises(self):
        # KeyError from the name table is converted; anything else the (here unknown) callee raises propagates
        return [RaiseSpec("UnsupportedCompressionMethodError"), RaiseSpec("Exception")]

    def xensures(self, c, old, exc, self_, _none, _folders):
        return [("never-fails-without-data-streams", not _none)]

    def ensures(self, c, old, result, self_, _none, _folders):
        eng = c.eng
        if eng.ctx_mode == "assume":
            return []
        calls = _events(eng, "get_methods_names")
        if _none:
            from pyvc.engine import Ref

            empty = isinstance(result, Ref) and eng.kind(result) == "list" and eng.get_field(result, "items") == ()
            return [("no-methods-without-data-streams", bool(empty) and not calls)]
        one = len(calls) == 1
        arg = calls[0].pre.get(0) if one else None  # the list handed over, as it was at the call
        out = [("names-computed-once-from-the-folders", bool(one)), ("result-is-what-the-name-table-returned", bool(one) and result is calls[0].result)]
        cov = _covers_all_folders(c, arg, _folders) if arg is not None else None
        if cov is None:
            return out + [("over-the-coders-of-every-folder", False)]
        return out + [("one-coder-list-per-folder", cov[0]), ("over-the-coders-of-every-folder", cov[1])]


def _covers_all_folders(c, arg, folders):
    """the argument is [folder.coders for folder in <all folders>]: same length, k-th entry is the k-th folder's coders"""
    from pyvc.values import SSeq

    if not isinstance(arg, SSeq):
        return None
    r = arg
    fs = c.view(folders)
    return (L(r) == L(fs), ForAll(lambda k: eq(nth(r, k), attr(nth(fs, k), "coders")), guard=lambda k: And(k >= 0, k < L(fs)), over=r))


@contract
class ArchiveSummary(Contract):
    """archiveinfo(): the summary is assembled from the archive itself - total size = sum of the members' uncompressed
    sizes (0 without members), method names and solid flag as computed by _get_method_names / _is_solid, block count =
    number of folders (0 when the archive has no data streams) - and building it never fails for want of streams"""

    target = PY + "SevenZipFile.archiveinfo"
    props = ("C10",)
    abstract = True
    track_raises = True
    opaque = ("py7zr:ArchiveInfo", "py7zr:SevenZipFile._get_method_names", "py7zr:SevenZipFile._is_solid")  # the two helpers: own contracts above
    pure = ("isinstance",)
    noraise = ("ArchiveInfo", "isinstance", "_is_solid")
    stable_attrs = ("header", "main_streams", "unpackinfo", "folders", "files", "size", "filename", "fp", "uncompressed")
    assumptions = ("functools.reduce(lambda x, y: x + y, xs, init) == init + sum(xs) (assumed contract of functools.reduce)",)

    def setup(self, c):
        none = c.choice(2) == 1
        folders = c.list_of(c.eng.fresh_seq("folders", "opq", "list"))
        files = c.list_of(c.eng.fresh_seq("files", "opq", "list"))
        ui = c.obj("UnpackInfo", "py7zr.archiveinfo", folders=folders)
        ms = c.obj("StreamsInfo", "py7zr.archiveinfo", unpackinfo=ui)
        hd = c.obj("Header", "py7zr.archiveinfo", main_streams=None if none else ms, size=c.int("header_size"))
        self_ = c.obj("SevenZipFile", "py7zr.py7zr", header=hd, files=files, fp=c.opq("fp"), filename=c.opq("filename"))
        return {"self_": self_, "_none": none, "_folders": folders, "_files": files}

    def call_args(self, bound):
        return [bound["self_"]], {}

    def raises(self):
        # os.stat / MultiVolume.stat may fail, _get_method_names reports unsupported methods; nothing else is expected
        return [RaiseSpec("AssertionError"), RaiseSpec("Exception")]

    def xensures(self, c, old, exc, self_, _none, _folders, _files):
        import ast as _ast

        # every exceptional exit comes from a callee (stat, the method-name table) or the file-name assertion:
        # never from the summary arithmetic itself (empty member list, missing stream sections)
        node = exc.node
        from_callee = bool(c.eng.trace) and c.eng.trace[-1].kind == "raise-from"
        return [("fails-only-in-stat-or-name-table", bool(from_callee or isinstance(node, _ast.Assert)))]

    def ensures(self, c, old, result, self_, _none, _folders, _files):
        eng = c.eng
        if eng.ctx_mode == "assume":
            return []
        mk = _events(eng, "ArchiveInfo")
        names = _events(eng, "_get_method_names")
        solid = _events(eng, "_is_solid")
        sums = _events(eng, "reduce-sum")
        ok = len(mk) == 1 and len(mk[0].args) == 7 and len(names) == 1 and len(solid) == 1 and len(sums) == 1
        out = [("summary-built-once-from-the-helpers", bool(ok))]
        if not ok:
            return out
        a = mk[0].args
        xs, init = sums[0].args
        fs = c.view(_files)
        out += [
            ("result-is-the-summary", result is mk[0].result),
            ("header-size", eq(a[2], old.f(old.f(self_, "header"), "size"))),
            ("method-names-from-the-name-helper", a[3] is names[0].result),
            ("solid-flag-from-the-solid-helper", a[4] is solid[0].result),
            ("block-count-is-the-folder-count", (a[5] == 0) if _none else (a[5] == L(c.view(_folders)))),
            ("total-is-the-sum-of-member-sizes", And(True if init is None else init == 0, a[6] is sums[0].result, L(xs) == L(fs))),
            ("summed-sizes-are-the-members'-uncompressed-sizes", ForAll(lambda k: eq(nth(xs, k), attr(nth(fs, k), "uncompressed")), guard=lambda k: And(k >= 0, k < L(fs)), over=xs)),
        ]
        return out
