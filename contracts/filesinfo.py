"""Contracts for FilesInfo writers (py7zr/archiveinfo.py) - C07, C08, C17.

`self.files` (a list of dicts with constant keys) is modelled exactly as a struct of arrays
(pyvc.reclist).  Every property record must declare the size of the bytes that follow the size
field (docs/archive_format.rst, "File properties": each property is  id, size, data).

Postconditions describe the bytes appended by the call as a concatenation of named segments
(id, size NUMBER, defined-vector, external flag, values) - see Ctx.ghost_segments.
"""
from pyvc.contract import Contract, ForAll, LoopSpec, RaiseSpec, contract
from pyvc.values import And, Implies, Not, Or, L, ite, nth, slice_, ceil8, eq, all_true_of, cat
from pyvc import values as V
from spec import primitives as SP

AI = "py7zr.archiveinfo:"
U64 = 1 << 64


def cnt_fn(tag):
    import z3

    return V.uf("cnt_defined_" + tag, z3.IntSort(), z3.IntSort())


def CNT(c, rl, field, i, tag):
    """CNT(i) = number of records k < i whose `field` is defined (a fold over the record list; its
    one-step unfolding is supplied at each loop step, bounds are carried by the invariants)"""
    if getattr(c, "concrete", False):
        return sum(1 for k in range(min(i, rl.n)) if rl.defined(field, k))
    return V.SInt(cnt_fn(tag)(V._zi(i)))


def cnt_unfold(c, rl, field, i, tag):
    return CNT(c, rl, field, i + 1, tag) == CNT(c, rl, field, i, tag) + ite(rl.defined(field, i), 1, 0)


def WIT(c, i, tag):
    """WIT(i): position of an undefined record below i, if there is one (defined by recursion:
    WIT(i+1) = WIT(i) if CNT(i) < i else i); only used symbolically"""
    import z3

    return V.SInt(V.uf("wit_undefined_" + tag, z3.IntSort(), z3.IntSort())(V._zi(i)))


def wit_unfold(c, rl, field, i, tag):
    return WIT(c, i + 1, tag) == ite(CNT(c, rl, field, i, tag) < i, WIT(c, i, tag), i)


def files_of(c, self_):
    if getattr(c, "concrete", False):
        return self_.files
    return c.raw(self_, "files")


class _VecWriter(Contract):
    """shared shape of _write_times (8-byte values) and _write_attributes (4-byte values)"""

    field = None
    width = 8
    assert_mode = "check"
    stream_param = "fp"

    def requires(self, c, **b):
        rl = c.rl(files_of(c, b["self_"]))
        lim = 1 << (8 * self.width)
        F = self.field
        out = [
            ("count-small", rl.n < (1 << 56)),
            ("values-fit", ForAll(lambda k: And(rl.val(F, k) >= 0, rl.val(F, k) < lim), guard=lambda k: And(k >= 0, k < rl.n, rl.defined(F, k)), n=rl.n)),
        ]
        if "propid" in b:
            out.append(("propid-one-byte", L(b["propid"]) == 1))
        return out

    def modifies(self, c, **b):
        return [(b[self.stream_param], "out")]

    def _parse(self, n):
        W = self.width

        def parse(app):
            try:
                if len(app) < 2:
                    return None
                ln = SP.number_len(app, 1)
                p = 1 + ln
                vec = 1 if app[p] != 0 else 1 + (n + 7) // 8
                return [app[0:1], app[1:p], app[p:p + vec], app[p + vec:p + vec + 1], app[p + vec + 1:]]
            except IndexError:
                return None

        return parse

    def _post(self, c, old, fp, self_, idbytes):
        rl = c.rl(files_of(c, self_))
        F = self.field
        n = rl.n
        W = self.width
        le = SP.uint64_le if W == 8 else SP.uint32_le
        app = c.appended(old, fp)
        s_id, s_size, s_vec, s_ext, s_vals = c.ghost_segments(fp, ["id", "size", "vec", "ext", "vals"], concrete=self._parse(n))
        DS = c.seq_of("DEFINED_" + F, lambda k: rl.defined(F, k), n)
        d = CNT(c, rl, F, n, F)
        if not getattr(c, "concrete", False):
            c.eng.add_index_term(WIT(c, n, F))
        out = [
            ("layout", eq(app, cat(s_id, s_size, s_vec, s_ext, s_vals))),
            ("property-id", eq(s_id, idbytes)),
            ("size-is-number", And(L(s_size) >= 1, L(s_size) <= 9, L(s_size) == SP.number_len(s_size, 0))),
            ("size-equals-payload", SP.number_value(s_size, 0) == L(s_vec) + L(s_ext) + L(s_vals)),
        ]
        for lab, f in SP.boolean_list_clauses(c, s_vec, DS, True):
            out.append(("defined-vector." + lab, f))
        out += [
            ("external-zero", eq(s_ext, b"\x00")),
            ("values-length", L(s_vals) == W * d),
            ("values", ForAll(lambda k: le(s_vals, W * CNT(c, rl, F, k, F)) == rl.val(F, k), guard=lambda k: And(k >= 0, k < n, rl.defined(F, k)), n=n)),
        ]
        return out

    # ---- loop invariants shared by both writers (loop0 collects `defined`, loop1 emits the values)
    def _inv0(self, c, Lp, stream, counting=True):
        b = c.bound
        rl = c.rl(files_of(c, b["self_"]))
        F = self.field
        i = Lp.i
        defined = Lp.local("defined")
        nd = Lp.local("num_defined")
        return [
            ("length", L(defined) == i),
            ("defined-k", ForAll(lambda k: Implies(And(k >= 0, k < i), nth(defined, k) == rl.defined(F, k)), over=defined)),
            ("count", And(nd == CNT(c, rl, F, i, F), nd >= 0, nd <= i)),
            ("count-full-means-all", ForAll(lambda k: rl.defined(F, k), guard=lambda k: And(nd == i, k >= 0, k < i), n=i)),
            ("count-short-has-witness", True if getattr(c, "concrete", False) else Implies(nd < i, And(WIT(c, i, F) >= 0, WIT(c, i, F) < i, Not(rl.defined(F, WIT(c, i, F)))))),
            ("frame-out", eq(c.out(b[stream]), Lp.ghost["out"])),
        ]

    def _init0(self, c, Lp, stream):
        rl = c.rl(files_of(c, c.bound["self_"]))
        Lp.ghost["out"] = c.out(c.bound[stream])
        return [CNT(c, rl, self.field, 0, self.field) == 0]

    def _step(self, c, Lp):
        rl = c.rl(files_of(c, c.bound["self_"]))
        return [cnt_unfold(c, rl, self.field, Lp.i, self.field), wit_unfold(c, rl, self.field, Lp.i, self.field)]

    def _inv1(self, c, Lp, stream):
        b = c.bound
        rl = c.rl(files_of(c, b["self_"]))
        F = self.field
        W = self.width
        le = SP.uint64_le if W == 8 else SP.uint32_le
        i = Lp.i
        vals = V.strip_prefix(c.out(b[stream]), Lp.ghost["out"])
        defined = Lp.local("defined")
        ci = CNT(c, rl, F, i, F)
        return [
            ("length", And(L(vals) == W * ci, ci >= 0, ci <= i)),
            ("rank-bound", ForAll(lambda k: And(CNT(c, rl, F, k, F) >= 0, CNT(c, rl, F, k, F) < ci), guard=lambda k: And(k >= 0, k < i, rl.defined(F, k)), n=i)),
            ("values", ForAll(lambda k: le(vals, W * CNT(c, rl, F, k, F)) == rl.val(F, k), guard=lambda k: And(k >= 0, k < i, rl.defined(F, k)), n=i, cases=lambda k: [k < i - 1, k >= i - 1])),
            ("defined-length", L(defined) == rl.n),
            ("defined-unchanged", ForAll(lambda k: Implies(And(k >= 0, k < rl.n), nth(defined, k) == rl.defined(F, k)), over=defined)),
        ]

    def _init1(self, c, Lp, stream):
        rl = c.rl(files_of(c, c.bound["self_"]))
        Lp.ghost["out"] = c.out(c.bound[stream])
        return [CNT(c, rl, self.field, 0, self.field) == 0]


@contract
class WriteTimes(_VecWriter):
    target = AI + "FilesInfo._write_times"
    props = ("C07", "C08", "C17")
    field = "lastwritetime"
    width = 8
    stream_param = "fp"
    sample_bounds = {}

    def setup(self, c):
        files = c.reclist("files", {"lastwritetime": {"type": "int", "optional": True, "nullable": True}, "emptystream": {"type": "bool"}})
        self_ = c.obj("FilesInfo", "py7zr.archiveinfo", files=files, emptyfiles=c.bool_list("emptyfiles"), antifiles=None)
        return {"self_": self_, "fp": c.outstream("fp"), "propid": c.bytes("propid"), "name": "lastwritetime"}

    def ensures(self, c, old, result, **b):
        return self._post(c, old, b["fp"], b["self_"], b["propid"])

    def loops(self):
        return {
            "archiveinfo:FilesInfo._write_times#loop0": LoopSpec(
                "for-f", lambda c, Lp: self._inv0(c, Lp, "fp"), target="f in self.files", unfold_init=lambda c, Lp: self._init0(c, Lp, "fp"), unfold_step=self._step, cells={"defined": "bool"}
            ),
            "archiveinfo:FilesInfo._write_times#loop1": LoopSpec(
                "for-i-file", lambda c, Lp: self._inv1(c, Lp, "fp"), target="(i, file) in enumerate(self.files)", unfold_init=lambda c, Lp: self._init1(c, Lp, "fp"), unfold_step=self._step
            ),
        }


@contract
class WriteAttributes(_VecWriter):
    target = AI + "FilesInfo._write_attributes"
    props = ("C07", "C08", "C17")
    field = "attributes"
    width = 4
    stream_param = "file"

    def setup(self, c):
        files = c.reclist("files", {"attributes": {"type": "int", "optional": True, "nullable": True, "max": (1 << 32) - 1}, "emptystream": {"type": "bool"}})
        self_ = c.obj("FilesInfo", "py7zr.archiveinfo", files=files, emptyfiles=c.bool_list("emptyfiles"), antifiles=None)
        return {"self_": self_, "file": c.outstream("file")}

    def ensures(self, c, old, result, **b):
        from engine_consts import PROPERTY_ATTRIBUTES

        return self._post(c, old, b["file"], b["self_"], PROPERTY_ATTRIBUTES)

    def loops(self):
        return {
            "archiveinfo:FilesInfo._write_attributes#loop0": LoopSpec(
                "for-f", lambda c, Lp: self._inv0(c, Lp, "file"), target="f in self.files", unfold_init=lambda c, Lp: self._init0(c, Lp, "file"), unfold_step=self._step, cells={"defined": "bool"}
            ),
            "archiveinfo:FilesInfo._write_attributes#loop1": LoopSpec(
                "for-i-f", lambda c, Lp: self._inv1(c, Lp, "file"), target="(i, f) in enumerate(self.files)", unfold_init=lambda c, Lp: self._init1(c, Lp, "file"), unfold_step=self._step
            ),
        }


# ------------------------------------------------------------------------------------------------ names
from spec import utf16 as U16  # noqa: E402
from engine_consts import PROPERTY_NAME  # noqa: E402


def NS(c, rl, i):
    """NS(i): the defined file names among the first i records, in order (fold over the record list)"""
    if getattr(c, "concrete", False):
        return [rl.val("filename", k) for k in range(min(i, rl.n)) if rl.defined("filename", k)]
    import z3

    return V.SSeq(V.uf("defined_names", z3.IntSort(), V.seq_sort("str"))(V._zi(i)), "str", "list")


def ns_unfold(c, rl, i):
    import z3

    nxt, cur = NS(c, rl, i + 1), NS(c, rl, i)
    snoc = V.SSeq(z3.Concat(cur.t, z3.Unit(rl.val("filename", i).t)), "str", "list")
    return eq(nxt, ite(rl.defined("filename", i), snoc, cur))


@contract
class WriteNames(Contract):
    """Names property: id 0x11, NUMBER size, external=0, then every defined name as UTF-16-LE units + zero unit;
    the declared size equals the number of bytes that follow the size field"""

    target = AI + "FilesInfo._write_names"
    props = ("C07", "C08", "C17", "C01")  # C01: the names written are the names listed after reopening
    assert_mode = "check"
    assumptions = ("UTF-16 codec facts (spec.utf16): encode is concatenation-compatible; len(encode(s)) is even and between 2 and 4 bytes per character",)

    def setup(self, c):
        files = c.reclist("files", {"filename": {"type": "str", "optional": True, "nullable": True}, "emptystream": {"type": "bool"}})
        self_ = c.obj("FilesInfo", "py7zr.archiveinfo", files=files, emptyfiles=c.bool_list("emptyfiles"), antifiles=None)
        return {"self_": self_, "file": c.outstream("file")}

    def requires(self, c, self_, file):
        rl = c.rl(files_of(c, self_))
        return [("count-small", rl.n < (1 << 40)), ("names-short", ForAll(lambda k: L(rl.val("filename", k)) < (1 << 16), guard=lambda k: And(k >= 0, k < rl.n, rl.defined("filename", k)), n=rl.n))]

    def raises(self):
        return [RaiseSpec("UnicodeEncodeError")]

    def modifies(self, c, self_, file):
        return [(file, "out")]

    @staticmethod
    def _parse(app):
        try:
            if len(app) < 3:
                return None
            ln = SP.number_len(app, 1)
            return [app[0:1], app[1:1 + ln], app[1 + ln:2 + ln], app[2 + ln:]]
        except IndexError:
            return None

    def ensures(self, c, old, result, self_, file):
        rl = c.rl(files_of(c, self_))
        n = rl.n
        NL = NS(c, rl, n)
        E = U16.names_bytes(NL)
        app = c.appended(old, file)
        s_id, s_size, s_ext, s_names = c.ghost_segments(file, ["id", "size", "ext", "names"], concrete=self._parse, optional=True)
        has = L(NL) > 0
        return [
            ("no-names-nothing-written", Implies(Not(has), L(app) == 0)),
            ("layout", Implies(has, eq(app, cat(s_id, s_size, s_ext, s_names)))),
            ("property-id", Implies(has, eq(s_id, PROPERTY_NAME))),
            ("size-is-number", Implies(has, And(L(s_size) >= 1, L(s_size) <= 9, L(s_size) == SP.number_len(s_size, 0)))),
            ("size-equals-payload", Implies(has, SP.number_value(s_size, 0) == L(s_ext) + L(s_names))),
            ("external-zero", Implies(has, eq(s_ext, b"\x00"))),
            ("names", Implies(has, eq(s_names, E))),
        ]

    def loops(self):
        def inv0(c, Lp):
            b = c.bound
            rl = c.rl(files_of(c, b["self_"]))
            i = Lp.i
            names = Lp.local("names")
            nd = Lp.local("name_defined")
            ns = Lp.local("name_size")
            cur = NS(c, rl, i)
            return [
                ("names", eq(names, cur)),
                ("count", And(nd == L(cur), L(cur) <= i)),
                ("size", And(ns == L(U16.names_bytes(cur)), ns >= 0, ns <= 262142 * i)),
                ("frame-out", eq(c.out(b["file"]), Lp.ghost["out"])),
            ]

        def init0(c, Lp):
            rl = c.rl(files_of(c, c.bound["self_"]))
            Lp.ghost["out"] = c.out(c.bound["file"])
            return [L(NS(c, rl, 0)) == 0, U16.names_empty_axiom()]

        def step0(c, Lp):
            rl = c.rl(files_of(c, c.bound["self_"]))
            i = Lp.i
            return [ns_unfold(c, rl, i), U16.names_snoc_axiom(NS(c, rl, i), rl.val("filename", i))]

        def inv1(c, Lp):
            b = c.bound
            names = Lp.local("names")
            j = Lp.i
            emitted = V.strip_prefix(c.out(b["file"]), Lp.ghost["out"])
            return [("emitted-prefix", eq(emitted, U16.names_bytes(slice_(names, 0, j))))]

        def init1(c, Lp):
            Lp.ghost["out"] = c.out(c.bound["file"])
            return [U16.names_empty_axiom()]

        def step1(c, Lp):
            names = Lp.local("names")
            j = Lp.i
            return [U16.names_snoc_axiom(slice_(names, 0, j), nth(names, j)), eq(slice_(names, 0, j + 1), V.concat(slice_(names, 0, j), V.to_seq([nth(names, j)], elem="str", py="list")))]

        return {
            "archiveinfo:FilesInfo._write_names#loop0": LoopSpec("for-f", inv0, target="f in self.files", unfold_init=init0, unfold_step=step0, cells={"names": "str"}),
            "archiveinfo:FilesInfo._write_names#loop1": LoopSpec("for-n", inv1, target="n in names", unfold_init=init1, unfold_step=step1),
        }


# ------------------------------------------------------------------------------------------------ FilesInfo.write
from engine_consts import PROPERTY_FILES_INFO, PROPERTY_EMPTY_STREAM, PROPERTY_DUMMY, PROPERTY_END, PROPERTY_LAST_WRITE_TIME  # noqa: E402
from pyvc.values import any_true_of  # noqa: E402


@contract
class AreThere(Contract):
    target = AI + "FilesInfo._are_there"
    props = ("C07", "C08")

    def setup(self, c):
        return {"vector": c.bool_list("vector")}

    def fresh_result(self, c, vector):
        return c.bool("any")

    def ensures(self, c, old, result, vector):
        v = c.view(vector)
        return [("any-true", result == any_true_of(c, v))]


@contract
class WritePropBoolVector(Contract):
    target = AI + "FilesInfo._write_prop_bool_vector"
    props = ("C07", "C08")
    assert_mode = "check"

    def setup(self, c):
        self_ = c.obj("FilesInfo", "py7zr.archiveinfo", files=c.reclist("files", {"emptystream": {"type": "bool"}}), emptyfiles=c.bool_list("emptyfiles"), antifiles=None)
        return {"self_": self_, "fp": c.outstream("fp"), "propid": c.bytes("propid"), "vector": c.bool_list("vector")}

    def requires(self, c, self_, fp, propid, vector):
        return [("propid-one-byte", L(propid) == 1)]

    def modifies(self, c, self_, fp, propid, vector):
        return [(fp, "out")]

    def ensures(self, c, old, result, self_, fp, propid, vector):
        v = c.view(vector)
        app = c.appended(old, fp)
        return [("id-then-bitfield", And(L(app) == 1 + ceil8(L(v)), eq(slice_(app, 0, 1), propid)))]


@contract
class FilesInfoWrite(Contract):
    """FilesInfo record: id 0x05, NUMBER numfiles, optional EmptyStream property (declared size = bit field length),
    optional Dummy padding record (size byte = number of zero bytes), Names, MTime, Attributes records, END"""

    target = AI + "FilesInfo.write"
    props = ("C07", "C08")
    assert_mode = "check"

    def setup(self, c):
        files = c.reclist(
            "files",
            {
                "emptystream": {"type": "bool"},
                "filename": {"type": "str", "optional": True, "nullable": True},
                "lastwritetime": {"type": "int", "optional": True, "nullable": True},
                "attributes": {"type": "int", "optional": True, "nullable": True, "max": (1 << 32) - 1},
            },
        )
        self_ = c.obj("FilesInfo", "py7zr.archiveinfo", files=files, emptyfiles=c.bool_list("emptyfiles"), antifiles=None)
        return {"self_": self_, "file": c.outstream("file")}

    def requires(self, c, self_, file):
        rl = c.rl(files_of(c, self_))
        out = [("count-small", rl.n < (1 << 40))]
        out.append(("names-short", ForAll(lambda k: L(rl.val("filename", k)) < (1 << 16), guard=lambda k: And(k >= 0, k < rl.n, rl.defined("filename", k)), n=rl.n)))
        out.append(("times-fit", ForAll(lambda k: And(rl.val("lastwritetime", k) >= 0, rl.val("lastwritetime", k) < U64), guard=lambda k: And(k >= 0, k < rl.n, rl.defined("lastwritetime", k)), n=rl.n)))
        out.append(("attributes-fit", ForAll(lambda k: And(rl.val("attributes", k) >= 0, rl.val("attributes", k) < (1 << 32)), guard=lambda k: And(k >= 0, k < rl.n, rl.defined("attributes", k)), n=rl.n)))
        return out

    def raises(self):
        return [RaiseSpec("UnicodeEncodeError")]

    def modifies(self, c, self_, file):
        return [(file, "out")]

    def _segments(self, c, file, n):
        """(id, count, emptystream-record, dummy-record, names, times, attributes, end) as eight segments"""
        names = ["id", "count", "es", "pad", "names", "times", "attrs", "end"]
        if getattr(c, "concrete", False):
            return c.ghost_segments(file, names, concrete=self._parse(n, len(c.bound["self_"].emptyfiles)))
        eng = c.eng
        if eng.ctx_mode == "assume":
            return c.ghost_segments(file, names)
        segs = eng.segments.get(file.id, [])
        if len(segs) < 6:
            raise V.EngineError("anchor lost: FilesInfo.write appends %d segments" % len(segs))
        head, mid, tail = segs[:2], segs[2:-4], segs[-4:]
        es, pad = [], []
        cut = 0
        for j, (prod, sg) in enumerate(mid):
            if prod.endswith("write_boolean") or prod.endswith("_write_prop_bool_vector"):
                cut = j + 1
        es = [sg for _, sg in mid[:cut]]
        pad = [sg for _, sg in mid[cut:]]
        mk = lambda xs: cat(*xs) if xs else b""
        return [head[0][1], head[1][1], mk(es), mk(pad)] + [sg for _, sg in tail]

    @staticmethod
    def _parse(n, ne=0):
        def parse(app):
            try:
                p = 0
                sid = app[0:1]
                ln = SP.number_len(app, 1)
                cnt = app[1:1 + ln]
                p = 1 + ln
                es = b""
                if app[p:p + 1] == b"\x0e":
                    l2 = SP.number_len(app, p + 1)
                    sz = SP.number_value(app, p + 1)
                    es = app[p:p + 1 + l2 + sz]
                    p += len(es)
                elif app[p:p + 1] == b"\x0f":
                    es = app[p:p + 1 + (ne + 7) // 8]
                    p += len(es)
                pad = b""
                if app[p:p + 1] == b"\x19":
                    pad = app[p:p + 2 + app[p + 1]]
                    p += len(pad)

                def rec(p):
                    l3 = SP.number_len(app, p + 1)
                    return p + 1 + l3 + SP.number_value(app, p + 1)

                nm = b""
                if app[p:p + 1] == b"\x11":
                    q = rec(p)
                    nm = app[p:q]
                    p = q
                q = rec(p)
                tm = app[p:q]
                p = q
                q = rec(p)
                at = app[p:q]
                p = q
                return [sid, cnt, es, pad, nm, tm, at, app[p:]]
            except (IndexError, AssertionError):
                return None

        return parse

    def ensures(self, c, old, result, self_, file):
        rl = c.rl(files_of(c, self_))
        n = rl.n
        app = c.appended(old, file)
        s_id, s_cnt, s_es, s_pad, s_names, s_times, s_attrs, s_end = self._segments(c, file, n)
        ES = c.seq_of("EMPTYSTREAM", lambda k: rl.val("emptystream", k), n)
        anyes = any_true_of(c, ES)
        # EmptyStream record: id 0x0e, NUMBER size, BitField of n bits, size == ceil(n/8) == bytes that follow
        lnum = SP.number_len(s_es, 1)
        bits0 = 1 + lnum
        out = [
            ("layout", eq(app, cat(s_id, s_cnt, s_es, s_pad, s_names, s_times, s_attrs, s_end))),
            ("record-id", eq(s_id, PROPERTY_FILES_INFO)),
            ("file-count", SP.is_number(s_cnt, n)),
            ("emptystream-record-present", Implies(anyes, And(L(s_es) >= 2, nth(s_es, 0) == 0x0E))),
            ("emptystream-size-equals-payload", Implies(anyes, And(SP.number_value(s_es, 1) == ceil8(n), L(s_es) == bits0 + ceil8(n)))),
            ("emptystream-bits", ForAll(lambda k: SP.bit(s_es, bits0, k) == rl.val("emptystream", k), guard=lambda k: And(anyes, k >= 0, k < n), n=n, mod=8)),
            ("dummy-record", Or(L(s_pad) == 0, And(L(s_pad) >= 3, L(s_pad) <= 8, nth(s_pad, 0) == 0x19, nth(s_pad, 1) == L(s_pad) - 2))),
            ("dummy-zeros", ForAll(lambda k: nth(s_pad, k) == 0, guard=lambda k: And(k >= 2, k < L(s_pad)), n=8)),
            ("end-marker", eq(s_end, PROPERTY_END)),
        ]
        return out

    def loops(self):
        def inv(c, Lp):
            b = c.bound
            rl = c.rl(files_of(c, b["self_"]))
            es = Lp.local("emptystreams")
            i = Lp.i
            return [
                ("length", L(es) == i),
                ("flags", ForAll(lambda k: nth(es, k) == rl.val("emptystream", k), guard=lambda k: And(k >= 0, k < i), over=es)),
                ("frame-out", eq(c.out(b["file"]), Lp.ghost["out"])),
            ]

        def init(c, Lp):
            Lp.ghost["out"] = c.out(c.bound["file"])
            return []

        return {"archiveinfo:FilesInfo.write#loop0": LoopSpec("for-f", inv, target="f in self.files", unfold_init=init, cells={"emptystreams": "bool"})}
