"""StreamsInfo.write / HeaderStreamsInfo.write (py7zr/archiveinfo.py), abstract mode - C07, C08.

The junction between the section writers that were already under contract (PackInfo.write, UnpackInfo.write,
SubstreamsInfo.write) and Header.write, which treats `StreamsInfo.write` as opaque:

* StreamsInfo.write: id 0x04 (MainStreamsInfo), then the sections that exist - PackInfo, UnpackInfo (CodersInfo),
  SubStreamsInfo, in exactly this order (the order the 7z format and py7zr's own reader require), each exactly once and
  only when the object exists - then END; everything goes into the stream that was passed in and nothing else is written.
* HeaderStreamsInfo.write: id 0x17 (EncodedHeader), PackInfo, UnpackInfo, END - no SubStreamsInfo.

The obligations are assertions over the effect trace of the real method body, one verification per combination of
present / absent sections.
"""
from pyvc.contract import Contract, RaiseSpec, contract
from pyvc import values as V
from pyvc.values import And, Implies, Not, Or, eq
from pyvc.engine import Ref
from contracts.extract import attr

AI = "py7zr.archiveinfo:"


def _last(e):
    return e.name.split(":")[-1].split(".")[-1]


def _is_attr_of(x, name, obj):
    """x is the value read from attribute `name` of `obj` (at whatever heap version the read happened)"""
    try:
        t = x.t
        return t.decl().name() == "attr_" + name and t.arg(0).eq(obj.t)
    except Exception:
        return False


def _writes(evs):
    return [e for e in evs if e.kind == "call" and _last(e) in ("write", "write_byte", "write_bytes", "write_uint64", "write_uint32", "write_boolean", "write_crcs", "write_real_uint64")]


@contract
class StreamsInfoWrite(Contract):
    target = AI + "StreamsInfo.write"
    props = ("C07", "C08")
    abstract = True
    opaque = ("archiveinfo:write_byte", "archiveinfo:PackInfo.write", "archiveinfo:UnpackInfo.write", "archiveinfo:SubstreamsInfo.write")
    stable_attrs = ("packinfo", "unpackinfo", "substreamsinfo")

    def setup(self, c):
        p, u, s = c.choice(2), c.choice(2), c.choice(2)
        pk = c.opq("packinfo") if p else None
        up = c.opq("unpackinfo") if u else None
        ss = c.opq("substreamsinfo") if s else None
        for x in (pk, up, ss):
            if x is not None:
                c.assume(V.Not(V.eq(x, None)))
        me = c.obj("StreamsInfo", "py7zr.archiveinfo", packinfo=pk, unpackinfo=up, substreamsinfo=ss)
        return {"self_": me, "file": c.opq("file"), "_parts": [x for x in (pk, up, ss) if x is not None]}

    def call_args(self, bound):
        return [bound["self_"], bound["file"]], {}

    def raises(self):
        return [RaiseSpec("Exception")]

    def ensures(self, c, old, result, **b):
        eng = c.eng
        if eng.ctx_mode == "assume":
            return []
        file, parts = b["file"], b["_parts"]
        w = _writes(eng.trace)
        names = [_last(e) for e in w]
        want = ["write_byte"] + ["write"] * len(parts) + ["write_byte"]
        ok = names == want
        out = [("exactly-id-sections-end", bool(ok))]
        if ok:
            secs = w[1:-1]
            out += [
                ("main-streams-id-first", bool(w[0].args[0] is file and w[0].args[1] == b"\x04")),
                ("present-sections-once-in-format-order", bool(all(e.recv is not None and e.recv is x for e, x in zip(secs, parts)))),
                ("sections-into-the-same-stream", bool(all(e.args and e.args[0] is file for e in secs))),
                ("end-marker-last", bool(w[-1].args[0] is file and w[-1].args[1] == b"\x00")),
            ]
        return out


@contract
class HeaderStreamsInfoWrite(Contract):
    target = AI + "HeaderStreamsInfo.write"
    props = ("C07",)
    abstract = True
    opaque = ("archiveinfo:write_byte", "archiveinfo:PackInfo.write", "archiveinfo:UnpackInfo.write", "archiveinfo:SubstreamsInfo.write")
    stable_attrs = ("packinfo", "unpackinfo", "substreamsinfo")

    def setup(self, c):
        pk, up = c.opq("packinfo"), c.opq("unpackinfo")
        me = c.obj("HeaderStreamsInfo", "py7zr.archiveinfo", packinfo=pk, unpackinfo=up, substreamsinfo=None)
        return {"self_": me, "file": c.opq("file"), "_parts": [pk, up]}

    def call_args(self, bound):
        return [bound["self_"], bound["file"]], {}

    def raises(self):
        return [RaiseSpec("Exception")]

    def ensures(self, c, old, result, **b):
        eng = c.eng
        if eng.ctx_mode == "assume":
            return []
        file, parts = b["file"], b["_parts"]
        w = _writes(eng.trace)
        names = [_last(e) for e in w]
        ok = names == ["write_byte", "write", "write", "write_byte"]
        out = [("exactly-id-pack-unpack-end", bool(ok))]
        if ok:
            out += [
                ("encoded-header-id-first", bool(w[0].args[0] is file and w[0].args[1] == b"\x17")),
                ("pack-then-unpack-info", bool(w[1].recv is parts[0] and w[2].recv is parts[1])),
                ("sections-into-the-same-stream", bool(all(e.args and e.args[0] is file for e in w[1:3]))),
                ("end-marker-last", bool(w[3].args[0] is file and w[3].args[1] == b"\x00")),
            ]
        return out


@contract
class StreamsInfoRead(Contract):
    """StreamsInfo.read: one id byte, then the sections in the order the format gives them - PackInfo (0x06), UnpackInfo
    (0x07), SubStreamsInfo (0x08) - each parsed at most once by its own reader from the same stream and followed by the
    next id byte; SubStreamsInfo is parsed against the folders of the UnpackInfo that was just read and is refused when
    there is none; when folders were read but the section is omitted, the default (one stream per folder) is parsed from
    an in-memory stream and nothing is consumed from the archive for it (the CONTENT of that stream - a lone END id - is
    not pinned here: the engine forgets a stream's bytes once an opaque callee has seen it; the bounded section check
    `stream-sections-read` exercises it); the walk ends normally only on the END id."""

    target = AI + "StreamsInfo.read"
    props = ("C06", "C05")
    abstract = True
    opaque = ("archiveinfo:PackInfo.retrieve", "archiveinfo:UnpackInfo.retrieve", "archiveinfo:SubstreamsInfo.retrieve")
    noraise = ("BytesIO",)
    frame_preserving = ("BytesIO", "read")
    assumptions = ("the section objects handed back by the `retrieve` class methods are not None: UnpackInfo.retrieve / SubstreamsInfo.retrieve are under contract below (they return the object they instantiate); PackInfo.retrieve is `return cls()._read(file)` and PackInfo._read ends in `return self` - that one is assumed",)

    def setup(self, c):
        me = c.obj("StreamsInfo", "py7zr.archiveinfo", packinfo=None, unpackinfo=None, substreamsinfo=None)
        return {"self_": me, "file": c.opq("file")}

    def call_args(self, bound):
        return [bound["self_"], bound["file"]], {}

    def raises(self):
        return [RaiseSpec("Exception")]

    track_raises = True

    def xensures(self, c, old, exc, **b):
        """completeness: the method itself refuses a stream only for an id that may not follow what was already
        consumed (next admissible ids: any LATER section, or END), or for SubStreamsInfo without folders"""
        import ast as _ast

        eng = c.eng
        if not isinstance(exc.node, _ast.Raise):
            return []  # propagated from a section reader / the stream
        file = b["file"]
        ev = [e for e in eng.trace if e.kind == "call" and (_last(e) == "read" or _last(e) == "retrieve")]
        cls = lambda e: e.name.split(":")[-1].split(".")[0]
        order = ["PackInfo", "UnpackInfo", "SubstreamsInfo"]
        ids = {"PackInfo": b"\x06", "UnpackInfo": b"\x07", "SubstreamsInfo": b"\x08"}
        rets = [e for e in ev if _last(e) == "retrieve" and cls(e) in order]
        reads = [e for e in ev if _last(e) == "read"]
        consumed = [e for e in ev if _last(e) == "read" or (len(e.args) > 1 and e.args[1] is file)]  # the in-memory default consumes nothing
        if not reads or consumed[-1] is not reads[-1]:
            return [("own-rejection-follows-an-id-byte", False)]
        r = reads[-1].result
        done = max([order.index(cls(e)) for e in rets], default=-1)
        admissible = [ids[n] for n in order[done + 1 :]] + [b"\x00"]
        has_folders = any(cls(e) == "UnpackInfo" for e in rets)
        bad_id = And(*[Not(eq(r, x)) for x in admissible])
        just = bad_id if has_folders else Or(bad_id, eq(r, b"\x08"))
        H = And(*[Not(eq(e.result, None)) for e in rets]) if rets else True
        return [("rejects-only-an-id-that-may-not-follow", Implies(H, just))]

    def ensures(self, c, old, result, **b):
        eng = c.eng
        if eng.ctx_mode == "assume":
            return []
        me, file = b["self_"], b["file"]
        ev = [e for e in eng.trace if e.kind == "call" and (_last(e) == "read" or _last(e) == "retrieve")]
        rank = {"PackInfo": (0, b"\x06"), "UnpackInfo": (1, b"\x07"), "SubstreamsInfo": (2, b"\x08")}
        cls = lambda e: e.name.split(":")[-1].split(".")[0]
        rets = [e for e in ev if _last(e) == "retrieve"]
        reads = [e for e in ev if _last(e) == "read"]
        from_file = [e for e in rets if len(e.args) > 1 and e.args[1] is file]
        default = [e for e in rets if not (len(e.args) > 1 and e.args[1] is file)]
        out = []
        # shape: read (retrieve-from-file read)* [default SubStreamsInfo]
        shape = bool(ev) and _last(ev[0]) == "read"
        k = 1
        for e in from_file:
            shape = shape and k + 1 < len(ev) and ev[k] is e and _last(ev[k + 1]) == "read"
            k += 2
        shape = shape and ev[k:] == default and len(default) <= 1
        out.append(("id-byte-then-section-then-next-id-byte", bool(shape)))
        out.append(("one-byte-ids-from-the-stream", bool(all(e.recv is file and e.args == (1,) for e in reads))))
        if not shape:
            return [(lbl, Implies(And(*[Not(eq(e.result, None)) for e in rets]) if rets else True, f)) for lbl, f in out]
        ranks = [rank.get(cls(e), (None, None))[0] for e in rets]
        out.append(("sections-in-format-order-each-at-most-once", bool(None not in ranks and all(x < y for x, y in zip(ranks, ranks[1:])))))
        k = 0
        for e in from_file:
            out.append(("section-reader-chosen-by-the-id-just-read", eq(ev[k].result, rank[cls(e)][1]) if cls(e) in rank else False))
            k += 2
        out.append(("walk-ends-on-the-end-id", eq(reads[-1].result, b"\x00")))
        ups = [e for e in rets if cls(e) == "UnpackInfo"]
        subs = [e for e in rets if cls(e) == "SubstreamsInfo"]
        pks = [e for e in rets if cls(e) == "PackInfo"]
        out.append(("substreams-exactly-when-folders-were-read", bool(len(subs) == len(ups))))
        if subs and ups:
            a = subs[0].args
            out.append(("substreams-parsed-against-the-folders-just-read", bool(len(a) == 4 and _is_attr_of(a[2], "numfolders", ups[0].result) and _is_attr_of(a[3], "folders", ups[0].result))))
        for e in default:
            st = e.args[1] if len(e.args) > 1 else None
            ok = cls(e) == "SubstreamsInfo" and isinstance(st, Ref) and eng.kind(st) == "stream"
            out.append(("omitted-substreams-default-parsed-from-memory-not-from-the-archive", bool(ok)))
        fld = lambda n: eng.get_field(me, n)
        out.append(("results-stored", bool((fld("packinfo") is (pks[0].result if pks else None)) and (fld("unpackinfo") is (ups[0].result if ups else None)) and (fld("substreamsinfo") is (subs[0].result if subs else None)))))
        # assumed contract of the three opaque `retrieve` class methods: they return the object they built, never None
        H = And(*[Not(eq(e.result, None)) for e in rets]) if rets else True
        return [(lbl, Implies(H, f)) for lbl, f in out]


# ------------------------------------------------------------------------------------- the `retrieve` class methods
def _retrieve_contract(clsname, reader, extra=(), props=("C06",), returns_reader_result=False):
    """`<Class>.retrieve(file, ...)`: returns the object it has just instantiated (an instantiation never yields None:
    Python semantics), after exactly one call of the section reader ON THAT OBJECT with the caller's stream and
    arguments, and nothing else."""
    from pyvc.contract import get_module

    class _R(Contract):
        target = AI + clsname + ".retrieve"
        abstract = True
        opaque = ("archiveinfo:%s.%s" % (clsname, reader),)

        def setup(self, c):
            b = {"cls": get_module("py7zr.archiveinfo").classes[clsname], "file": c.opq("file")}
            for n in extra:
                b[n] = c.opq(n)
            return b

        def call_args(self, bound):
            return [bound["cls"], bound["file"]] + [bound[n] for n in extra], {}

        def raises(self):
            return [RaiseSpec("Exception")]

        def ensures(self, c, old, result, **b):
            eng = c.eng
            if eng.ctx_mode == "assume":
                return []
            calls = [e for e in eng.trace if e.kind == "call"]
            ok = len(calls) == 2 and calls[0].name.endswith(":" + clsname) and calls[0].args == () and _last(calls[1]) == reader
            out = [("instantiate-then-read-once-and-nothing-else", bool(ok))]
            if ok:
                obj = calls[0].result
                want = [b["file"]] + [b[n] for n in extra]
                out += [
                    ("reader-runs-on-the-new-object", bool(calls[1].recv is obj)),
                    ("reader-gets-the-callers-stream-and-arguments", bool(len(calls[1].args) == len(want) and all(x is y for x, y in zip(calls[1].args, want)))),
                    ("returns-what-the-reader-returns", bool(result is calls[1].result)) if returns_reader_result else ("returns-the-new-object", bool(result is obj)),
                ]
            return out

    _R.__name__ = clsname + "Retrieve"
    _R.__qualname__ = _R.__name__
    _R.props = props
    return contract(_R)


StreamsInfoRetrieve = _retrieve_contract("StreamsInfo", "read", props=("C06",))
UnpackInfoRetrieve = _retrieve_contract("UnpackInfo", "_read", props=("C06",))
SubstreamsInfoRetrieve = _retrieve_contract("SubstreamsInfo", "_read", extra=("numfolders", "folders"), props=("C06",))
FilesInfoRetrieve = _retrieve_contract("FilesInfo", "_read", props=("C06",))
FolderRetrieve = _retrieve_contract("Folder", "_read", props=("C06",))
HeaderRetrieve = _retrieve_contract("Header", "_read", extra=("buffer", "start_pos", "password"), props=("C06", "C04"))
SignatureHeaderRetrieve = _retrieve_contract("SignatureHeader", "_read", props=("C06", "C04"))
# PackInfo.retrieve is `return cls()._read(file)`: it hands back what the reader returns (PackInfo._read ends in `return self`)
PackInfoRetrieve = _retrieve_contract("PackInfo", "_read", props=("C06",), returns_reader_result=True)
