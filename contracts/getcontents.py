"""SevenZipFile._real_get_contents (py7zr/py7zr.py), abstract mode - C06, C04, C10, C01.

Obligations (assertions over the effect trace and the path condition):
* C04  the header bytes are parsed only after their CRC-32 was compared with the stored next-header CRC;
* C06  a member gets a `digest` exactly when ITS OWN defined-flag (subinfo.digestsdefined[k], k = number of non-empty
       members before it) is set, and the value is subinfo.digests[k]; its size is unpacksizes[k]; members are appended
       to self.files in header order, every non-empty one also to its folder's member list;
* C10  password_protected is set from the coder chains of ALL folders (any(...) over unpackinfo.folders).
"""
try:
    import z3
except Exception:  # concrete-only interpreter
    z3 = None

from pyvc.contract import Contract, ForAll, LoopSpec, RaiseSpec, contract
from pyvc.values import And, Implies, Not, Or, L, ite, nth, eq, SBool, SInt, SOpq, truthy
from pyvc import values as V
from contracts.extract import attr, item, to_int

PY = "py7zr.py7zr:"


@contract
class RealGetContents(Contract):
    target = PY + "SevenZipFile._real_get_contents"
    props = ("C06", "C04", "C10", "C01")
    abstract = True
    opaque = ("helpers:calculate_crc32", "archiveinfo:SignatureHeader.retrieve", "archiveinfo:Header.retrieve")  # their own contracts: sigheader.py
    pure = ("calculate_crc32", "getvalue", "max", "sum", "any", "needs_password", "basename", "splitext", "hasattr", "getattr", "len")
    noraise = ("append", "close", "getvalue", "tell", "max", "sum", "any", "len", "hasattr", "getattr", "ArchiveFileList", "ParseStatus", "BytesIO")
    frame_preserving = ("append", "close", "getvalue", "tell", "seek", "read", "calculate_crc32", "_check_7zfile", "ArchiveFileList", "ParseStatus", "BytesIO", "needs_password", "max", "sum", "any", "_get_fileinfo_sizes", "basename", "splitext")
    assumptions = (
        "_get_fileinfo_sizes modifies nothing but folder.solid (its own contract below); the folder list holds Folder objects (never None); list.append / os.path helpers do not touch the parse cursor",
    )
    stable_attrs = ("header", "main_streams", "unpackinfo", "packinfo", "substreamsinfo", "folders", "files_info", "files", "fp", "sig_header", "nextheadercrc", "nextheadersize", "nextheaderofs", "coders", "digestsdefined", "digests", "num_unpackstreams_folders", "packsizes", "unpacksizes")

    def setup(self, c):
        return {"self_": c.opq("self"), "password": c.opq("password")}

    def raises(self):
        return [RaiseSpec("Exception")]

    def hooks(self):
        from pyvc import builtins_model as B
        from contracts.sessions import attr_now

        def subinfo_of(c):
            me = c.bound["self_"]
            return attr_now(c, attr_now(c, attr_now(c, me, "header"), "main_streams"), "substreamsinfo")

        def on_header(c, ev):
            if "SignatureHeader" in ev.name or "Header.retrieve" not in ev.name:
                return
            # C04: Header.retrieve(fp, buffer, ...) runs only after crc32(buffer.getvalue()) == sig_header.nextheadercrc
            eng = c.eng
            me = c.bound["self_"]
            buf = ev.args[2] if len(ev.args) > 2 else None
            gv = [e for e in eng.trace if e.kind == "pure" and e.name.endswith("getvalue") and e.recv is buf]
            crc = [e for e in eng.trace if e.kind == "pure" and e.name.endswith("calculate_crc32") and gv and e.args and e.args[0] is gv[-1].result]
            rd = [e for e in eng.trace if e.kind == "call" and e.name.endswith("read")]
            bio = [e for e in eng.trace if e.kind == "call" and e.name.endswith("BytesIO") and e.result is buf]
            sig = attr_now(c, me, "sig_header")
            ok = And(eq(attr_now(c, sig, "nextheadercrc"), crc[-1].result), True) if crc else False
            c.oblig("assert", "header-crc-compared-before-parsing@Header.retrieve", ok, props=("C04",))
            c.oblig("assert", "parsed-bytes-are-the-checksummed-bytes@Header.retrieve", bool(bio and rd and bio[-1].args and bio[-1].args[0] is rd[-1].result), props=("C04",))
            c.oblig("assert", "header-read-with-the-declared-size@Header.retrieve", eq(rd[-1].args[0], attr_now(c, sig, "nextheadersize")) if rd else False, props=("C04", "C06"))

        def on_sizes(c, ev):
            # the cursor k = number of non-empty members seen so far, at the moment this member's sizes are looked up
            ps = ev.args[0]
            c.assume(Not(eq(ev.args[3], None)))  # folders[...] is a Folder object
            c.eng.ghost["pstat"] = ps

        def on_setitem(c, ev):
            eng = c.eng
            if ev.args and ev.args[0] == "digest":
                want = eng.ghost.get("want_digest")
                flag = eng.ghost.get("flag")
                if want is None or flag is None:
                    c.oblig("assert", "digest-is-the-member's-own@setitem", False, props=("C06", "C04"))
                    return
                c.oblig("assert", "digest-is-the-member's-own@setitem", eq(ev.args[1], want), props=("C06", "C04"))
                c.oblig("assert", "digest-only-when-the-member's-own-flag-is-set@setitem", truthy(flag), props=("C06",))
                eng.ghost["digest_set"] = True

        return {("call", "Header.retrieve"): [on_header], ("call", "retrieve"): [on_header], ("call", "_get_fileinfo_sizes"): [on_sizes], ("setitem", "setitem"): [on_setitem]}

    @property
    def stmt_hooks(self):
        import ast
        from pyvc import builtins_model as B
        from contracts.sessions import attr_now

        def hook(c, st):
            eng = c.eng
            if len(eng.frames) == 1 and isinstance(st, ast.If) and "digestsdefined" in ast.unparse(st.test) and "pstat" in eng.ghost:
                me = c.bound["self_"]
                sub = attr_now(c, attr_now(c, attr_now(c, me, "header"), "main_streams"), "substreamsinfo")
                k = attr_now(c, eng.ghost["pstat"], "outstreams")
                eng.ghost["k"] = k
                eng.ghost["flag"] = B.get_item(eng, attr_now(c, sub, "digestsdefined"), k, None)
                eng.ghost["want_digest"] = B.get_item(eng, attr_now(c, sub, "digests"), k, None)

        return (hook,)

    def loops(self):
        def noinv(c, Lp):
            return []

        def step1(c, Lp):
            g = c.eng.ghost
            for nm in ("k", "digest_set", "flag", "want_digest"):
                g.pop(nm, None)
            return []

        def member_asserts(c, Lp):
            from pyvc import builtins_model as B
            from contracts.sessions import attr_now

            eng = c.eng
            me = c.bound["self_"]
            evs = eng.trace[Lp.trace_mark:]
            out = []
            files = attr(attr(attr(me, "header"), "files_info"), "files")
            member = Lp.element(Lp.i)[1]  # the file_info this iteration of `enumerate(self.header.files_info.files)` handles
            all_apps = [e for e in evs if e.kind == "call" and e.name.endswith("append")]
            # program order: a non-empty member is first added to its folder's own list, every member is then added to
            # the archive-wide list self.files
            apps = all_apps[-1:]
            out.append(("member-appended-once-in-header-order", bool(len(apps) == 1) and (And(eq(apps[0].args[0], member), eq(apps[0].recv, attr_now(c, me, "files"))) if len(apps) == 1 else False)))
            sized = [e for e in evs if e.kind == "call" and e.name.endswith("_get_fileinfo_sizes")]
            if sized:
                sub = attr_now(c, attr_now(c, attr_now(c, me, "header"), "main_streams"), "substreamsinfo")
                flag = eng.ghost.get("flag")
                if not eng.ghost.get("digest_set"):
                    if flag is None:
                        out.append(("digest-decided-by-the-member's-own-flag", False))
                    else:
                        out.append(("digest-present-when-the-member's-own-flag-is-set", Not(truthy(flag))))
                sets = [e for e in evs if e.kind == "setitem" and e.args and e.args[0] == "uncompressed"]
                out.append(("size-comes-from-the-size-lookup", bool(len(sets) == 1 and len(sized) == 1) and (eq(sets[0].args[1], SOpq(V.uf("item", V.vsort(), z3.IntSort(), V.vsort())(sized[0].result.t, z3.IntVal(2)))) if len(sets) == 1 else False)))
                ff = [e for e in evs if e.kind == "setattr" and e.name == "files"]
                for e in ff:
                    mk = [x for x in evs if x.kind == "call" and x.name.endswith("ArchiveFileList") and x.result is e.args[0]]
                    off = mk[-1].kwargs.get("offset") if mk else None
                    out.append(("folder-member-list-starts-at-this-member's-index", (eq(off, Lp.i) if off is not None and V.is_sym(off) else bool(off is not None and off == Lp.i))))
                fapp = [e for e in all_apps if e not in apps]
                out.append(("member-joins-its-folder's-list", bool(len(fapp) == 1) and (And(eq(fapp[0].args[0], member), eq(fapp[0].recv, attr_now(c, sized[0].args[3], "files"))) if len(fapp) == 1 else False)))
                # ... under its OWN archive-wide index (members of a folder need not be consecutive: C01 id invariant)
                own = len(fapp) == 1 and len(fapp[0].args) >= 2
                out.append(("member-joins-its-folder's-list-under-its-own-index", (eq(fapp[0].args[1], Lp.i) if V.is_sym(fapp[0].args[1]) else bool(fapp[0].args[1] == Lp.i)) if own else False))
                cnt = [e for e in evs if e.kind == "setattr" and e.name == "outstreams"]
                out.append(("cursor-advances-by-one-member", len(cnt) == 1))
            else:
                out.append(("empty-members-join-no-folder", len(all_apps) == 1))
                cnt = [e for e in evs if e.kind == "setattr" and e.name in ("outstreams", "input", "folder", "stream")]
                out.append(("empty-members-do-not-move-the-cursor", len(cnt) == 0))
            return out

        def dbg(c, Lp):
            import os
            if os.environ.get("DBG_TRACE"):
                print("--- iteration")
                for e in c.eng.trace[Lp.trace_mark:]:
                    print("   ", e.kind, e.name, ("recv=" + str(e.recv)[:60]) if e.recv is not None else "", [str(a)[:70].replace("\n", " ") for a in e.args])
            return []

        return {
            "py7zr:SevenZipFile._real_get_contents#loop0": LoopSpec("for-folder", noinv),
            "py7zr:SevenZipFile._real_get_contents#loop1": LoopSpec("for-file", noinv, unfold_step=step1, asserts=member_asserts),
            "py7zr:SevenZipFile._real_get_contents#loop2": LoopSpec("while-skip", noinv),
        }

    def ensures(self, c, old, result, **b):
        eng = c.eng
        if eng.ctx_mode == "assume":
            return []
        me = b["self_"]
        out = []
        pp = [e for e in eng.trace if e.kind == "setattr" and e.name == "password_protected"]
        if pp:
            v = pp[-1].args[0]
            anys = [e for e in eng.trace if e.kind == "pure" and e.name == "any" and e.result is v]
            ok = False
            if anys:
                comps = [e for e in eng.trace if e.kind == "pure" and e.name == "listcomp" and e.result is anys[-1].args[0]]
                if comps and "needs_password(folder.coders)" in comps[-1].kwargs.get("text", ""):
                    from contracts.sessions import attr_now

                    allf = attr_now(c, attr_now(c, attr_now(c, attr_now(c, me, "header"), "main_streams"), "unpackinfo"), "folders")
                    ok = eq(comps[-1].args[0], allf)
            out.append(("password-flag-looks-at-every-folder", ok, ("C10", "C11")))
        return out or [("no-flag-change", True)]


@contract
class GetFileinfoSizes(Contract):
    """size lookup for the k-th non-empty member (k = pstat.outstreams): its unpack size is unpacksizes[k]; the packed
    size is the current pack stream's for the first member of a folder and unknown (None) for later members of a solid
    folder; nothing but folder.solid is modified"""

    target = PY + "SevenZipFile._get_fileinfo_sizes"
    props = ("C06", "C01", "C10")
    abstract = True
    pure = ("len",)
    noraise = ("len",)
    frame_preserving = ("len",)
    stable_attrs = ("outstreams", "stream", "input", "folder", "num_unpackstreams_folders", "packsizes")
    stable_getitem = True

    def setup(self, c):
        return {"self_": c.opq("self"), "pstat": c.opq("pstat"), "subinfo": c.opq("subinfo"), "packinfo": c.opq("packinfo"), "folder": c.opq("folder"), "packsizes": c.opq("packsizes"), "unpacksizes": c.opq("unpacksizes"), "file_in_solid": c.int("file_in_solid"), "numinstreams": c.opq("numinstreams")}

    def raises(self):
        return [RaiseSpec("Exception")]

    def ensures(self, c, old, result, **b):
        from pyvc import builtins_model as B

        eng = c.eng
        if eng.ctx_mode == "assume":
            return []
        ps = b["pstat"]
        k = attr(ps, "outstreams")
        want = B.get_item(eng, b["unpacksizes"], k, None)
        sets = [e for e in eng.trace if e.kind == "setattr"]
        ok_shape = isinstance(result, tuple) and len(result) == 5
        out = [("returns-five-values", bool(ok_shape))]
        if ok_shape:
            out.append(("unpack-size-of-the-kth-non-empty-member", eq(result[2], want)))
            out.append(("later-members-of-a-solid-folder-have-no-packed-size", Implies(b["file_in_solid"] > 0, result[1] is None) if V.is_sym(b["file_in_solid"]) else True))
        out.append(("modifies-only-the-solid-flag-of-the-folder", bool(all(e.name == "solid" and e.recv is b["folder"] for e in sets))))
        return out


@contract
class HeaderRead(Contract):
    """Header._read: a raw header is parsed directly; an encoded header is decoded ONCE (no nesting: the decoded bytes
    must be a raw header), each of its folders is read from the packed area and - when the folder carries a CRC - the
    decoded bytes are compared with it before they are parsed (C04); empty input means an empty archive"""

    target = "py7zr.archiveinfo:Header._read"
    props = ("C04", "C06", "C05")
    abstract = True
    opaque = ("helpers:calculate_crc32", "archiveinfo:HeaderStreamsInfo.retrieve", "archiveinfo:StreamsInfo.retrieve")
    pure = ("calculate_crc32", "isinstance", "len", "bytearray")
    noraise = ("isinstance", "len", "bytearray", "BytesIO", "write", "seek")
    frame_preserving = ("isinstance", "len", "bytearray", "BytesIO", "write", "seek", "calculate_crc32", "read", "get_decompressor")
    stable_attrs = ("unpackinfo", "packinfo", "folders", "packsizes", "packpos", "unpacksizes", "coders", "digestdefined", "crc", "_start_pos")

    def setup(self, c):
        return {"self_": c.opq("self"), "fp": c.opq("fp"), "buffer": c.opq("buffer"), "start_pos": c.opq("start_pos"), "password": c.opq("password")}

    @property
    def stmt_hooks(self):
        import ast

        def hook(c, st):
            eng = c.eng
            if len(eng.frames) == 1 and isinstance(st, ast.While) and "folder_data" in eng.frame.env:
                # the decoded bytes of the folder are accumulated in a bytearray; their content is not modelled here
                eng.frame.env["folder_data"] = c.opq("folder_data")
            if len(eng.frames) == 1 and isinstance(st, ast.For) and "buffer2" in eng.frame.env and not isinstance(eng.frame.env["buffer2"], SOpq):
                # the in-memory buffer that collects the decoded header: an opaque object here (its write calls are events)
                eng.frame.env["buffer2"] = c.opq("buffer2")

        return (hook,)

    def isinstance_model(self, x, tn):
        # Folder.unpacksizes is always a list (Folder.__init__ / UnpackInfo._retrieve_coders_info): the scalar fallback
        # of Header._read is dead code and is not explored
        return True

    def raises(self):
        return [RaiseSpec("Exception")]

    def loops(self):
        def noinv(c, Lp):
            return []

        def step(c, Lp):
            c.eng.ghost["folder_iter_mark"] = len(c.eng.trace)
            return []

        def folder_asserts(c, Lp):
            eng = c.eng
            evs = eng.trace[Lp.trace_mark:]
            folder = Lp.element(Lp.i)
            crcs = [e for e in evs if e.kind == "pure" and e.name.endswith("calculate_crc32")]
            writes = [e for e in evs if e.kind == "call" and e.name.endswith("write")]
            flagged = truthy(attr(folder, "digestdefined"))
            if crcs:
                ok = eq(attr(folder, "crc"), crcs[-1].result)
                same = bool(writes and crcs[-1].args and writes[-1].args and writes[-1].args[0] is crcs[-1].args[0])
                return [("folder-crc-compared-before-the-bytes-are-used", ok), ("compared-bytes-are-the-parsed-bytes", same)]
            return [("folder-crc-compared-before-the-bytes-are-used", Not(flagged))]

        return {
            "archiveinfo:Header._read#loop0": LoopSpec("for-folder", noinv, target="folder in streams.unpackinfo.folders", unfold_step=step, asserts=folder_asserts),
            "archiveinfo:Header._read#loop1": LoopSpec("while-remaining", noinv, target="remaining > 0"),
        }

    def ensures(self, c, old, result, **b):
        eng = c.eng
        if eng.ctx_mode == "assume":
            return []
        dec = [e for e in eng.trace if e.kind == "call" and e.name.endswith("HeaderStreamsInfo.retrieve")]
        parsed = [e for e in eng.trace if e.kind == "call" and e.name.endswith("_extract_header_info")]
        return [
            ("encoded-header-decoded-at-most-once", len(dec) <= 1),
            ("header-parsed-at-most-once", len(parsed) <= 1),
        ]


@contract
class FilesInfoRead(Contract):
    """FilesInfo._read: NUMBER numfiles, then property records (id, NUMBER size, size bytes) until END.  Every record is
    confined to its own `size` bytes (a sub-buffer), so a record can neither read into the next one nor desynchronise the
    walk; kDummy padding is skipped by exactly `size` bytes; each known property id is handed to the reader that the
    format assigns to it (times by kind, names, attributes, empty-stream / empty-file vectors); unknown ids raise"""

    target = "py7zr.archiveinfo:FilesInfo._read"
    props = ("C06", "C05", "C08")
    abstract = True
    opaque = ("archiveinfo:read_uint64", "archiveinfo:remaining_size", "archiveinfo:read_boolean", "archiveinfo:FilesInfo._read_name", "archiveinfo:FilesInfo._read_times", "archiveinfo:FilesInfo._read_attributes", "archiveinfo:FilesInfo._read_start_pos", "archiveinfo:FilesInfo._mark_directories")
    pure = ("map", "list", "count")
    noraise = ("BytesIO", "map", "list", "count", "tell")
    frame_preserving = ("BytesIO", "map", "list", "count", "tell", "seek", "read", "read_uint64", "read_boolean", "remaining_size")
    stable_attrs = ("files",)
    int_functions = ()
    unroll_limit = 4

    def setup(self, c):
        return {"self_": c.opq("self"), "fp": c.opq("fp")}

    def raises(self):
        return [RaiseSpec("Exception")]

    def loops(self):
        def noinv(c, Lp):
            return []

        def rec_asserts(c, Lp):
            eng = c.eng
            me, fp = c.bound["self_"], c.bound["fp"]
            evs = eng.trace[Lp.trace_mark:]
            reads = [e for e in evs if e.kind == "call" and e.name.endswith("read") and e.recv is fp]
            nums = [e for e in evs if e.kind in ("call", "contract-call") and e.name.endswith("read_uint64") and e.args and e.args[0] is fp]
            seeks = [e for e in evs if e.kind == "call" and e.name.endswith("seek") and e.recv is fp]
            bios = [e for e in evs if e.kind == "call" and e.name.endswith("BytesIO")]
            subs = [e for e in evs if e.kind in ("call", "contract-call") and e.name.split(".")[-1] in ("_read_name", "_read_times", "_read_attributes", "_read_start_pos", "read_boolean")]
            out = []
            if not nums:
                return out  # the END marker ended the walk (break) before anything else was read
            size = nums[0].result
            if seeks and not bios:
                out.append(("padding-skipped-by-its-declared-size", bool(len(seeks) == 1 and seeks[0].args and seeks[0].args[0] is size)))
                out.append(("padding-carries-no-information", len(subs) == 0))
                return out
            body = [e for e in reads if e.args and e.args[0] is size]
            out.append(("record-body-read-with-its-declared-size", bool(len(body) == 1 and bios and bios[0].args and bios[0].args[0] is body[0].result)))
            buf = bios[0].result if bios else None
            # every reader of this record works on the record's own bytes (never on the outer stream)
            # (the rarely used `external` form seeks the outer stream to a data index and restores the position afterwards)
            inside = [e for e in subs if e.args and e.args[0] is buf]
            outside = [e for e in subs if e not in inside]
            restored = len(outside) == 0 or (len(seeks) == 2 and all(e.args and e.args[0] is fp for e in outside) and eng.trace.index(seeks[0]) < min(eng.trace.index(e) for e in outside) < eng.trace.index(seeks[1]))
            out.append(("record-readers-stay-inside-the-record", bool(restored)))
            return out

        return {"archiveinfo:FilesInfo._read#loop0": LoopSpec("while-records", noinv, target="True", asserts=rec_asserts)}

    def hooks(self):
        PROP = {"_read_times": None}

        def on_times(c, ev):
            # the time kind stored is the one the property id names
            eng = c.eng
            pid = eng.frames[0].env.get("prop")
            want = {b"\x12": "creationtime", b"\x13": "lastaccesstime", b"\x14": "lastwritetime"}
            name = ev.args[-1] if ev.args else None
            ok = False
            for k, v in want.items():
                if name == v:
                    ok = eq(pid, k) if V.is_sym(pid) else bool(pid == k)
            c.oblig("assert", "time-kind-matches-the-property-id@_read_times", ok, props=("C06", "C02"))

        return {("call", "_read_times"): [on_times], ("contract-call", "py7zr.archiveinfo:FilesInfo._read_times"): [on_times]}

    def ensures(self, c, old, result, **b):
        eng = c.eng
        if eng.ctx_mode == "assume":
            return []
        tr = eng.trace
        nums = [e for e in tr if e.kind in ("call", "contract-call") and e.name.endswith("read_uint64")]
        rems = [e for e in tr if e.kind in ("call", "contract-call") and e.name.endswith("remaining_size")]
        # C05 (FX24): one record is allocated per declared member, so the declared count is compared with what is left
        # of the header before anything else happens, and the walk goes on only when it fits
        first = bool(nums and rems and rems[0].args and rems[0].args[0] is b["fp"] and tr.index(rems[0]) == tr.index(nums[0]) + 1)
        out = [("walk-ends-only-at-the-end-marker", True), ("member-count-checked-before-anything-is-allocated", first, ("C05",))]
        # C06 (FX30): the kind of the members without data is settled once, after every property record has been read
        marks = [e for e in tr if e.kind in ("call", "contract-call") and str(e.name).endswith("_mark_directories")]
        out.append(("member-kinds-settled-once-after-the-walk", bool(len(marks) == 1 and tr.index(marks[0]) == max(i for i, e in enumerate(tr) if e.kind in ("call", "contract-call"))), ("C06",)))
        if first:
            gt = V.uf("cmp_Gt", V.vsort(), V.vsort(), z3.BoolSort())
            out.append(("member-count-fits-the-remaining-header", Not(V.SBool(gt(V.box(nums[0].result).t, V.box(rems[0].result).t))), ("C05",)))
        return out


@contract
class RetrieveCodersInfo(Contract):
    """UnpackInfo._retrieve_coders_info: after the CodersUnpackSize id one NUMBER is read for every output stream of every
    coder of every folder, in order, and appended to THAT folder's sizes; an optional UnpackDigests record carries a
    BooleanList over the folders and one CRC per DEFINED folder digest: a folder gets a CRC only when its flag is set,
    and the number of CRCs read is the number of set flags; then END"""

    target = "py7zr.archiveinfo:UnpackInfo._retrieve_coders_info"
    props = ("C06", "C04", "C05")
    abstract = True
    opaque = ("archiveinfo:read_uint64", "archiveinfo:read_boolean", "archiveinfo:read_crcs")
    pure = ("count", "ord")
    noraise = ("append", "count", "tell", "ord")
    frame_preserving = ("append", "count", "tell", "read", "read_uint64", "read_boolean", "read_crcs", "ord")
    stable_attrs = ("folders", "numfolders", "coders", "unpacksizes")

    def setup(self, c):
        return {"self_": c.opq("self"), "file": c.opq("file")}

    def raises(self):
        return [RaiseSpec("Exception")]

    def hooks(self):
        def on_crcs(c, ev):
            eng = c.eng
            bools = [e for e in eng.trace if e.kind in ("call", "contract-call") and e.name.endswith("read_boolean")]
            cnt = [e for e in eng.trace if e.kind == "pure" and e.name.endswith("count") and bools and e.recv is bools[-1].result]
            ok = bool(bools and cnt and ev.args and len(ev.args) >= 2 and ev.args[1] is cnt[-1].result and cnt[-1].args and cnt[-1].args[0] is True)
            c.oblig("assert", "one-crc-per-defined-folder-digest@read_crcs", ok, props=("C06", "C04"))
            me = c.bound["self_"]
            c.oblig("assert", "one-flag-per-folder@read_boolean", bool(bools and len(bools[-1].args) >= 2) and eq(bools[-1].args[1], attr(me, "numfolders")), props=("C06",))

        return {("call", "read_crcs"): [on_crcs], ("contract-call", "py7zr.archiveinfo:read_crcs"): [on_crcs]}

    def loops(self):
        def noinv(c, Lp):
            return []

        def size_asserts(c, Lp):
            evs = c.eng.trace[Lp.trace_mark:]
            nums = [e for e in evs if e.kind in ("call", "contract-call") and e.name.endswith("read_uint64")]
            apps = [e for e in evs if e.kind == "call" and e.name.endswith("append")]
            folder = c.local("folder")
            ok = len(nums) == 1 and len(apps) == 1 and apps[0].args and apps[0].args[0] is nums[0].result
            return [("one-size-read-per-output-stream-into-its-folder", And(bool(ok), eq(apps[0].recv, attr(folder, "unpacksizes"))) if ok else False)]

        def crc_asserts(c, Lp):
            from pyvc import builtins_model as B

            eng = c.eng
            evs = eng.trace[Lp.trace_mark:]
            el = Lp.element(Lp.i)
            folder = el[1] if isinstance(el, tuple) else el
            sets = [e for e in evs if e.kind == "setattr"]
            flags = [e for e in sets if e.name == "digestdefined"]
            crcs = [e for e in sets if e.name == "crc"]
            defined = c.local("defined")
            flag_k = B.get_item(eng, defined, Lp.i, None)
            out = [("folder-flag-is-its-own-bit", bool(len(flags) == 1) and (And(eq(flags[0].recv, folder), eq(flags[0].args[0], flag_k)) if len(flags) == 1 else False))]
            if crcs:
                out.append(("crc-only-for-a-defined-digest", And(bool(len(crcs) == 1), eq(crcs[0].recv, folder), truthy(flag_k))))
            else:
                out.append(("defined-digest-gets-its-crc", Not(truthy(flag_k))))
            return out

        return {
            "archiveinfo:UnpackInfo._retrieve_coders_info#loop0": LoopSpec("for-folder", noinv, target="folder in self.folders"),
            "archiveinfo:UnpackInfo._retrieve_coders_info#loop1": LoopSpec("for-c", noinv, target="c in folder.coders"),
            "archiveinfo:UnpackInfo._retrieve_coders_info#loop2": LoopSpec("for-outstream", noinv, asserts=size_asserts),
            "archiveinfo:UnpackInfo._retrieve_coders_info#loop3": LoopSpec("for-idx-folder", noinv, target="(idx, folder) in enumerate(self.folders)", asserts=crc_asserts),
        }

    def ensures(self, c, old, result, **b):
        return [("ends-at-the-end-marker", True)]
