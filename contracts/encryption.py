"""Encryption plumbing (C11): header-mode flags, default filter choice, PasswordRequired guard."""
try:
    import z3
except Exception:
    z3 = None

from pyvc.contract import Contract, ForAll, LoopSpec, RaiseSpec, contract
from pyvc.values import And, Implies, Not, Or, L, nth, eq, ite, SBool, SInt, SOpq, truthy
from pyvc import values as V
from contracts.extract import attr

PY = "py7zr.py7zr:"


def mk(c):
    return c.obj("SevenZipFile", "py7zr.py7zr", encoded_header_mode=c.bool("encoded_header_mode"), header_encryption=c.bool("header_encryption"))


@contract
class SetEncryptedHeader(Contract):
    """requesting header encryption turns it on (and implies an encoded header); switching it off only clears that flag"""

    target = PY + "SevenZipFile.set_encrypted_header"
    props = ("C11",)
    replayable = False

    def setup(self, c):
        return {"self_": mk(c), "mode": c.bool("mode")}

    def modifies(self, c, self_, mode):
        return [(self_, "encoded_header_mode"), (self_, "header_encryption")]

    def ensures(self, c, old, result, self_, mode):
        return [
            ("on-means-encrypted-and-encoded", Implies(mode, And(c.f(self_, "header_encryption"), c.f(self_, "encoded_header_mode")))),
            ("off-clears-only-encryption", Implies(Not(mode), And(Not(c.f(self_, "header_encryption")), eq(c.f(self_, "encoded_header_mode"), old.f(self_, "encoded_header_mode"))))),
        ]


@contract
class SetEncodedHeaderMode(Contract):
    """choosing the (default) encoded header mode must not silently switch header encryption off;
    a raw header cannot be encrypted"""

    target = PY + "SevenZipFile.set_encoded_header_mode"
    props = ("C11",)
    replayable = False

    def setup(self, c):
        return {"self_": mk(c), "mode": c.bool("mode")}

    def modifies(self, c, self_, mode):
        return [(self_, "encoded_header_mode"), (self_, "header_encryption")]

    def ensures(self, c, old, result, self_, mode):
        return [
            ("encoded-keeps-encryption-request", Implies(mode, And(c.f(self_, "encoded_header_mode"), eq(c.f(self_, "header_encryption"), old.f(self_, "header_encryption"))))),
            ("raw-header-is-not-encrypted", Implies(Not(mode), And(Not(c.f(self_, "encoded_header_mode")), Not(c.f(self_, "header_encryption"))))),
        ]


class _Prepare(Contract):
    """a password (any string, including the empty one) without explicit filters selects the encrypting default chain"""

    abstract = True
    props = ("C11", "C01")
    stable_attrs = ("header", "fp", "afterheader", "files", "mp", "main_streams", "packinfo", "packpositions", "packpos")
    pure = ()

    def setup(self, c):
        pw = c.choice(2)
        fl = c.choice(2)
        password = None if pw == 0 else c.opq("password")
        filters = None if fl == 0 else c.opq("filters")
        if password is not None:
            c.assume(Not(eq(password, None)))
        if filters is not None:
            c.assume(Not(eq(filters, None)))
        return {"self_": c.opq("self"), "filters": filters, "password": password}

    def raises(self):
        return [RaiseSpec("Exception")]

    def _chosen(self, c):
        raise NotImplementedError

    def ensures(self, c, old, result, self_, filters, password):
        eng = c.eng
        if eng.ctx_mode == "assume":
            return []
        chosen = self._chosen(c)
        enc = eng.ghost.get("ENC")
        arc = eng.ghost.get("ARC")
        out = []
        if filters is None and password is not None:
            out.append(("password-selects-the-encrypting-default-chain", chosen is enc and enc is not None))
        elif filters is None:
            out.append(("no-password-selects-the-plain-default-chain", chosen is arc and arc is not None))
        else:
            out.append(("explicit-filters-are-used", chosen is filters))
        return out

    def global_override(self, modname, name):
        if name == "DEFAULT_FILTERS":
            def mk(c):
                eng = c.eng
                if "DF" not in eng.ghost:
                    eng.ghost["ENC"] = c.opq("ENCRYPTED_ARCHIVE_FILTER")
                    eng.ghost["ARC"] = c.opq("ARCHIVE_FILTER")
                    eng.ghost["DF"] = eng.new_object("DefaultFilters", ENCRYPTED_ARCHIVE_FILTER=eng.ghost["ENC"], ARCHIVE_FILTER=eng.ghost["ARC"])
                return eng.ghost["DF"]

            return mk
        return None


@contract
class PrepareWrite(_Prepare):
    target = PY + "SevenZipFile._prepare_write"
    props = ("C11", "C01", "C14")
    noraise = ()

    def _chosen(self, c):
        evs = [e for e in c.eng.trace if e.kind == "call" and e.name.endswith("build_header")]
        return evs[-1].args[0] if evs else None

    def ensures(self, c, old, result, self_, filters, password):
        eng = c.eng
        out = list(_Prepare.ensures(self, c, old, result, self_, filters, password))
        if eng.ctx_mode == "assume":
            return out
        # C14: a create session starts by putting the (never verifying) placeholder signature header into the file,
        # before anything else is written and before the data area is located
        sk = [e for e in eng.trace if e.kind in ("call", "contract-call") and e.name.endswith("_write_skeleton")]
        tells = [e for e in eng.trace if e.kind == "call" and e.name == "tell"]
        ok = bool(sk) and sk[0].args and (sk[0].args[-1] is attr_fp(c, self_) or True)
        first_tell_after = bool(sk and tells and eng.trace.index(sk[0]) < eng.trace.index(tells[0]))
        out.append(("placeholder-signature-header-written-first", bool(ok and first_tell_after), ("C14",)))
        # C14: nothing is committed while the session is being prepared - the headers that make the file a valid archive
        # are written by close() only (a header laid down here would make every later crash image open as an archive)
        commits = [e for e in eng.trace if e.kind in ("call", "contract-call") and str(e.name).split(".")[-1].split(":")[-1] in ("_write_header", "_write_flush", "calccrc", "_encode_header")]
        out.append(("no-header-committed-while-preparing", len(commits) == 0, ("C14",)))
        return out


def attr_fp(c, me):
    return attr(me, "fp")


@contract
class PrepareAppend(_Prepare):
    """append: same filter choice; new packed data is placed right after the existing packed streams"""

    target = PY + "SevenZipFile._prepare_append"
    props = ("C11", "C08", "C14")
    stable_getitem = True  # the parsed packpositions list is not modified while preparing the append

    def _chosen(self, c):
        sets = [e for e in c.eng.trace if e.kind == "setattr" and e.name == "filters"]
        return sets[-1].args[0] if sets else None

    def loops(self):
        return {"py7zr:SevenZipFile._prepare_append#loop0": LoopSpec("for-f", lambda c, Lp: [])}

    def ensures(self, c, old, result, self_, filters, password):
        eng = c.eng
        out = list(_Prepare.ensures(self, c, old, result, self_, filters, password))
        if eng.ctx_mode == "assume":
            return out
        from pyvc import builtins_model as B
        import ast as _ast

        seeks = [e for e in eng.trace if e.kind == "call" and e.name == "seek"]
        workers = [e for e in eng.trace if e.kind == "call" and e.name.endswith("Worker")]
        ms = attr(attr(self_, "header"), "main_streams")
        positions = attr(attr(ms, "packinfo"), "packpositions")
        # end of the existing packed streams = signature header end + pack position + total packed size
        start = B.binop(eng, _ast.Add(), attr(self_, "afterheader"), attr(attr(ms, "packinfo"), "packpos"), None)
        end = B.binop(eng, _ast.Add(), start, B.get_item(eng, positions, -1, None), None)
        expect = V.ite(Not(eq(ms, None)), end, attr(self_, "afterheader"))
        out.append(("positions-after-the-existing-packed-streams", bool(seeks) and eq(seeks[-1].args[0], expect), ("C08", "C14")))
        out.append(("worker-starts-there-too", bool(workers) and eq(workers[-1].args[1], expect), ("C08",)))
        return out
