"""C10 - the archive summary's method names (py7zr/compressor.py: get_methods_names, SupportedMethods).

get_methods_names() collects the display names of the coders found in the folders and returns them filtered through a
display-order list.  A coder whose name is missing from that list silently disappears from the summary (FX20: 'DELTA'
was spelled 'delta', Brotli had no entry).  The tables are finite literals of the source, so the lemma is decided by
reading them from /repo's current source on every run (no solver reasoning involved, stated in the evidence);
the loop structure of the function itself is not within the engine's reach (list of lists of dicts) and is covered by
the BOUNDED enumeration bounded/method_names.py, labelled bounded."""
import ast
import json
import os
import subprocess

from pyvc.contract import Lemma, lemma, REGISTRY

HERE = os.path.dirname(os.path.dirname(os.path.abspath(__file__)))


class AnchorLost(Exception):
    pass


def _tables():
    repo = os.environ.get("VERIF_REPO", "/repo")
    tree = ast.parse(open(os.path.join(repo, "py7zr", "compressor.py")).read())
    fn = next((n for n in tree.body if isinstance(n, ast.FunctionDef) and n.name == "get_methods_names"), None)
    cls = next((n for n in tree.body if isinstance(n, ast.ClassDef) and n.name == "SupportedMethods"), None)
    if fn is None or cls is None:
        raise AnchorLost("anchor lost: get_methods_names / SupportedMethods not found")
    namelist = unsupported = None
    for st in ast.walk(fn):
        if isinstance(st, ast.Assign) and len(st.targets) == 1 and isinstance(st.targets[0], ast.Name):
            if st.targets[0].id == "methods_namelist" and isinstance(st.value, ast.List):
                namelist = [e.value for e in st.value.elts if isinstance(e, ast.Constant)]
                if len(namelist) != len(st.value.elts):
                    raise AnchorLost("anchor lost: methods_namelist is not a list of literals")
            if st.targets[0].id == "unsupported_methods" and isinstance(st.value, ast.Dict):
                unsupported = [v.value for v in st.value.values if isinstance(v, ast.Constant)]
                if len(unsupported) != len(st.value.values):
                    raise AnchorLost("anchor lost: unsupported_methods values are not literals")
    names = None
    for st in cls.body:
        tgt = st.targets[0] if isinstance(st, ast.Assign) and len(st.targets) == 1 else (st.target if isinstance(st, ast.AnnAssign) else None)
        if isinstance(tgt, ast.Name) and tgt.id == "methods" and isinstance(st.value, ast.List):
            names = []
            for d in st.value.elts:
                if not isinstance(d, ast.Dict):
                    raise AnchorLost("anchor lost: SupportedMethods.methods is not a list of dict literals")
                got = [v.value for k, v in zip(d.keys, d.values) if isinstance(k, ast.Constant) and k.value == "name" and isinstance(v, ast.Constant)]
                if len(got) != 1:
                    raise AnchorLost("anchor lost: a method entry without a literal name")
                names.append(got[0])
    if namelist is None or unsupported is None or not names:
        raise AnchorLost("anchor lost: name tables not found in their literal form")
    return namelist, unsupported, names


@lemma
class MethodNameTable(Lemma):
    name = "C10/method-names"
    props = ("C10",)
    assumptions = ("decided by evaluating the literal tables of py7zr/compressor.py (finite): no solver reasoning; the filter `x in methods_names` over the display list is taken from the source text",)

    def statements(self):
        def listed(c):
            namelist, unsupported, names = _tables()
            return all(n in namelist for n in names + unsupported)

        def nodup(c):
            namelist, unsupported, names = _tables()
            return len(set(namelist)) == len(namelist)

        return [("every-method-name-has-a-place-in-the-display-order", listed), ("display-order-lists-each-name-once", nodup)]


class MethodNamesEnumeration:
    """BOUNDED: get_methods_names on every coder arrangement of the stated shape (bounded/method_names.py)"""

    name = "method-names-enumeration"
    props = ("C10",)

    def run(self, tier, seed):
        repo = os.environ.get("VERIF_REPO", "/repo")
        env = dict(os.environ)
        if os.path.realpath(repo) != "/repo":
            env["PYTHONPATH"] = repo
        bound = "every arrangement of one or two coders (same folder / two folders, both orders) over all supported and the two named unsupported method ids, plus %d seeded arrangements of up to 4 folders x 3 coders: the summary names exactly the methods present, each once" % (500 if tier == "quick" else 20000)
        ev = {"name": self.name, "level": "bounded", "bound": bound}
        try:
            p = subprocess.run(["/venv/bin/python", os.path.join(HERE, "bounded", "method_names.py"), tier, str(seed)], capture_output=True, text=True, timeout=600, env=env, cwd=HERE)
            r = json.loads(p.stdout.strip().split("\n")[-1])
        except Exception as e:
            return {"name": self.name, "error": "runner failed: %s" % str(e)[:200], "evidence": ev, "violations": []}
        viol = []
        for i, f in enumerate(r.get("failures", [])[:3]):
            viol.append({"name": "bounded/%s/%d" % (self.name, i), "property": "C10", "obligation": "C10/bounded#" + self.name, "status": "confirmed", "concrete_input": f, "real_run": {"interpreter": "/venv/bin/python", "failure": f["failure"]}, "rerun": "/venv/bin/python bounded/method_names.py replay <this file>"})
        ev.update({"runs": r.get("runs"), "seconds": r.get("seconds"), "failures": len(r.get("failures", []))})
        return {"name": self.name, "evidence": ev, "violations": viol}


REGISTRY.scenarios.append(MethodNamesEnumeration())
