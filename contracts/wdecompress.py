"""Worker.decompress (py7zr/py7zr.py): termination (C05), request bound (C20), event accounting (C18),
folder-CRC guard (C04), size accounting (C01/C09).  Abstract mode with exact integer arithmetic."""
try:
    import z3
except Exception:  # concrete-only interpreter
    z3 = None

from pyvc.contract import Contract, ForAll, LoopSpec, RaiseSpec, contract
from pyvc.values import And, Implies, Not, Or, L, ite, eq, SBool, SInt, SOpq, truthy
from pyvc import values as V
from contracts.extract import to_int, attr

PY = "py7zr.py7zr:"


def consumed_of(eng, dec):
    return SInt(V.uf("to_int", V.vsort(), z3.IntSort())(V.uf("attr_consumed", V.vsort(), z3.IntSort(), V.vsort())(dec.t, z3.IntVal(eng.ghost.get("heapver", 0)))))


def input_size_of(dec):
    return to_int(attr(dec, "input_size"))


def len0(x):
    return SInt(V.uf("len", V.vsort(), z3.IntSort(), z3.IntSort())(x.t, z3.IntVal(0)))


@contract
class WorkerDecompress(Contract):
    target = PY + "Worker.decompress"
    props = ("C05", "C20", "C18", "C04", "C01", "C09")
    abstract = True
    pure = ("calculate_crc32", "str", "check_crc", "get_unpack_size")
    opaque = ("helpers:calculate_crc32",)  # used here as a pure function of (chunk, running crc); its own contract is in sigheader.py
    int_functions = ("get_memory_limit",)
    immutable_results = ("decompress",)
    # callees that cannot modify the folder decoder (queue, clock, output file, position query)
    frame_preserving = ("put", "time", "write", "tell")
    stable_attrs = ("input_size", "crc", "digest")
    assert_mode = "raise"
    assumptions = (
        "SevenZipDecompressor.decompress(fp, n): returns a bytes object of length <= n for n >= 0, never decreases `consumed`, keeps consumed <= input_size (its own contract, compressor.py)",
        "get_memory_limit() >= 1 (depends on the machine's available memory; <= 128e6 by its definition)",
        "time.time() is an arbitrary value (no wall-clock semantics)",
        "q.put, time.time, fq.write and fp.tell do not modify the folder decoder object (frame assumption)",
    )

    def setup(self, c):
        qcase = c.choice(2)
        q = None if qcase == 0 else c.opq("q")
        if q is not None:
            c.assume(Not(eq(q, None)))
        folder = c.opq("folder")
        c.assume(Not(eq(folder, None)))
        size = c.int("size")
        g = c.eng.ghost
        g["written"] = 0
        g["reported"] = 0
        return {"self_": c.opq("self"), "fp": c.opq("fp"), "folder": folder, "fq": c.opq("fq"), "size": size, "compressed_size": c.opq("compressed_size"), "src_end": c.opq("src_end"), "q": q}

    def requires(self, c, **b):
        return [("size-nonneg", b["size"] >= 0)]

    def raises(self):
        return [RaiseSpec("Exception")]

    def hooks(self):
        def on_limit(c, ev):
            c.assume(And(ev.result >= 1, ev.result <= 128000000))

        def on_decompress(c, ev):
            eng = c.eng
            env = eng.frames[0].env
            dec = ev.recv
            n = ev.args[1]
            eng.ghost["dec"] = dec
            # C20: a chunk never exceeds what is still missing nor the memory limit
            c.oblig("assert", "request-bounded@decompress", And(n <= env["out_remaining"], n <= env["max_block_size"], n >= 1), props=("C20",))
            # assumed contract of the folder decoder (see `assumptions`)
            r = ev.result
            c.assume(And(len0(r) >= 0, len0(r) <= n))
            ver = eng.ghost.get("heapver", 0)
            af = V.uf("attr_consumed", V.vsort(), z3.IntSort(), V.vsort())
            ti = V.uf("to_int", V.vsort(), z3.IntSort())
            bi = V.uf("box_int", z3.IntSort(), V.vsort())
            for v in (ver, ver + 1):
                val = af(dec.t, z3.IntVal(v))
                c.assume(SBool(val == bi(ti(val))))  # `consumed` holds an int
                c.assume(And(SInt(ti(val)) >= 0, SInt(ti(val)) <= input_size_of(dec)))
            c.assume(SInt(ti(af(dec.t, z3.IntVal(ver + 1)))) >= SInt(ti(af(dec.t, z3.IntVal(ver)))))
            eng.ghost["last_tmp"] = r

        def on_write(c, ev):
            eng = c.eng
            tmp = eng.ghost.get("last_tmp")
            ok = tmp is not None and ev.args and ev.args[0] is tmp
            c.oblig("assert", "writes-exactly-the-decoded-chunk@write", bool(ok), props=("C01", "C04"))
            if ok:
                eng.ghost["written"] = eng.ghost["written"] + len0(tmp)
                eng.ghost["wrote_this_iter"] = True

        def on_put(c, ev):
            eng = c.eng
            env = eng.frames[0].env
            a = ev.args[0]
            ok = isinstance(a, tuple) and len(a) == 3 and a[0] == "u"
            c.oblig("assert", "update-event-shape@put", bool(ok), props=("C18",))
            if ok:
                db = env["decompressed_bytes"]
                c.oblig("assert", "update-carries-byte-count@put", eq(a[2], SOpq(V.uf("str", V.vsort(), V.vsort())(V.box(db).t))), props=("C18",))
                eng.ghost["reported"] = eng.ghost["reported"] + db
                eng.ghost["put_pending"] = True

        return {("call", "get_memory_limit"): [on_limit], ("call", "decompress"): [on_decompress], ("call", "write"): [on_write], ("call", "put"): [on_put]}

    def loops(self):
        def inv(c, Lp):
            eng = c.eng
            b = c.bound
            size = b["size"]
            rem = Lp.local("out_remaining")
            out = [
                ("accounting", eng.ghost["written"] == size - rem),
                ("remaining-nonneg", rem >= 0),
                ("written-nonneg", eng.ghost["written"] >= 0),
                ("stall-counter", And(Lp.local("stalled") >= 0, Lp.local("stalled") <= 2)),
            ]
            if b["q"] is not None:
                out.append(("reported-plus-pending", eng.ghost["reported"] + Lp.local("decompressed_bytes") == size - rem))
                out.append(("nothing-pending-when-done", Implies(rem <= 0, Lp.local("decompressed_bytes") == 0)))
            return out

        def step(c, Lp):
            eng = c.eng
            eng.ghost["wrote_this_iter"] = False
            return []

        def variant(c, Lp):
            eng = c.eng
            dec = Lp.local("decompressor")
            # (bytes still to deliver, packed bytes still to read, stalls still allowed) decreases lexicographically
            return (Lp.local("out_remaining"), input_size_of(dec) - consumed_of(eng, dec), 3 - Lp.local("stalled"))

        def asserts(c, Lp):
            eng = c.eng
            tmp = eng.ghost.get("last_tmp")
            out = []
            if tmp is not None:
                # every non-empty chunk has been written to the output (exactly once)
                out.append(("non-empty-chunk-written", Implies(len0(tmp) > 0, bool(eng.ghost.get("wrote_this_iter")))))
            return out

        return {"py7zr:Worker.decompress#loop0": LoopSpec("while-out_remaining", inv, variant=variant, unfold_step=step, target="out_remaining > 0", ghosts=["written", "reported"], asserts=asserts)}

    def stmt_hooks_(self):
        return []

    def ensures(self, c, old, result, **b):
        eng = c.eng
        tr = eng.trace
        out = [("delivers-declared-size", eng.ghost["written"] == ite(b["size"] > 0, b["size"], 0), ("C01", "C09", "C04"))]
        if b["q"] is not None:
            out.append(("updates-sum-to-size", eng.ghost["reported"] == ite(b["size"] > 0, b["size"], 0), ("C18",)))
        # C04: the folder-level CRC is consulted at the end of the folder before returning normally
        tells = [e for e in tr if e.kind == "call" and e.name == "tell"]
        checks = [e for e in tr if e.kind == "pure" and e.name == "check_crc"]
        dec = eng.ghost.get("dec") or eng.frames[0].env.get("decompressor") if eng.frames else eng.ghost.get("dec")
        guard = False
        if tells:
            cmpf = V.uf("cmp_GtE", V.vsort(), V.vsort(), z3.BoolSort())
            at_end = SBool(cmpf(V.box(tells[-1].result).t, V.box(b["src_end"]).t))
            guard = Not(at_end)
            decs = [e.result for e in tr if e.kind == "call" and e.name == "get_decompressor"]
            if decs:
                guard = Or(guard, eq(attr(decs[-1], "crc"), None))
            if checks:
                guard = Or(guard, truthy(checks[-1].result))
            # the folder CRC covers the folder's WHOLE output (FX23): it is compared once the decoder has handed out
            # all of it - for a folder of several members that is at the end of the last one
            sizes = [e for e in tr if e.kind == "pure" and e.name == "get_unpack_size"]
            if decs and sizes:
                produced = SOpq(V.uf("attr_produced", V.vsort(), z3.IntSort(), V.vsort())(decs[-1].t, z3.IntVal(eng.ghost.get("heapver", 0))))
                complete = SBool(cmpf(V.box(produced).t, V.box(sizes[-1].result).t))
                guard = Or(guard, Not(complete))
        out.append(("folder-crc-checked-at-end-of-folder", guard, ("C04",)))
        return out
