"""SevenZipCompressor.compress / flush (py7zr/compressor.py) - C01, C07, C11, C20.
The coder chain is a list of 1..4 opaque coder objects (4 is the code's own maximum); their compress()/flush()
return byte strings (assumed stream transducers, DESIGN.md 6.4)."""
try:
    import z3
except Exception:
    z3 = None

from pyvc.contract import Contract, ForAll, LoopSpec, RaiseSpec, contract
from pyvc.values import And, Implies, Not, Or, L, nth, eq, ite, slice_, cat, SBool, SInt, SOpq, max_, min_
from pyvc import values as V
from spec import crc as CRC

CP = "py7zr.compressor:"


def mk_comp(c, k):
    chain = c.list_of([c.opq("coder%d" % i) for i in range(k)])
    ups = c.list_of([c.int("unpacked%d" % i) for i in range(k)])
    return c.obj("SevenZipCompressor", "py7zr.compressor", chain=chain, _unpacksizes=ups, packsize=c.int("packsize"), digest=c.int("digest"), _block_size=c.int("_block_size"))


class _Comp(Contract):
    abstract = True
    replayable = False
    bytes_functions = ("compress", "flush")
    frame_preserving = ("compress", "flush")
    noraise = ()
    assumptions = ("coder objects' compress()/flush() return bytes and do not touch the SevenZipCompressor object, the source or the target file (frame assumption)", "zlib.crc32 streaming homomorphism")

    def raises(self):
        return [RaiseSpec("Exception")]


@contract
class Compress(_Comp):
    """reads the source in blocks of exactly _block_size to its end, feeds every block through the whole chain in order,
    writes ONLY the last coder's output; sizes and CRCs account for exactly those bytes"""

    target = CP + "SevenZipCompressor.compress"
    props = ("C01", "C07", "C11", "C20")

    def setup(self, c):
        k = c.choice(4) + 1
        crc0 = c.int("crc")
        return {"self_": mk_comp(c, k), "fd": c.instream("fd"), "fp": c.outstream("fp"), "crc": crc0, "_k": k}

    def call_args(self, b):
        return [b["self_"], b["fd"], b["fp"], b["crc"]], {}

    def requires(self, c, self_, fd, fp, crc, _k):
        return [("block-size-positive", c.f(self_, "_block_size") >= 1), ("crc-32-bits", And(crc >= 0, crc < (1 << 32), c.f(self_, "digest") >= 0, c.f(self_, "digest") < (1 << 32)))]

    def hooks(self):
        def on_read(c, ev):
            eng = c.eng
            c.oblig("assert", "reads-one-block-at-a-time@read", eq(ev.args[0], c.f(c.bound["self_"], "_block_size")), props=("C20",))

        def on_stage(c, ev):
            eng = c.eng
            st = eng.ghost.setdefault("stages", [])
            prev = st[-1].result if st else eng.top_env.get("data") if False else None
            st.append(ev)

        def on_write(c, ev):
            eng = c.eng
            st = eng.ghost.get("stages", [])
            k = c.bound["_k"]
            ok = len(st) == k and ev.args[0] is st[-1].result
            # C11: only the output of the LAST coder (the AES coder of an encrypting chain) reaches the archive file
            c.oblig("assert", "writes-only-the-last-coders-output@write", bool(ok), props=("C11", "C01"))
            chain = c.eng.heap[c.raw(c.bound["self_"], "chain").id]["items"]
            good = len(st) == k
            if good:
                for i, e in enumerate(st):
                    good = And(good, eq(e.recv, chain[i]))
                    if i > 0:
                        good = And(good, bool(e.args[0] is st[i - 1].result))
            c.oblig("assert", "block-goes-through-every-coder-in-order@write", good, props=("C01", "C07"))
            eng.ghost["stages"] = []

        return {("read", "read"): [on_read], ("call", "compress"): [on_stage], ("write", "write"): [on_write]}

    def loops(self):
        def inv(c, Lp):
            b = c.bound
            s, fd, fp = b["self_"], b["fd"], b["fp"]
            d = c.old.data(fd)
            p0 = c.old.pos(fd)
            data = Lp.local("data")
            IN = slice_(d, p0, c.pos(fd))
            P = slice_(d, p0, c.pos(fd) - L(data))
            W = c.appended(c.old, fp)
            Wh = c.eng.ghost.get("W_at_head")
            if Wh is not None:
                chunk = V.strip_prefix(W, Wh)
                if chunk is not None:
                    c.assume(CRC.concat_axiom(Wh, chunk, c.old.f(s, "digest")))  # CRC32 homomorphism (assumed), instantiated
            ups = c.view(c.raw(s, "_unpacksizes"))
            ups0 = c.old.deref(c.old.raw(s, "_unpacksizes"))
            return [
                ("block-read", And(L(data) <= c.f(s, "_block_size"), eq(data, slice_(d, c.pos(fd) - L(data), c.pos(fd))), c.pos(fd) - L(data) >= p0, c.pos(fd) <= max_(L(d), p0))),
                ("eof-means-empty-block", Implies(L(data) == 0, c.pos(fd) >= L(d))),
                ("insize", Lp.local("insize") == L(IN)),
                ("source-crc", Lp.local("crc") == CRC.crc(P, b["crc"])),
                ("first-coder-input-size", ups[0] == ups0[0] + L(P)),
                ("out-size", And(Lp.local("foutsize") == L(W), c.f(s, "packsize") == c.old.f(s, "packsize") + L(W))),
                ("out-crc", c.f(s, "digest") == CRC.crc(W, c.old.f(s, "digest"))),
                ("source-unchanged", eq(c.data(fd), d)),
            ]

        def step(c, Lp):
            b = c.bound
            s, fd, fp = b["self_"], b["fd"], b["fp"]
            d = c.old.data(fd)
            p0 = c.old.pos(fd)
            data = Lp.local("data")
            P = slice_(d, p0, c.pos(fd) - L(data))
            W = c.appended(c.old, fp)
            c.eng.ghost["stages"] = []
            c.eng.ghost["W_at_head"] = W
            return [CRC.concat_axiom(P, data, b["crc"]), eq(V.concat(P, data), slice_(d, p0, c.pos(fd)))]

        def variant(c, Lp):
            fd = c.bound["fd"]
            return L(c.old.data(fd)) - c.pos(fd) + L(Lp.local("data"))

        return {"compressor:SevenZipCompressor.compress#loop0": LoopSpec("while-data", inv, variant=variant, unfold_step=step, target="data")}

    def ensures(self, c, old, result, self_, fd, fp, crc, _k):
        d, p0 = old.data(fd), old.pos(fd)
        ALL = slice_(d, p0, None)
        W = c.appended(old, fp)
        return [
            ("reads-the-source-to-its-end", And(result[0] == L(ALL), c.pos(fd) >= L(d))),
            ("source-crc", result[2] == CRC.crc(ALL, crc)),
            ("reports-bytes-written", result[1] == L(W)),
            ("packsize-accounts-for-bytes-written", c.f(self_, "packsize") == old.f(self_, "packsize") + L(W)),
            ("digest-is-crc-of-bytes-written", c.f(self_, "digest") == CRC.crc(W, old.f(self_, "digest"))),
        ]
