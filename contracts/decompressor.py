"""SevenZipDecompressor.decompress / _read_data / _decompress (py7zr/compressor.py) - C01, C20, C05."""
try:
    import z3
except Exception:
    z3 = None

from pyvc.contract import Contract, ForAll, LoopSpec, RaiseSpec, contract
from pyvc.values import And, Implies, Not, Or, L, nth, eq, ite, slice_, cat, SBool, SInt, SOpq, max_, min_
from pyvc import values as V
from spec import crc as CRC

CP = "py7zr.compressor:"


def mk_dec(c):
    unused = c.eng.alloc("bytearray", items=c.eng.fresh_seq("_unused", "byte", "bytearray"))
    buf = c.eng.alloc("bytearray", items=c.eng.fresh_seq("_buf", "byte", "bytearray"))
    return c.obj("SevenZipDecompressor", "py7zr.compressor", input_size=c.int("input_size"), consumed=c.int("consumed"), block_size=c.int("block_size"),
                 _unused=unused, _buf=buf, _pos=c.int("_pos"), digest=c.int("digest"), produced=c.int("produced"), chain=c.opq("chain"), _unpacked=c.opq("_unpacked"), _unpacksizes=c.opq("_unpacksizes"), crc=c.opq("crc"))


def pending(snap, d):
    return slice_(snap.f(d, "_buf"), snap.f(d, "_pos"), None)


def dec_inv(c, d):
    return [("position-inside-buffer", And(c.f(d, "_pos") >= 0, c.f(d, "_pos") <= L(c.f(d, "_buf")))), ("digest-32-bits", And(c.f(d, "digest") >= 0, c.f(d, "digest") < (1 << 32))), ("block-size-positive", c.f(d, "block_size") >= 1), ("consumed-nonneg", c.f(d, "consumed") >= 0)]


@contract
class ReadData(Contract):
    """reads at most one I/O block and never past the folder's packed end (C20: input reads are bounded by the block size)"""

    target = CP + "SevenZipDecompressor._read_data"
    props = ("C20", "C01", "C05")
    replayable = False

    def setup(self, c):
        return {"self_": mk_dec(c), "fp": c.instream("fp")}

    def requires(self, c, self_, fp):
        return dec_inv(c, self_)

    def modifies(self, c, self_, fp):
        return [(self_, "consumed"), (fp, "pos")]

    def fresh_result(self, c, self_, fp):
        return c.bytes("packed_chunk")

    def ensures(self, c, old, result, self_, fp):
        rest = old.f(self_, "input_size") - old.f(self_, "consumed")
        un = L(old.f(self_, "_unused"))
        cap = min_(rest - un, old.f(self_, "block_size") - un)
        return [
            ("at-most-one-block", L(result) <= max_(0, old.f(self_, "block_size") - un)),
            ("never-past-the-packed-end", L(result) <= max_(0, rest - un)),
            ("consumed-accounts-for-what-was-read", c.f(self_, "consumed") == old.f(self_, "consumed") + L(result)),
            ("reads-from-the-current-position", eq(result, slice_(old.data(fp), old.pos(fp), old.pos(fp) + max_(cap, 0)))),
        ]


@contract
class DecompressChain(Contract):
    """every stage of the decoder chain receives the caller's output limit (C20) and the output of the stage before"""

    target = CP + "SevenZipDecompressor._decompress"
    props = ("C20", "C01")
    abstract = True
    stable_attrs = ("chain", "_unpacked", "_unpacksizes")
    immutable_results = ("decompress",)

    def setup(self, c):
        return {"self_": c.opq("self"), "data": c.opq("data"), "max_length": c.int("max_length")}

    def raises(self):
        return [RaiseSpec("EOFError"), RaiseSpec("Exception")]

    def fresh_result(self, c, **b):
        return c.bytes("decoded_chunk")

    def hooks(self):
        def on_stage(c, ev):
            eng = c.eng
            prev = eng.ghost.get("prev_out", c.bound["data"])
            c.oblig("assert", "stage-gets-the-output-limit@decompress", eq(ev.args[1], c.bound["max_length"]), props=("C20",))
            eng.ghost["stage_inputs"] = eng.ghost.get("stage_inputs", 0) + 1

        return {("call", "decompress"): [on_stage]}

    def loops(self):
        return {"compressor:SevenZipDecompressor._decompress#loop0": LoopSpec("for-stage", lambda c, Lp: [])}


@contract
class Decompress(Contract):
    """delivered bytes ++ carried-over buffer == everything decoded so far (nothing lost, duplicated or reordered, for every
    max_length and every decoder output size); at most max_length bytes are returned; the running CRC covers exactly
    the delivered bytes"""

    target = CP + "SevenZipDecompressor.decompress"
    props = ("C01", "C20", "C04")
    replayable = False
    assumptions = ("zlib.crc32 streaming homomorphism",)

    def setup(self, c):
        return {"self_": mk_dec(c), "fp": c.instream("fp"), "max_length": c.int("max_length")}

    def requires(self, c, self_, fp, max_length):
        return dec_inv(c, self_)

    def raises(self):
        return [RaiseSpec("EOFError"), RaiseSpec("Exception")]

    def modifies(self, c, self_, fp, max_length):
        return [(self_, "consumed"), (self_, "_pos"), (self_, "digest"), (self_, "produced"), (self_, "_buf"), (self_, "_unused"), (fp, "pos")]

    def fresh_result(self, c, self_, fp, max_length):
        return c.bytes("delivered")

    def ensures(self, c, old, result, self_, fp, max_length):
        eng = c.eng
        result = c.view(result)  # the real function may return a bytearray; it is used by value
        p0 = pending(old, self_)
        p1 = pending(c, self_)
        out = []
        if eng.ctx_mode != "assume":
            decs = [e for e in eng.trace if e.kind == "contract-call" and e.name.endswith("_decompress")]
            tmp = decs[-1].result if decs else b""
            out.append(("nothing-lost-or-duplicated", eq(cat(result, p1), cat(p0, tmp))))
            out.append(("decodes-at-most-once-per-call", len(decs) <= 1))
        out += [
            ("at-most-max-length", Implies(max_length >= 0, L(result) <= max_length)),
            ("delivers-from-the-buffer-first", Implies(And(max_length >= 0, L(p0) >= max_length), eq(result, slice_(p0, 0, max_length)))),
            ("crc-covers-the-delivered-bytes", c.f(self_, "digest") == CRC.crc(result, old.f(self_, "digest"))),
            # the count Worker.decompress compares with the folder's unpack size before trusting the folder CRC (FX23)
            ("produced-counts-the-delivered-bytes", c.f(self_, "produced") == old.f(self_, "produced") + L(result)),
            ("unused-input-cleared", Implies(Or(max_length < 0, L(p0) < max_length), L(c.f(self_, "_unused")) == 0)),
        ] + [("inv." + l, f) for l, f in dec_inv(c, self_)]
        return out
