"""BOUNDED stand-in for the part of C08 / C01 that no per-function contract expresses: whole create/append histories
on the real code (bounded/histories.py).  Labelled `bounded` in the evidence, never counted among the discharged
obligations; a failing history is reported as a violation with the history as the replayable input."""
import json
import os
import subprocess

from pyvc.contract import REGISTRY

HERE = os.path.dirname(os.path.dirname(os.path.abspath(__file__)))


class AppendHistories:
    name = "append-histories"
    props = ("C08",)

    def run(self, tier, seed):
        repo = os.environ.get("VERIF_REPO", "/repo")
        env = dict(os.environ)
        if os.path.realpath(repo) != "/repo":
            env["PYTHONPATH"] = repo
        bound = "every history w(M0) a(M1), |Mi| <= 2, member kinds file/zero-length file/directory/zero-length writestr" + (" and every 3-session history, both header modes" if tier == "thorough" else ", header mode alternating, plus 100 seeded 3-session histories")
        try:
            p = subprocess.run(["/venv/bin/python", os.path.join(HERE, "bounded", "histories.py"), tier, str(seed)], capture_output=True, text=True, timeout=600 if tier == "quick" else 7200, env=env, cwd=HERE)
            r = json.loads(p.stdout.strip().split("\n")[-1])
        except Exception as e:
            return {"name": self.name, "error": "history runner failed: %s" % str(e)[:200], "evidence": {"name": self.name, "bound": bound, "level": "bounded"}, "violations": []}
        viol = []
        for f in r.get("failures", [])[:3]:
            viol.append({"name": "bounded/append-histories/%s" % "_".join("+".join(s) or "empty" for s in f["history"]), "property": "C08", "obligation": "C08/bounded#append-histories", "status": "confirmed", "concrete_input": f, "real_run": {"interpreter": "/venv/bin/python", "failure": f["failure"]}, "rerun": "/venv/bin/python bounded/histories.py %s %d" % (tier, seed)})
        return {"name": self.name, "evidence": {"name": self.name, "level": "bounded", "bound": bound, "histories": r.get("histories"), "runs": r.get("runs"), "seconds": r.get("seconds"), "failures": len(r.get("failures", []))}, "violations": viol}


REGISTRY.scenarios.append(AppendHistories())
