"""BOUNDED stand-in for the part of C08 / C01 that no per-function contract expresses: whole create/append histories
on the real code (bounded/histories.py).  Labelled `bounded` in the evidence, never counted among the discharged
obligations; a failing history is reported as a violation with the history as the replayable input."""
import json
import os
import subprocess

from pyvc.contract import REGISTRY

HERE = os.path.dirname(os.path.dirname(os.path.abspath(__file__)))


class AppendHistories:
    name = "append-histories"
    props = ("C08",)

    def run(self, tier, seed):
        repo = os.environ.get("VERIF_REPO", "/repo")
        env = dict(os.environ)
        if os.path.realpath(repo) != "/repo":
            env["PYTHONPATH"] = repo
        bound = "every history w(M0) a(M1), |Mi| <= 2, member kinds file/zero-length file/directory/zero-length writestr" + (" and every 3-session history, both header modes" if tier == "thorough" else ", header mode alternating, plus 100 seeded 3-session histories")
        try:
            p = subprocess.run(["/venv/bin/python", os.path.join(HERE, "bounded", "histories.py"), tier, str(seed)], capture_output=True, text=True, timeout=600 if tier == "quick" else 7200, env=env, cwd=HERE)
            r = json.loads(p.stdout.strip().split("\n")[-1])
        except Exception as e:
            return {"name": self.name, "error": "history runner failed: %s" % str(e)[:200], "evidence": {"name": self.name, "bound": bound, "level": "bounded"}, "violations": []}
        viol = []
        for f in r.get("failures", [])[:3]:
            viol.append({"name": "bounded/append-histories/%s" % "_".join("+".join(s) or "empty" for s in f["history"]), "property": "C08", "obligation": "C08/bounded#append-histories", "status": "confirmed", "concrete_input": f, "real_run": {"interpreter": "/venv/bin/python", "failure": f["failure"]}, "rerun": "/venv/bin/python bounded/histories.py %s %d" % (tier, seed)})
        return {"name": self.name, "evidence": {"name": self.name, "level": "bounded", "bound": bound, "histories": r.get("histories"), "runs": r.get("runs"), "seconds": r.get("seconds"), "failures": len(r.get("failures", []))}, "violations": viol}


class SectionRoundTrip:
    """stream sections of the header against an encoder written from the format description (bounded/sections.py)"""

    def __init__(self, prop):
        self.name = "stream-sections-" + ("read" if prop == "C06" else "rewrite")  # C07 and C08 share the rewrite phase
        self.props = (prop,)
        self.prop = prop

    def run(self, tier, seed):
        repo = os.environ.get("VERIF_REPO", "/repo")
        env = dict(os.environ)
        if os.path.realpath(repo) != "/repo":
            env["PYTHONPATH"] = repo
        n = 3000 if tier == "quick" else 60000
        what = "StreamsInfo.read reports the described streams" if self.prop == "C06" else "StreamsInfo.write of what was read reads back to the described streams"
        bound = "%d random MainStreamsInfo descriptions (seeded), <= 4 folders, <= 3 coders and <= 4 streams per folder, optional records present/absent, both Digests spellings: %s" % (n, what)
        ev = {"name": self.name, "level": "bounded", "bound": bound}
        try:
            p = subprocess.run(["/venv/bin/python", os.path.join(HERE, "bounded", "sections.py"), tier, str(seed), self.prop], capture_output=True, text=True, timeout=600 if tier == "quick" else 3600, env=env, cwd=HERE)
            r = json.loads(p.stdout.strip().split("\n")[-1])
        except Exception as e:
            return {"name": self.name, "error": "section runner failed: %s" % str(e)[:200], "evidence": ev, "violations": []}
        viol = []
        for i, f in enumerate(r.get("failures", [])[:3]):
            viol.append({"name": "bounded/%s/%d" % (self.name, i), "property": self.prop, "obligation": "%s/bounded#%s" % (self.prop, self.name), "status": "confirmed", "concrete_input": f, "real_run": {"interpreter": "/venv/bin/python", "failure": f["failure"]}, "rerun": "/venv/bin/python bounded/sections.py replay <this file>"})
        ev.update({"runs": r.get("runs"), "seconds": r.get("seconds"), "failures": len(r.get("failures", []))})
        return {"name": self.name, "evidence": ev, "violations": viol}


class PathGates:
    """lexical path gates against an os.path oracle (bounded/paths.py)"""

    def __init__(self, prop):
        self.name = "path-gates-" + ("extraction" if prop == "C03" else "arcnames")
        self.props = (prop,)
        self.prop = prop

    def run(self, tier, seed):
        repo = os.environ.get("VERIF_REPO", "/repo")
        env = dict(os.environ)
        if os.path.realpath(repo) != "/repo":
            env["PYTHONPATH"] = repo
        bound = "every name of <= 4 components over {a, ab, b, .., ., ''} with prefixes '', '/', './', '//' against 8 output directories (see bounded/paths.py); " + ("get_sanitized_output_path / is_relative_to / is_path_valid stay component-wise inside the output directory" if self.prop == "C03" else "check_archive_path accepts exactly the relative names that never climb above their start")
        ev = {"name": self.name, "level": "bounded", "bound": bound}
        try:
            p = subprocess.run(["/venv/bin/python", os.path.join(HERE, "bounded", "paths.py"), tier, str(seed), self.prop], capture_output=True, text=True, timeout=900, env=env, cwd="/usr/lib")
            r = json.loads(p.stdout.strip().split("\n")[-1])
        except Exception as e:
            return {"name": self.name, "error": "path runner failed: %s" % str(e)[:200], "evidence": ev, "violations": []}
        viol = []
        for i, f in enumerate(r.get("failures", [])[:3]):
            viol.append({"name": "bounded/%s/%d" % (self.name, i), "property": self.prop, "obligation": "%s/bounded#%s" % (self.prop, self.name), "status": "confirmed", "concrete_input": f, "real_run": {"interpreter": "/venv/bin/python", "failure": f["failure"]}, "rerun": "/venv/bin/python bounded/paths.py replay <this file>"})
        ev.update({"runs": r.get("runs"), "seconds": r.get("seconds"), "failures": len(r.get("failures", []))})
        return {"name": self.name, "evidence": ev, "violations": viol}


class ReferenceArchives:
    """whole archives from an independent COPY-coder writer, read by the real code (bounded/archives.py)"""

    WHAT = {
        "C06": "extractall()/extract(targets)/testzip() return exactly the described members",
        "C10": "getnames()/list() report the described names, order, sizes, directory flags and stored CRCs",
        "C04": "one altered byte of a CRC-protected member is never accepted silently",
    }

    def __init__(self, prop):
        self.name = "reference-archives-" + {"C06": "extract", "C10": "listing", "C04": "damage"}[prop]
        self.props = (prop,)
        self.prop = prop

    def run(self, tier, seed):
        repo = os.environ.get("VERIF_REPO", "/repo")
        env = dict(os.environ)
        if os.path.realpath(repo) != "/repo":
            env["PYTHONPATH"] = repo
        n = 400 if tier == "quick" else 8000
        bound = "%d seeded archives from an independent writer (COPY coder; <= 4 folders of 0..4 members, directories / empty files interleaved, CRCs per substream / per folder / absent, optional records present or absent, gap before the packed streams): %s" % (n, self.WHAT[self.prop])
        ev = {"name": self.name, "level": "bounded", "bound": bound}
        try:
            p = subprocess.run(["/venv/bin/python", os.path.join(HERE, "bounded", "archives.py"), tier, str(seed), self.prop], capture_output=True, text=True, timeout=900 if tier == "quick" else 3600, env=env, cwd=HERE)
            r = json.loads(p.stdout.strip().split("\n")[-1])
        except Exception as e:
            return {"name": self.name, "error": "archive runner failed: %s" % str(e)[:200], "evidence": ev, "violations": []}
        viol = []
        for i, f in enumerate(r.get("failures", [])[:3]):
            viol.append({"name": "bounded/%s/%d" % (self.name, i), "property": self.prop, "obligation": "%s/bounded#%s" % (self.prop, self.name), "status": "confirmed", "concrete_input": f, "real_run": {"interpreter": "/venv/bin/python", "failure": f["failure"]}, "rerun": "/venv/bin/python bounded/archives.py replay <this file>"})
        ev.update({"runs": r.get("runs"), "seconds": r.get("seconds"), "failures": len(r.get("failures", []))})
        return {"name": self.name, "evidence": ev, "violations": viol}


class ProgressAccount:
    """the callback account of an extraction under a controlled clock (bounded/progress.py)"""

    name = "progress-account-controlled-clock"
    props = ("C18",)

    def run(self, tier, seed):
        repo = os.environ.get("VERIF_REPO", "/repo")
        env = dict(os.environ)
        if os.path.realpath(repo) != "/repo":
            env["PYTHONPATH"] = repo
        bound = "16 fixed + %d seeded archives of 1..4 members (sizes 0 .. 3.2 MiB, COPY and LZMA2, one or two folders) extracted to disk with a callback while time.time/monotonic/perf_counter advance by 0 / 0.4 / 0.7 / 1.5 s per call: preparation first, post-processing last, one start and one end per member with its size, updates sum to the bytes decoded" % (12 if tier == "quick" else 200)
        ev = {"name": self.name, "level": "bounded", "bound": bound}
        try:
            p = subprocess.run(["/venv/bin/python", os.path.join(HERE, "bounded", "progress.py"), tier, str(seed)], capture_output=True, text=True, timeout=900 if tier == "quick" else 3600, env=env, cwd=HERE)
            r = json.loads(p.stdout.strip().split("\n")[-1])
        except Exception as e:
            return {"name": self.name, "error": "progress runner failed: %s" % str(e)[:200], "evidence": ev, "violations": []}
        viol = []
        for i, f in enumerate(r.get("failures", [])[:3]):
            viol.append({"name": "bounded/%s/%d" % (self.name, i), "property": "C18", "obligation": "C18/bounded#" + self.name, "status": "confirmed", "concrete_input": f, "real_run": {"interpreter": "/venv/bin/python", "failure": f["failure"]}, "rerun": "/venv/bin/python bounded/progress.py replay <this file>"})
        ev.update({"runs": r.get("runs"), "seconds": r.get("seconds"), "failures": len(r.get("failures", []))})
        return {"name": self.name, "evidence": ev, "violations": viol}


class HostileHeaders:
    """fixed corpus of structurally hostile headers under an address-space limit and a watchdog (bounded/hostile.py)"""

    name = "hostile-headers"
    props = ("C05",)

    def run(self, tier, seed):
        repo = os.environ.get("VERIF_REPO", "/repo")
        env = dict(os.environ)
        if os.path.realpath(repo) != "/repo":
            env["PYTHONPATH"] = repo
        bound = "16 crafted archives of 45..120 bytes (counts of 2**36 / 2**40 members, substreams, folders, pack streams, coders, coder streams; 2**40-byte property records; members / encoded headers declaring 2**40 output bytes over 3 bytes of input; self-referential and mutually referential encoded headers): open, list, testzip, extract to memory in a child process under RLIMIT_AS = 1.5 GiB and a 30 s watchdog"
        ev = {"name": self.name, "level": "bounded", "bound": bound}
        try:
            p = subprocess.run(["/venv/bin/python", os.path.join(HERE, "bounded", "hostile.py"), tier, str(seed)], capture_output=True, text=True, timeout=1200, env=env, cwd=HERE)
            r = json.loads(p.stdout.strip().split("\n")[-1])
        except Exception as e:
            return {"name": self.name, "error": "hostile-header runner failed: %s" % str(e)[:200], "evidence": ev, "violations": []}
        viol = []
        for i, f in enumerate(r.get("failures", [])[:3]):
            viol.append({"name": "bounded/%s/%s" % (self.name, f["case"]), "property": "C05", "obligation": "C05/bounded#" + self.name, "status": "confirmed", "concrete_input": f, "real_run": {"interpreter": "/venv/bin/python", "failure": f["failure"]}, "rerun": "/venv/bin/python bounded/hostile.py replay <this file>"})
        ev.update({"runs": r.get("runs"), "seconds": r.get("seconds"), "failures": len(r.get("failures", []))})
        return {"name": self.name, "evidence": ev, "violations": viol}


class ScheduleIndependence:
    """thread-parallel extraction with the first thread held back at a perturbed operation (bounded/schedules.py)"""

    name = "schedule-perturbation"
    props = ("C13",)

    def run(self, tier, seed):
        repo = os.environ.get("VERIF_REPO", "/repo")
        env = dict(os.environ)
        if os.path.realpath(repo) != "/repo":
            env["PYTHONPATH"] = repo
        bound = "archives of 2..4 folders opened by name (thread-parallel path), members in directories that are not members themselves; the first thread reaching Path.mkdir (before / after the call), Path.open or os.utime is held back 0.3 s; %d layouts per perturbation; tree on disk == sequential result, no error for an intact archive; 4 damaged archives must raise" % (3 if tier == "quick" else 20)
        ev = {"name": self.name, "level": "bounded", "bound": bound}
        try:
            p = subprocess.run(["/venv/bin/python", os.path.join(HERE, "bounded", "schedules.py"), tier, str(seed)], capture_output=True, text=True, timeout=1200 if tier == "quick" else 3600, env=env, cwd=HERE)
            r = json.loads(p.stdout.strip().split("\n")[-1])
        except Exception as e:
            return {"name": self.name, "error": "schedule runner failed: %s" % str(e)[:200], "evidence": ev, "violations": []}
        viol = []
        for i, f in enumerate(r.get("failures", [])[:3]):
            viol.append({"name": "bounded/%s/%d" % (self.name, i), "property": "C13", "obligation": "C13/bounded#" + self.name, "status": "confirmed", "concrete_input": f, "real_run": {"interpreter": "/venv/bin/python", "failure": f["failure"]}, "rerun": "/venv/bin/python bounded/schedules.py replay <this file>"})
        ev.update({"runs": r.get("runs"), "seconds": r.get("seconds"), "failures": len(r.get("failures", []))})
        return {"name": self.name, "evidence": ev, "violations": viol}


class MemoryGrowth:
    """peak allocation while one large member is archived / extracted must not grow with the member (bounded/memory.py)"""

    name = "memory-growth"
    props = ("C20",)

    def run(self, tier, seed):
        repo = os.environ.get("VERIF_REPO", "/repo")
        env = dict(os.environ)
        if os.path.realpath(repo) != "/repo":
            env["PYTHONPATH"] = repo
        bound = "one member of 320 MiB and of 640 MiB%s archived from disk and extracted to disk and to a null writer under tracemalloc, chains %s, data compressing to one half and to almost nothing: peak(640) - peak(320) <= 80 MiB and every peak <= 700 MiB; Python-level allocations only (C-level encoder state is not traced)" % (" (and 1280 MiB for the two small-archive cases)" if tier == "thorough" else "", "COPY, LZMA2, BZip2, ZStandard, Deflate" if tier == "thorough" else "LZMA2, ZStandard, Deflate")
        ev = {"name": self.name, "level": "bounded", "bound": bound}
        try:
            p = subprocess.run(["/venv/bin/python", os.path.join(HERE, "bounded", "memory.py"), tier, str(seed)], capture_output=True, text=True, timeout=1800 if tier == "quick" else 7200, env=env, cwd=HERE)
            r = json.loads(p.stdout.strip().split("\n")[-1])
        except Exception as e:
            return {"name": self.name, "error": "memory runner failed: %s" % str(e)[:200], "evidence": ev, "violations": []}
        viol = []
        for i, f in enumerate(r.get("failures", [])[:3]):
            viol.append({"name": "bounded/%s/%d" % (self.name, i), "property": "C20", "obligation": "C20/bounded#" + self.name, "status": "confirmed", "concrete_input": f, "real_run": {"interpreter": "/venv/bin/python", "failure": f["failure"]}, "rerun": "/venv/bin/python bounded/memory.py replay <this file>"})
        ev.update({"runs": r.get("runs"), "seconds": r.get("seconds"), "failures": len(r.get("failures", [])), "peaks_mib": r.get("table")})
        return {"name": self.name, "evidence": ev, "violations": viol}


REGISTRY.scenarios.append(AppendHistories())
REGISTRY.scenarios.append(MemoryGrowth())
REGISTRY.scenarios.append(ScheduleIndependence())
REGISTRY.scenarios.append(HostileHeaders())
REGISTRY.scenarios.append(ProgressAccount())
REGISTRY.scenarios.append(ReferenceArchives("C06"))
REGISTRY.scenarios.append(ReferenceArchives("C10"))
REGISTRY.scenarios.append(ReferenceArchives("C04"))
REGISTRY.scenarios.append(PathGates("C03"))
REGISTRY.scenarios.append(PathGates("C16"))
REGISTRY.scenarios.append(SectionRoundTrip("C06"))
REGISTRY.scenarios.append(SectionRoundTrip("C08"))
REGISTRY.scenarios.append(SectionRoundTrip("C07"))
