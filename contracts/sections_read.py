"""Section readers of py7zr/archiveinfo.py: PackInfo._read, SubstreamsInfo._read (C06, C05, C08).

Postconditions say that a NORMAL return leaves in the object exactly what a decoder that follows the 7z format
(docs/archive_format.rst, `Digests` structure of 7zFormat.txt) finds in the input bytes, and that the stream is
positioned after the section's END marker.  Malformed or truncated input may raise the ordinary exceptions listed
under `raises` (C05: it must not loop); a truncated NUMBER always leads to such an exception before a normal return,
which is what the `complete` clauses of the loop invariants carry.
"""
try:
    import z3
except Exception:  # concrete-only interpreter
    z3 = None

from pyvc.contract import Contract, ForAll, LoopSpec, RaiseSpec, contract
from pyvc.values import And, Implies, Not, Or, L, ite, nth, slice_, ceil8, eq, all_true_of, any_true_of
from pyvc import values as V
from spec import primitives as SP
from contracts.sections import conc, psum, rank, rank_unfold, snoc, parse_numbers, pick

AI = "py7zr.archiveinfo:"
U64 = 1 << 64


def empty_list(c, elem):
    if conc(c):
        return []
    return c.eng.new_list(V.to_seq([], elem, "list"))


def sum_of(c, xs):
    """sum of a list of ints (python's built-in sum; the engine's uninterpreted `sum_int` symbolically)"""
    if conc(c):
        return sum(xs)
    return V.SInt(V.uf("sum_int", V.seq_sort("int"), z3.IntSort())(V.to_seq(xs, "int", "list").t))


def read_numbers_inv(c, file, d, start, cuts, res, i):
    """invariant of  [read_uint64(file) for _ in range(n)]  after i iterations: either every NUMBER so far was complete
    (then res[k] is the NUMBER at cuts[k] and the stream stands at cuts[i]) or the input is exhausted"""
    pos = c.pos(file)
    complete = pos < L(d)
    return [
        ("lengths", And(L(res) == i, L(cuts) == i + 1, nth(cuts, 0) == start)),
        ("position", And(pos <= L(d), pos >= start + i, Or(pos == L(d), pos == nth(cuts, i)))),
        ("numbers-so-far", ForAll(lambda k: And(nth(cuts, k + 1) == nth(cuts, k) + SP.NL(d, nth(cuts, k)), nth(res, k) == SP.NV(d, nth(cuts, k)), nth(cuts, k + 1) <= L(d), nth(cuts, k) >= start, nth(res, k) >= 0, nth(res, k) < U64), guard=lambda k: And(complete, k >= 0, k < i), over=cuts, trigger=False)),
        ("frame-data", eq(c.data(file), d)),
    ]


@contract
class PackInfoRead(Contract):
    """PackInfo (after its id byte): NUMBER packpos, NUMBER numstreams, optional Size record (0x09 + numstreams
    NUMBERs), optional CRC record (0x0A + Digests), END.  On a normal return the fields hold exactly these values,
    packpositions are the prefix sums of the pack sizes and the stream stands after the END byte."""

    target = AI + "PackInfo._read"
    props = ("C06", "C08", "C05")
    opaque_numbers = True
    fork_spec_booleans = True  # the postcondition is verified separately for each combination of optional records

    def setup(self, c):
        file = c.instream("file")
        # the object is always a fresh PackInfo() (classmethod retrieve): fields as __init__ leaves them
        self_ = c.obj("PackInfo", "py7zr.archiveinfo", packpos=0, numstreams=0, packsizes=empty_list(c, "int"), digestdefined=empty_list(c, "bool"), crcs=empty_list(c, "int"), enable_digests=True)
        return {"self_": self_, "file": file}

    def raises(self):
        return [RaiseSpec("TypeError"), RaiseSpec("struct.error"), RaiseSpec("Bad7zFile")]

    def modifies(self, c, self_, file):
        return [(file, "pos"), (self_, "packpos"), (self_, "numstreams"), (self_, "packsizes"), (self_, "digestdefined"), (self_, "crcs"), (self_, "enable_digests"), (self_, "packpositions")]

    def fresh_result(self, c, self_, file):
        return self_

    def _concrete(self, c, old, self_, file):
        d, p = old.data(file), old.pos(file)
        try:
            p2 = p + SP.number_len(d, p)
            p3 = p2 + SP.number_len(d, p2)
            if d[p3] != 0x09:
                return [p3 + 1]
            return parse_numbers(d, p3 + 1, SP.number_value(d, p2))
        except IndexError:
            return None

    def ensures(self, c, old, result, self_, file):
        d, p = old.data(file), old.pos(file)
        ps, dd, crcs = c.f(self_, "packsizes"), c.f(self_, "digestdefined"), c.f(self_, "crcs")
        n = c.f(self_, "numstreams")
        pp = c.f(self_, "packpositions")
        p2 = p + SP.NL(d, p)
        p3 = p2 + SP.NL(d, p2)
        if not conc(c) and c.eng.ctx_mode == "prove":
            # proof hints (proved before use): a normal return means neither leading NUMBER was cut short
            c.lemma("pack-position-complete", And(p < L(d), p2 <= L(d)))
            c.lemma("stream-count-complete", And(p2 < L(d), p3 < L(d)))
        has_sizes = nth(d, p3) == 0x09
        cuts = c.ghost_seq("cutsR", concrete=lambda: self._concrete(c, old, self_, file), default=[p3 + 1])
        endS = pick(c, has_sizes, nth(cuts, n), p3)
        has_crc = And(has_sizes, nth(d, endS) == 0x0A)
        q = endS + 1
        shortcut = nth(d, q) != 0
        cstart = pick(c, shortcut, q + 1, q + 1 + ceil8(n))
        endC = pick(c, has_crc, cstart + 4 * rank(c, "pkr", dd, n), endS)
        out = [
            ("pack-position", c.f(self_, "packpos") == SP.NV(d, p)),
            ("stream-count", n == SP.NV(d, p2)),
            ("sizes-absent", Implies(Not(has_sizes), And(L(ps) == 0, n == 0))),
            ("work-bounded-by-input", And(n >= 0, n <= c.pos(file) - p)),  # C05: every count-driven loop ran at most once per consumed byte
            ("sizes-count", Implies(has_sizes, And(L(ps) == n, L(cuts) == n + 1, nth(cuts, 0) == p3 + 1))),
            ("sizes", ForAll(lambda k: And(nth(cuts, k + 1) == nth(cuts, k) + SP.NL(d, nth(cuts, k)), nth(ps, k) == SP.NV(d, nth(cuts, k))), guard=lambda k: And(has_sizes, k >= 0, k < n), over=cuts, trigger=False)),
            ("digests-absent", Implies(Not(has_crc), And(L(dd) == 0, L(crcs) == 0))),
            ("digest-flags-count", Implies(has_crc, L(dd) == n)),
            ("digest-flags-all-defined", ForAll(lambda k: nth(dd, k), guard=lambda k: And(has_crc, shortcut, k >= 0, k < n), over=dd)),
            ("digest-flags-bits", ForAll(lambda k: nth(dd, k) == SP.bit(d, q + 1, k), guard=lambda k: And(has_crc, Not(shortcut), k >= 0, k < n), over=dd, mod=8)),
            ("crc-count", Implies(has_crc, L(crcs) == rank(c, "pkr", dd, n))),
            ("crc-of-each-defined-digest", ForAll(lambda k: nth(crcs, rank(c, "pkr", dd, k)) == SP.uint32_le(d, cstart + 4 * rank(c, "pkr", dd, k)), guard=lambda k: And(has_crc, k >= 0, k < n, nth(dd, k)), over=dd)),
            ("end-marker-consumed", And(nth(d, endC) == 0, c.pos(file) == endC + 1, endC < L(d))),
            ("pack-positions-count", L(pp) == V.max_(n + 1, 0)),
            ("pack-positions-are-prefix-sums", ForAll(lambda j: nth(pp, j) == sum_of(c, slice_(ps, 0, j)), guard=lambda j: And(j >= 0, j < n + 1), over=pp)),
            ("digests-flag", c.f(self_, "enable_digests") == (L(crcs) > 0)),
            ("returns-self", result is self_ if conc(c) else True),
            ("frame-data", eq(c.data(file), d)),
        ]
        return out

    def loops(self):
        def d0(c):
            return c.old.data(c.bound["file"])

        def inv0(c, Lp):
            return read_numbers_inv(c, c.bound["file"], d0(c), Lp.ghost["start"], c.eng.ghost["cutsR"], Lp.local("__comp0"), Lp.i)

        def init0(c, Lp):
            Lp.ghost["start"] = c.pos(c.bound["file"])
            c.eng.ghost["cutsR"] = V.to_seq([Lp.ghost["start"]], "int", "list")
            return []

        def gstep0(c, Lp):
            c.eng.ghost["cutsR"] = snoc(c.eng.ghost["cutsR"], c.pos(c.bound["file"]))

        def inv1(c, Lp):
            b = c.bound
            file = b["file"]
            d = d0(c)
            dd = c.f(b["self_"], "digestdefined")
            crcs = c.f(b["self_"], "crcs")
            i = Lp.i
            cs = Lp.ghost["cstart"]
            r = lambda k: rank(c, "pkr", dd, k)
            return [
                ("position", And(c.pos(file) == cs + 4 * r(i), r(i) >= 0, r(i) <= i, c.pos(file) <= L(d))),
                ("count", L(crcs) == r(i)),
                ("crc-of-each-defined-digest", ForAll(lambda k: And(nth(crcs, r(k)) == SP.uint32_le(d, cs + 4 * r(k)), r(k) >= 0, r(k) < r(i)), guard=lambda k: And(k >= 0, k < i, nth(dd, k)), over=dd)),
                ("frame-data", eq(c.data(file), d)),
            ]

        def init1(c, Lp):
            Lp.ghost["cstart"] = c.pos(c.bound["file"])
            dd = c.f(c.bound["self_"], "digestdefined")
            return [rank(c, "pkr", dd, 0) == 0]

        def step1(c, Lp):
            dd = c.f(c.bound["self_"], "digestdefined")
            return [rank_unfold(c, "pkr", dd, Lp.i)]

        return {
            "archiveinfo:PackInfo._read#comp0": LoopSpec("pack-sizes", inv0, target="_ in range(self.numstreams)", unfold_init=init0, ghost_step=gstep0, ghosts=["cutsR"], cells={"__comp0": "int"}),
            "archiveinfo:PackInfo._read#loop0": LoopSpec("for-crcexist", inv1, target="crcexist in self.digestdefined", unfold_init=init1, unfold_step=step1),
        }
