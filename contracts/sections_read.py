"""Section readers of py7zr/archiveinfo.py: PackInfo._read, SubstreamsInfo._read (C06, C05, C08).

Postconditions say that a NORMAL return leaves in the object exactly what a decoder that follows the 7z format
(docs/archive_format.rst, `Digests` structure of 7zFormat.txt) finds in the input bytes, and that the stream is
positioned after the section's END marker.  Malformed or truncated input may raise the ordinary exceptions listed
under `raises` (C05: it must not loop); a truncated NUMBER always leads to such an exception before a normal return,
which is what the `complete` clauses of the loop invariants carry.
"""
import os

try:
    import z3
except Exception:  # concrete-only interpreter
    z3 = None

from pyvc.contract import Contract, ForAll, LoopSpec, RaiseSpec, contract
from pyvc.values import And, Implies, Not, Or, L, ite, nth, slice_, ceil8, eq, all_true_of, any_true_of
from pyvc import values as V
from spec import primitives as SP
from contracts.sections import conc, psum, rank, rank_unfold, snoc, parse_numbers, pick

AI = "py7zr.archiveinfo:"
U64 = 1 << 64


def empty_list(c, elem):
    if conc(c):
        return []
    return c.eng.new_list(V.to_seq([], elem, "list"))


def sum_of(c, xs):
    """sum of a list of ints (python's built-in sum; the engine's uninterpreted `sum_int` symbolically)"""
    if conc(c):
        return sum(xs)
    return V.SInt(V.uf("sum_int", V.seq_sort("int"), z3.IntSort())(V.to_seq(xs, "int", "list").t))


def read_numbers_inv(c, file, d, start, cuts, res, i):
    """invariant of  [read_uint64(file) for _ in range(n)]  after i iterations: either every NUMBER so far was complete
    (then res[k] is the NUMBER at cuts[k] and the stream stands at cuts[i]) or the input is exhausted"""
    pos = c.pos(file)
    complete = pos < L(d)
    return [
        ("lengths", And(L(res) == i, L(cuts) == i + 1, nth(cuts, 0) == start)),
        ("position", And(pos <= L(d), pos >= start + i, Or(pos == L(d), pos == nth(cuts, i)))),
        ("numbers-so-far", ForAll(lambda k: And(nth(cuts, k + 1) == nth(cuts, k) + SP.NL(d, nth(cuts, k)), nth(res, k) == SP.NV(d, nth(cuts, k)), nth(cuts, k + 1) <= L(d), nth(cuts, k) >= start, nth(res, k) >= 0, nth(res, k) < U64), guard=lambda k: And(complete, k >= 0, k < i), over=cuts, trigger=False)),
        ("values-in-range", ForAll(lambda k: And(nth(res, k) >= 0, nth(res, k) < U64), guard=lambda k: And(k >= 0, k < i), over=res)),
        ("frame-data", eq(c.data(file), d)),
    ]


@contract
class PackInfoRead(Contract):
    """PackInfo (after its id byte): NUMBER packpos, NUMBER numstreams, optional Size record (0x09 + numstreams
    NUMBERs), optional CRC record (0x0A + Digests), END.  On a normal return the fields hold exactly these values,
    packpositions are the prefix sums of the pack sizes and the stream stands after the END byte."""

    target = AI + "PackInfo._read"
    props = ("C06", "C08", "C05")
    opaque_numbers = True
    fork_spec_booleans = True  # the postcondition is verified separately for each combination of optional records

    def setup(self, c):
        file = c.instream("file")
        # the object is always a fresh PackInfo() (classmethod retrieve): fields as __init__ leaves them
        self_ = c.obj("PackInfo", "py7zr.archiveinfo", packpos=0, numstreams=0, packsizes=empty_list(c, "int"), digestdefined=empty_list(c, "bool"), crcs=empty_list(c, "int"), enable_digests=True)
        return {"self_": self_, "file": file}

    def raises(self):
        return [RaiseSpec("TypeError"), RaiseSpec("struct.error"), RaiseSpec("Bad7zFile")]

    def modifies(self, c, self_, file):
        return [(file, "pos"), (self_, "packpos"), (self_, "numstreams"), (self_, "packsizes"), (self_, "digestdefined"), (self_, "crcs"), (self_, "enable_digests"), (self_, "packpositions")]

    def fresh_result(self, c, self_, file):
        return self_

    def _concrete(self, c, old, self_, file):
        d, p = old.data(file), old.pos(file)
        try:
            p2 = p + SP.number_len(d, p)
            p3 = p2 + SP.number_len(d, p2)
            if d[p3] != 0x09:
                return [p3 + 1]
            return parse_numbers(d, p3 + 1, SP.number_value(d, p2))
        except IndexError:
            return None

    def ensures(self, c, old, result, self_, file):
        d, p = old.data(file), old.pos(file)
        ps, dd, crcs = c.f(self_, "packsizes"), c.f(self_, "digestdefined"), c.f(self_, "crcs")
        n = c.f(self_, "numstreams")
        pp = c.f(self_, "packpositions")
        p2 = p + SP.NL(d, p)
        p3 = p2 + SP.NL(d, p2)
        if not conc(c) and c.eng.ctx_mode == "prove":
            # proof hints (proved before use): a normal return means neither leading NUMBER was cut short
            c.lemma("pack-position-complete", And(p < L(d), p2 <= L(d)))
            c.lemma("stream-count-complete", And(p2 < L(d), p3 < L(d)))
        has_sizes = nth(d, p3) == 0x09
        cuts = c.ghost_seq("cutsR", concrete=lambda: self._concrete(c, old, self_, file), default=[p3 + 1])
        endS = pick(c, has_sizes, nth(cuts, n), p3)
        has_crc = And(has_sizes, nth(d, endS) == 0x0A)
        q = endS + 1
        shortcut = nth(d, q) != 0
        cstart = pick(c, shortcut, q + 1, q + 1 + ceil8(n))
        endC = pick(c, has_crc, cstart + 4 * rank(c, "pkr", dd, n), endS)
        out = [
            ("pack-position", c.f(self_, "packpos") == SP.NV(d, p)),
            ("stream-count", n == SP.NV(d, p2)),
            ("sizes-absent", Implies(Not(has_sizes), And(L(ps) == 0, n == 0))),
            ("work-bounded-by-input", And(n >= 0, n <= c.pos(file) - p)),  # C05: every count-driven loop ran at most once per consumed byte
            ("sizes-count", Implies(has_sizes, And(L(ps) == n, L(cuts) == n + 1, nth(cuts, 0) == p3 + 1))),
            ("sizes", ForAll(lambda k: And(nth(cuts, k + 1) == nth(cuts, k) + SP.NL(d, nth(cuts, k)), nth(ps, k) == SP.NV(d, nth(cuts, k))), guard=lambda k: And(has_sizes, k >= 0, k < n), over=cuts, trigger=False)),
            ("digests-absent", Implies(Not(has_crc), And(L(dd) == 0, L(crcs) == 0))),
            ("digest-flags-count", Implies(has_crc, L(dd) == n)),
            ("digest-flags-all-defined", ForAll(lambda k: nth(dd, k), guard=lambda k: And(has_crc, shortcut, k >= 0, k < n), over=dd)),
            ("digest-flags-bits", ForAll(lambda k: nth(dd, k) == SP.bit(d, q + 1, k), guard=lambda k: And(has_crc, Not(shortcut), k >= 0, k < n), over=dd, mod=8)),
            ("crc-count", Implies(has_crc, L(crcs) == rank(c, "pkr", dd, n))),
            ("crc-of-each-defined-digest", ForAll(lambda k: nth(crcs, rank(c, "pkr", dd, k)) == SP.uint32_le(d, cstart + 4 * rank(c, "pkr", dd, k)), guard=lambda k: And(has_crc, k >= 0, k < n, nth(dd, k)), over=dd)),
            ("end-marker-consumed", And(nth(d, endC) == 0, c.pos(file) == endC + 1, endC < L(d))),
            ("pack-positions-count", L(pp) == V.max_(n + 1, 0)),
            ("pack-positions-are-prefix-sums", ForAll(lambda j: nth(pp, j) == sum_of(c, slice_(ps, 0, j)), guard=lambda j: And(j >= 0, j < n + 1), over=pp)),
            ("digests-flag", c.f(self_, "enable_digests") == (L(crcs) > 0)),
            ("returns-self", result is self_ if conc(c) else True),
            ("frame-data", eq(c.data(file), d)),
        ]
        return out

    def loops(self):
        def d0(c):
            return c.old.data(c.bound["file"])

        def inv0(c, Lp):
            return read_numbers_inv(c, c.bound["file"], d0(c), Lp.ghost["start"], c.eng.ghost["cutsR"], Lp.local("__comp0"), Lp.i)

        def init0(c, Lp):
            Lp.ghost["start"] = c.pos(c.bound["file"])
            c.eng.ghost["cutsR"] = V.to_seq([Lp.ghost["start"]], "int", "list")
            return []

        def gstep0(c, Lp):
            c.eng.ghost["cutsR"] = snoc(c.eng.ghost["cutsR"], c.pos(c.bound["file"]))

        def inv1(c, Lp):
            b = c.bound
            file = b["file"]
            d = d0(c)
            dd = c.f(b["self_"], "digestdefined")
            crcs = c.f(b["self_"], "crcs")
            i = Lp.i
            cs = Lp.ghost["cstart"]
            r = lambda k: rank(c, "pkr", dd, k)
            return [
                ("position", And(c.pos(file) == cs + 4 * r(i), r(i) >= 0, r(i) <= i, c.pos(file) <= L(d))),
                ("count", L(crcs) == r(i)),
                ("crc-of-each-defined-digest", ForAll(lambda k: And(nth(crcs, r(k)) == SP.uint32_le(d, cs + 4 * r(k)), r(k) >= 0, r(k) < r(i)), guard=lambda k: And(k >= 0, k < i, nth(dd, k)), over=dd)),
                ("frame-data", eq(c.data(file), d)),
            ]

        def init1(c, Lp):
            Lp.ghost["cstart"] = c.pos(c.bound["file"])
            dd = c.f(c.bound["self_"], "digestdefined")
            return [rank(c, "pkr", dd, 0) == 0]

        def step1(c, Lp):
            dd = c.f(c.bound["self_"], "digestdefined")
            return [rank_unfold(c, "pkr", dd, Lp.i)]

        return {
            "archiveinfo:PackInfo._read#comp0": LoopSpec("pack-sizes", inv0, target="_ in range(self.numstreams)", unfold_init=init0, ghost_step=gstep0, ghosts=["cutsR"], cells={"__comp0": "int"}),
            "archiveinfo:PackInfo._read#loop0": LoopSpec("for-crcexist", inv1, target="crcexist in self.digestdefined", unfold_init=init1, unfold_step=step1),
        }


# ================================================================================================= SubstreamsInfo._read
FOLDER_SCHEMA = {"digestdefined": {"type": "bool"}, "crc": {"type": "int", "nullable": True}, "unpack_size": {"type": "int"}}


def fsize(c, folders, i):
    return c.rl(folders).val("unpack_size", i)


def nus_of(c, self_):
    return c.f(self_, "num_unpackstreams_folders")


def sizesQ(c, d, cuts, fo, nus, ups, folders, nf, m):
    """what the format says about global substream m when a Size record is present: it belongs to folder fo[m]; every
    substream but the last of its folder has a NUMBER in the record, the last one gets what is left of the folder's
    unpack size"""
    f = nth(fo, m)
    first = psum(c, "rnus", nus, f)
    last = (m + 1 == psum(c, "rnus", nus, f + 1))
    a, b = nth(cuts, m), nth(cuts, m + 1)
    explicit = And(b == a + SP.NL(d, a), nth(ups, m) == SP.NV(d, a))
    rest = nth(ups, m) == fsize(c, folders, f) - (psum(c, "rups", ups, m) - psum(c, "rups", ups, first))
    return And(f >= 0, f < nf, first <= m, m < psum(c, "rnus", nus, f + 1), a <= b, b <= L(d), Implies(last, And(b == a, rest)), Implies(Not(last), explicit))


@contract
class SubstreamsInfoRead(Contract):
    """SubStreamsInfo (after its id byte): optional NumUnpackStream record (0x0D + one NUMBER per folder; every folder
    holds ONE stream when it is absent), optional Size record (0x09 + a NUMBER for every substream except the last of
    each folder, whose size is what remains of the folder's unpack size; folders without streams have no entry),
    optional CRC record (0x0A + Digests over the substreams whose CRC is not already known from the folder), END.
    Without a Size record the sizes are the unpack sizes of the one-stream folders."""

    target = AI + "SubstreamsInfo._read"
    props = ("C06", "C05")
    opaque_numbers = True
    fork_spec_booleans = True
    replayable = False  # the folder objects are modelled records (unpack size / digest flag / crc): no concrete harness
    assumptions = (
        "the prefix sums used in the specification are folds defined by their one-step unfolding (psum(k+1) = psum(k) + xs[k]); self.unpacksizes only grows by append inside _read, so sums over an earlier state are sums over every later state",
        "Folder.get_unpack_size() is a pure function of the folder (modelled as a column of the folder records); folder.digestdefined implies folder.crc is not None (established by UnpackInfo._retrieve_coders_info since FX11)",
    )

    def setup(self, c):
        file = c.instream("file")
        folders = c.reclist("folders", FOLDER_SCHEMA, as_objects=True, methods={"get_unpack_size": "unpack_size"})
        self_ = c.obj("SubstreamsInfo", "py7zr.archiveinfo", digests=empty_list(c, "int"), digestsdefined=empty_list(c, "bool"), unpacksizes=None, num_unpackstreams_folders=empty_list(c, "int"))
        return {"self_": self_, "file": file, "numfolders": c.int("numfolders"), "folders": folders}

    def requires(self, c, self_, file, numfolders, folders):
        rl = c.rl(folders)
        return [
            ("folder-count", And(numfolders >= 0, rl.n == numfolders)),
            ("defined-folder-digests-have-a-crc", ForAll(lambda k: Implies(rl.val("digestdefined", k), rl.defined("crc", k)), guard=lambda k: And(k >= 0, k < numfolders), n=numfolders)),
        ]

    def raises(self):
        return [RaiseSpec("TypeError"), RaiseSpec("struct.error"), RaiseSpec("Bad7zFile"), RaiseSpec("IndexError")]

    def modifies(self, c, self_, file, numfolders, folders):
        return [(file, "pos"), (self_, "digests"), (self_, "digestsdefined"), (self_, "unpacksizes"), (self_, "num_unpackstreams_folders")]

    def ensures(self, c, old, result, self_, file, numfolders, folders):
        d, p = old.data(file), old.pos(file)
        nus = nus_of(c, self_)
        nf = numfolders
        has_nus = nth(d, p) == 0x0D
        cutsN = c.ghost_seq("cutsRN", default=[p + 1])
        pA = pick(c, has_nus, nth(cutsN, nf), p)
        out = [
            ("stream-counts-length", L(nus) == nf),
            ("stream-counts-default-to-one", ForAll(lambda k: nth(nus, k) == 1, guard=lambda k: And(Not(has_nus), k >= 0, k < nf), over=nus)),
            ("stream-counts-start", Implies(has_nus, And(L(cutsN) == nf + 1, nth(cutsN, 0) == p + 1))),
            ("stream-counts", ForAll(lambda k: And(nth(cutsN, k + 1) == nth(cutsN, k) + SP.NL(d, nth(cutsN, k)), nth(nus, k) == SP.NV(d, nth(cutsN, k))), guard=lambda k: And(has_nus, k >= 0, k < nf), over=cutsN, trigger=False)),
            ("frame-data", eq(c.data(file), d)),
        ]
        if not conc(c) and c.eng.ctx_mode != "assume":
            # C05 (FX24): one digest entry is allocated per declared substream, so the declared total has to fit into
            # what remaining_size() reports after the counts (every substream is a member the header still has to name)
            rems = [e for e in c.eng.trace if e.kind == "contract-call" and str(e.name).endswith("remaining_size")]
            fits = And(len(rems) == 1, sum_of(c, nus) <= rems[0].result) if len(rems) == 1 else False
            out.append(("declared-substreams-fit-the-remaining-header", Implies(has_nus, fits), ("C05",)))
        if conc(c) or c.eng.ctx_mode == "assume" or not os.environ.get("VERIF_SSREAD_POSTS"):
            # The loop invariants above already carry the per-substream facts (sizes, digest hand-out, counters).  The
            # exit clauses below restate them over the whole section; they are NOT part of the claimed check yet: 25 of
            # their 535 instances are still open and the run takes 20+ minutes (set VERIF_SSREAD_POSTS=1 to work on them).
            return out
        # ---- the rest of the section, stated over the ghost sequences the loops maintain (prove mode only: no caller
        #      of this function is under contract, so nobody consumes these clauses modularly)
        g = c.eng.ghost
        rl = c.rl(folders)
        ups = c.f(self_, "unpacksizes")
        dd, dg = c.f(self_, "digestsdefined"), c.f(self_, "digests")
        total = psum(c, "rnus", nus, nf)
        has_size = nth(d, pA) == 0x09
        sized = pick(c, has_size, True, False)
        if sized:
            cutsZ, foZ = g.get("cutsRZ"), g.get("foRZ")
            if cutsZ is None:
                out.append(("sizes-read-from-the-record", False))
                return out
            out += [
                ("sizes-one-per-substream", And(L(ups) == total, nth(cutsZ, 0) == pA + 1)),
                ("sizes-all-but-last-of-each-folder", ForAll(lambda q: sizesQ(c, d, cutsZ, foZ, nus, ups, folders, nf, q), guard=lambda q: And(q >= 0, q < total), over=cutsZ, trigger=False)),
            ]
            pB = nth(cutsZ, total)
        else:
            one = lambda k: V.SInt(V.uf("rank_one_stream", z3.IntSort(), z3.IntSort())(V._zi(k)))
            out += [
                ("without-size-record-one-size-per-one-stream-folder", L(ups) == one(nf)),
                ("without-size-record-the-folder-sizes", ForAll(lambda k: nth(ups, one(k)) == fsize(c, folders, k), guard=lambda k: And(k >= 0, k < nf, nth(nus, k) == 1), over=nus)),
            ]
            pB = pA
        has_crc = nth(d, pB) == 0x0A
        with_crc = pick(c, has_crc, True, False)
        out.append(("one-digest-entry-per-substream", And(L(dd) == total, L(dg) == total)))
        ndf = V.SInt(V.uf("digests_in_record_before_folder", z3.IntSort(), z3.IntSort())(V._zi(nf)))
        if with_crc:
            src, foD, defined, crcs = g.get("srcRD"), g.get("foRD"), g.get("definedRD"), g.get("crcsRD")
            if src is None:
                out.append(("digests-read-from-the-record", False))
                return out
            q = pB + 1
            shortcut = nth(d, q) != 0

            def DQd(m):
                f = nth(foD, m)
                s_ = nth(src, m)
                own = And(nth(nus, f) == 1, rl.val("digestdefined", f))
                rk = rank(c, "rdef", defined, s_)
                cst = ite(shortcut, q + 1, q + 1 + ceil8(ndf))
                flag = ite(shortcut, True, SP.bit(d, q + 1, s_))
                return And(
                    f >= 0, f < nf, psum(c, "rnus", nus, f) <= m, m < psum(c, "rnus", nus, f + 1),
                    Implies(s_ < 0, And(own, nth(dd, m), nth(dg, m) == rl.val("crc", f))),
                    Implies(s_ >= 0, And(Not(own), s_ == V.SInt(V.uf("digests_in_record_before_folder", z3.IntSort(), z3.IntSort())(V._zi(f))) + (m - psum(c, "rnus", nus, f)), nth(dd, m) == flag, Implies(nth(dd, m), nth(dg, m) == SP.uint32_le(d, cst + 4 * rk)), Implies(Not(nth(dd, m)), nth(dg, m) == 0))),
                )

            out.append(("digests-from-folder-or-record", ForAll(DQd, guard=lambda m: And(m >= 0, m < total), over=dd, trigger=False)))
            cst = ite(shortcut, q + 1, q + 1 + ceil8(ndf))
            pC = cst + 4 * rank(c, "rdef", defined, ndf)
        else:
            pC = pB
        out.append(("end-marker-consumed", And(nth(d, pC) == 0, c.pos(file) == pC + 1, pC < L(d))))
        return out

    def loops(self):
        def d0(c):
            return c.old.data(c.bound["file"])

        def G(c, name):
            return c.eng.ghost[name]

        def nus_frame(c):
            """the stream counts are not modified by the loops that consult them"""
            g = c.eng.ghost
            if "nus0" not in g:
                g["nus0"] = nus_of(c, c.bound["self_"])
            return ("frame-stream-counts", eq(nus_of(c, c.bound["self_"]), g["nus0"]))

        def nus_def(c):
            """definition of the prefix sums of the stream counts (a fold over the final list), registered once"""
            nus = nus_of(c, c.bound["self_"])
            key = ("nus_def", nus.t.get_id())
            seen = c.eng.ghost.setdefault("defs", set())
            if key in seen:
                return []
            seen.add(key)
            c.eng.register_forall(ForAll(lambda k: And(psum(c, "rnus", nus, k + 1) == psum(c, "rnus", nus, k) + nth(nus, k), psum(c, "rnus", nus, k) >= 0), guard=lambda k: And(k >= 0, k < L(nus)), over=nus))
            return [psum(c, "rnus", nus, 0) == 0]

        # ---- comp0: [read_uint64(file) for _ in range(numfolders)]
        def inv_c0(c, Lp):
            return read_numbers_inv(c, c.bound["file"], d0(c), Lp.ghost["start"], G(c, "cutsRN"), Lp.local("__comp0"), Lp.i)

        def init_c0(c, Lp):
            Lp.ghost["start"] = c.pos(c.bound["file"])
            c.eng.ghost["cutsRN"] = V.to_seq([Lp.ghost["start"]], "int", "list")
            return []

        def gstep_c0(c, Lp):
            c.eng.ghost["cutsRN"] = snoc(G(c, "cutsRN"), c.pos(c.bound["file"]))

        # ---- loop0 / loop1: the Size record
        def ups_def(c, ups):
            """definition of the prefix sums of the size list (a fold); the list only grows by append in this function,
            so the sums of a shorter state are the sums of every later state"""
            if not V.is_sym(ups):
                ups = V.to_seq(ups, "int", "list")
            key = ("ups_def", ups.t.get_id())
            seen = c.eng.ghost.setdefault("defs", set())
            if key not in seen:
                seen.add(key)
                c.eng._keep.append(ups)
                c.eng.register_forall(ForAll(lambda k: psum(c, "rups", ups, k + 1) == psum(c, "rups", ups, k) + nth(ups, k), guard=lambda k: And(k >= 0, k < L(ups)), over=ups))

        def sizes_common(c, m):
            b = c.bound
            file, folders = b["file"], b["folders"]
            d = d0(c)
            nus = nus_of(c, b["self_"])
            ups = c.f(b["self_"], "unpacksizes")
            ups_def(c, ups)
            c.inst(m - 1)  # proof hint: unfold the size prefix sum at the newest element
            cuts, fo = G(c, "cutsRZ"), G(c, "foRZ")
            pos = c.pos(file)
            complete = pos < L(d)
            return [
                ("lengths", And(L(ups) == m, L(cuts) == m + 1, L(fo) == m, m >= 0, nth(cuts, 0) == G(c, "startRZ"))),
                ("position", And(pos <= L(d), Or(pos == L(d), pos == nth(cuts, m)))),
                ("nonneg-counts", ForAll(lambda k: nth(nus, k) >= 0, guard=lambda k: And(k >= 0, k < L(nus)), over=nus)),
                ("substreams-so-far", ForAll(lambda q: sizesQ(c, d, cuts, fo, nus, ups, folders, L(nus), q), guard=lambda q: And(complete, q >= 0, q < m), over=cuts, trigger=False, cases=lambda q: [q < m - 1, q >= m - 1])),
                ("frame-data", eq(c.data(file), d)),
            ]

        def inv_l0(c, Lp):
            nus = nus_of(c, c.bound["self_"])
            m = psum(c, "rnus", nus, Lp.i)
            return [nus_frame(c), ("cursor", L(c.f(c.bound["self_"], "unpacksizes")) == m)] + sizes_common(c, m)

        def init_l0(c, Lp):
            st = c.pos(c.bound["file"])
            c.eng.ghost["startRZ"] = st
            c.eng.ghost["cutsRZ"] = V.to_seq([st], "int", "list")
            c.eng.ghost["foRZ"] = V.to_seq([], "int", "list")
            return nus_def(c)

        def gstep_l0(c, Lp):
            # the remainder entry appended after the inner loop (only for folders that hold a stream)
            nus = nus_of(c, c.bound["self_"])
            if c.eng.branch(nth(nus, Lp.i) > 0):
                c.eng.ghost["cutsRZ"] = snoc(G(c, "cutsRZ"), nth(G(c, "cutsRZ"), L(G(c, "foRZ"))))
                c.eng.ghost["foRZ"] = snoc(G(c, "foRZ"), Lp.i)

        def inv_l1(c, Lp):
            nus = nus_of(c, c.bound["self_"])
            ups = c.f(c.bound["self_"], "unpacksizes")
            i = c.local("i")
            m = psum(c, "rnus", nus, i) + Lp.i
            return [nus_frame(c), ("cursor", And(L(ups) == m, i >= 0, i < L(nus), Lp.i >= 0, Lp.i <= V.max_(nth(nus, i) - 1, 0), Lp.local("totalsize") == psum(c, "rups", ups, m) - psum(c, "rups", ups, psum(c, "rnus", nus, i))))] + sizes_common(c, m)

        def gstep_l1(c, Lp):
            c.eng.ghost["cutsRZ"] = snoc(G(c, "cutsRZ"), c.pos(c.bound["file"]))
            c.eng.ghost["foRZ"] = snoc(G(c, "foRZ"), c.local("i"))

        # ---- comp1: sizes of the one-stream folders when there is no Size record
        def r1(c, k):
            nus = nus_of(c, c.bound["self_"])
            if conc(c):
                return sum(1 for x in nus[: max(k, 0)] if x == 1)
            return V.SInt(V.uf("rank_one_stream", z3.IntSort(), z3.IntSort())(V._zi(k)))

        def inv_c1(c, Lp):
            b = c.bound
            nus = nus_of(c, b["self_"])
            res = Lp.local("__comp1")
            i = Lp.i
            return [
                nus_frame(c),
                ("length", And(L(res) == r1(c, i), r1(c, i) >= 0, r1(c, i) <= i)),
                ("one-stream-folders-in-order", ForAll(lambda k: And(nth(res, r1(c, k)) == fsize(c, b["folders"], k), r1(c, k) >= 0, r1(c, k) < r1(c, i)), guard=lambda k: And(k >= 0, k < i, nth(nus, k) == 1), over=nus)),
            ]

        def init_c1(c, Lp):
            return [r1(c, 0) == 0]

        def step_c1(c, Lp):
            nus = nus_of(c, c.bound["self_"])
            return [r1(c, Lp.i + 1) == r1(c, Lp.i) + ite(nth(nus, Lp.i) == 1, 1, 0)]

        # ---- loop2: how many digests the CRC record covers
        def bearing(c, k):
            """folder k gets its digests from the record (not from its own folder-level CRC)"""
            b = c.bound
            nus = nus_of(c, b["self_"])
            return Or(nth(nus, k) != 1, Not(c.rl(b["folders"]).val("digestdefined", k)))

        def ND(c, k):
            if conc(c):
                nus = nus_of(c, c.bound["self_"])
                return sum(nus[j] for j in range(max(k, 0)) if bearing(c, j))
            return V.SInt(V.uf("digests_in_record_before_folder", z3.IntSort(), z3.IntSort())(V._zi(k)))

        def nd_unfold(c, k):
            nus = nus_of(c, c.bound["self_"])
            return ND(c, k + 1) == ND(c, k) + ite(bearing(c, k), nth(nus, k), 0)

        def inv_l2(c, Lp):
            nus = nus_of(c, c.bound["self_"])
            return [nus_frame(c), ("counts", And(Lp.local("num_digests") == ND(c, Lp.i), Lp.local("num_digests_total") == psum(c, "rnus", nus, Lp.i), ND(c, Lp.i) >= 0))]

        def init_l2(c, Lp):
            return nus_def(c) + [ND(c, 0) == 0]

        def step_l2(c, Lp):
            return [nd_unfold(c, Lp.i)]

        # ---- loop3 / loop4: hand the digests out
        def DQ(c, m):
            b = c.bound
            rl = c.rl(b["folders"])
            nus = nus_of(c, b["self_"])
            dd, dg = c.f(b["self_"], "digestsdefined"), c.f(b["self_"], "digests")
            src, fo = G(c, "srcRD"), G(c, "foRD")
            defined, crcs = G(c, "definedRD"), G(c, "crcsRD")
            f = nth(fo, m)
            s_ = nth(src, m)
            own = And(nth(nus, f) == 1, rl.val("digestdefined", f))
            rk = rank(c, "rdef", defined, s_)
            return And(
                f >= 0, f < L(nus), psum(c, "rnus", nus, f) <= m, m < psum(c, "rnus", nus, f + 1),
                Implies(s_ < 0, And(own, nth(dd, m), nth(dg, m) == rl.val("crc", f))),
                Implies(s_ >= 0, And(Not(own), s_ == ND(c, f) + (m - psum(c, "rnus", nus, f)), nth(dd, m) == nth(defined, s_), Implies(nth(dd, m), nth(dg, m) == nth(crcs, rk)), Implies(Not(nth(dd, m)), nth(dg, m) == 0))),
            )

        def digests_common(c, m):
            b = c.bound
            dd, dg = c.f(b["self_"], "digestsdefined"), c.f(b["self_"], "digests")
            src, fo = G(c, "srcRD"), G(c, "foRD")
            return [
                ("lengths", And(L(dd) == m, L(dg) == m, L(src) == m, L(fo) == m, m >= 0)),
                ("digests-so-far", ForAll(lambda q: DQ(c, q), guard=lambda q: And(q >= 0, q < m), over=dd, trigger=False, cases=lambda q: [q < m - 1, q >= m - 1])),
            ]

        def inv_l3(c, Lp):
            nus = nus_of(c, c.bound["self_"])
            defined = G(c, "definedRD")
            m = psum(c, "rnus", nus, Lp.i)
            didx = Lp.local("didx")
            return [nus_frame(c), ("cursor", And(didx == ND(c, Lp.i), Lp.local("cidx") == rank(c, "rdef", defined, didx), didx >= 0, Lp.local("cidx") >= 0))] + digests_common(c, m)

        def init_l3(c, Lp):
            c.eng.ghost["definedRD"] = Lp.local("defined")
            c.eng.ghost["crcsRD"] = Lp.local("crcs")
            c.eng.ghost["srcRD"] = V.to_seq([], "int", "list")
            c.eng.ghost["foRD"] = V.to_seq([], "int", "list")
            return nus_def(c) + [ND(c, 0) == 0, rank(c, "rdef", G(c, "definedRD"), 0) == 0]

        def step_l3(c, Lp):
            return [nd_unfold(c, Lp.i)]

        def gstep_l3(c, Lp):
            # the folder-level branch appended one entry without consulting the record
            b = c.bound
            rl = c.rl(b["folders"])
            nus = nus_of(c, b["self_"])
            i = Lp.i
            if c.eng.branch(And(nth(nus, i) == 1, rl.val("digestdefined", i), rl.defined("crc", i))):
                c.eng.ghost["srcRD"] = snoc(G(c, "srcRD"), -1)
                c.eng.ghost["foRD"] = snoc(G(c, "foRD"), i)

        def inv_l4(c, Lp):
            nus = nus_of(c, c.bound["self_"])
            defined = G(c, "definedRD")
            i = c.local("i")
            m = psum(c, "rnus", nus, i) + Lp.i
            didx = Lp.local("didx")
            return [nus_frame(c), ("cursor", And(didx == ND(c, i) + Lp.i, Lp.local("cidx") == rank(c, "rdef", defined, didx), Lp.local("cidx") >= 0, i >= 0, i < L(nus), Lp.local("numsubstreams") == nth(nus, i), bearing(c, i), ND(c, i) >= 0))] + digests_common(c, m)

        def step_l4(c, Lp):
            return [rank_unfold(c, "rdef", G(c, "definedRD"), Lp.local("didx"))]

        def gstep_l4(c, Lp):
            c.eng.ghost["srcRD"] = snoc(G(c, "srcRD"), Lp.local("didx") - 1)
            c.eng.ghost["foRD"] = snoc(G(c, "foRD"), c.local("i"))

        # ---- loop5: no CRC record at all
        def inv_l5(c, Lp):
            b = c.bound
            nus = nus_of(c, b["self_"])
            dd, dg = c.f(b["self_"], "digestsdefined"), c.f(b["self_"], "digests")
            m = psum(c, "rnus", nus, Lp.i)
            return [nus_frame(c), ("lengths", And(L(dd) == m, L(dg) == m))]

        def init_l5(c, Lp):
            return nus_def(c)

        return {
            "archiveinfo:SubstreamsInfo._read#comp0": LoopSpec("stream-counts", inv_c0, target="_ in range(numfolders)", unfold_init=init_c0, ghost_step=gstep_c0, ghosts=["cutsRN"], cells={"__comp0": "int"}),
            "archiveinfo:SubstreamsInfo._read#loop0": LoopSpec("for-i-sizes", inv_l0, target="i in range(len(self.num_unpackstreams_folders))", unfold_init=init_l0, ghost_step=gstep_l0, ghosts=["cutsRZ", "foRZ"]),
            "archiveinfo:SubstreamsInfo._read#loop1": LoopSpec("for-j-sizes", inv_l1, target="j in range(1, self.num_unpackstreams_folders[i])", ghost_step=gstep_l1, ghosts=["cutsRZ", "foRZ"]),
            "archiveinfo:SubstreamsInfo._read#comp1": LoopSpec("one-stream-folder-sizes", inv_c1, target="(i, n) in enumerate(self.num_unpackstreams_folders)", unfold_init=init_c1, unfold_step=step_c1, cells={"__comp1": "int"}),
            "archiveinfo:SubstreamsInfo._read#loop2": LoopSpec("for-i-count", inv_l2, target="i in range(numfolders)", unfold_init=init_l2, unfold_step=step_l2),
            "archiveinfo:SubstreamsInfo._read#loop3": LoopSpec("for-i-digests", inv_l3, target="i in range(numfolders)", unfold_init=init_l3, unfold_step=step_l3, ghost_step=gstep_l3, ghosts=["srcRD", "foRD"]),
            "archiveinfo:SubstreamsInfo._read#loop4": LoopSpec("for-j-digests", inv_l4, target="j in range(numsubstreams)", unfold_step=step_l4, ghost_step=gstep_l4, ghosts=["srcRD", "foRD"]),
            "archiveinfo:SubstreamsInfo._read#loop5": LoopSpec("for-i-no-crc-record", inv_l5, target="i in range(numfolders)", unfold_init=init_l5),
        }


# ===================================================================================== FilesInfo._read_times / _read_attributes
def _files(c, self_):
    return self_.files if conc(c) else c.raw(self_, "files")


class _VecReader(Contract):
    """shared shape of _read_times (8-byte values) and _read_attributes (4-byte values): member k gets the value stored
    for it when its defined flag is set - the values of the DEFINED members follow each other in member order - and
    None otherwise; the stream ends up behind the last stored value"""

    width = 8
    props = ("C06", "C17", "C08", "C02")

    def raises(self):
        return [RaiseSpec("TypeError"), RaiseSpec("struct.error"), RaiseSpec("AssertionError")]

    def _post(self, c, old, file, self_, field, dd, vstart):
        rl = c.rl(_files(c, self_))
        n = rl.n
        d = old.data(file)
        W = self.width
        le = SP.uint64_le if W == 8 else SP.uint32_le
        r = lambda k: rank(c, "vr" + field, dd, k)
        return [
            ("defined-members-get-their-stored-value", ForAll(lambda k: And(rl.defined(field, k), rl.val(field, k) == le(d, vstart + W * r(k))), guard=lambda k: And(k >= 0, k < n, nth(dd, k)), over=dd)),
            ("undefined-members-get-none", ForAll(lambda k: And(rl.has(field, k), Not(rl.defined(field, k))), guard=lambda k: And(k >= 0, k < n, Not(nth(dd, k))), over=dd)),
            ("consumed", c.pos(file) == vstart + W * r(n)),
            ("frame-data", eq(c.data(file), d)),
        ]

    def _inv(self, c, Lp, file, field, dd, vstart):
        rl = c.rl(_files(c, c.bound["self_"]))
        d = c.old.data(file)
        W = self.width
        le = SP.uint64_le if W == 8 else SP.uint32_le
        i = Lp.i
        r = lambda k: rank(c, "vr" + field, dd, k)
        return [
            ("position", And(c.pos(file) == vstart + W * r(i), r(i) >= 0, r(i) <= i)),
            ("defined-so-far", ForAll(lambda k: And(rl.defined(field, k), rl.val(field, k) == le(d, vstart + W * r(k)), r(k) >= 0), guard=lambda k: And(k >= 0, k < i, nth(dd, k)), over=dd)),
            ("undefined-so-far", ForAll(lambda k: And(rl.has(field, k), Not(rl.defined(field, k))), guard=lambda k: And(k >= 0, k < i, Not(nth(dd, k))), over=dd)),
            ("frame-data", eq(c.data(file), d)),
        ]


@contract
class ReadAttributes(_VecReader):
    target = AI + "FilesInfo._read_attributes"
    width = 4

    def setup(self, c):
        files = c.reclist("files", {"emptystream": {"type": "bool"}, "attributes": {"type": "int", "optional": True, "nullable": True}})
        self_ = c.obj("FilesInfo", "py7zr.archiveinfo", files=files, emptyfiles=c.bool_list("emptyfiles"), antifiles=None)
        return {"self_": self_, "buffer": c.instream("buffer"), "defined": c.bool_list("defined")}

    def requires(self, c, self_, buffer, defined):
        return [("one-flag-per-member", L(c.view(defined)) == c.rl(_files(c, self_)).n)]

    def modifies(self, c, self_, buffer, defined):
        return [(buffer, "pos"), (_files(c, self_), "cols")]

    def ensures(self, c, old, result, self_, buffer, defined):
        return self._post(c, old, buffer, self_, "attributes", c.view(defined), old.pos(buffer))

    def loops(self):
        def inv(c, Lp):
            b = c.bound
            return self._inv(c, Lp, b["buffer"], "attributes", c.view(b["defined"]), c.old.pos(b["buffer"]))

        def init(c, Lp):
            return [rank(c, "vrattributes", c.view(c.bound["defined"]), 0) == 0]

        def step(c, Lp):
            return [rank_unfold(c, "vrattributes", c.view(c.bound["defined"]), Lp.i)]

        return {"archiveinfo:FilesInfo._read_attributes#loop0": LoopSpec("for-idx-f", inv, target="(idx, f) in enumerate(self.files)", unfold_init=init, unfold_step=step)}


@contract
class ReadTimes(_VecReader):
    """time property body: BooleanList (with AllAreDefined byte) over ALL members, external = 0, then one 64-bit FILETIME
    per DEFINED member; members whose flag is clear get None (their time is undefined)"""

    target = AI + "FilesInfo._read_times"
    width = 8
    assert_mode = "raise"

    def setup(self, c):
        files = c.reclist("files", {"emptystream": {"type": "bool"}, "lastwritetime": {"type": "int", "optional": True, "nullable": True}})
        self_ = c.obj("FilesInfo", "py7zr.archiveinfo", files=files, emptyfiles=c.bool_list("emptyfiles"), antifiles=None)
        return {"self_": self_, "fp": c.instream("fp"), "name": "lastwritetime"}

    def modifies(self, c, self_, fp, name):
        return [(fp, "pos"), (_files(c, self_), "cols")]

    def _vec(self, c, old, fp, n):
        """(defined flags as the format gives them, offset of the first value) for the stream state `old`"""
        d, p = old.data(fp), old.pos(fp)
        shortcut = Or(L(d) - p <= 0, nth(d, p) != 0)
        vstart = ite(shortcut, ite(L(d) - p <= 0, p, p + 1), p + 1 + ceil8(n)) + 1
        return shortcut, vstart

    def ensures(self, c, old, result, self_, fp, name):
        rl = c.rl(_files(c, self_))
        n = rl.n
        d, p = old.data(fp), old.pos(fp)
        if conc(c):
            sc = len(d) - p <= 0 or d[p] != 0
            dd = [True] * n if sc else [SP.bit(d, p + 1, k) for k in range(n)]
            vstart = (p + (0 if len(d) - p <= 0 else 1) if sc else p + 1 + (n + 7) // 8) + 1
        else:
            dd = c.eng.ghost.get("definedRT")
            if dd is None:
                return [("defined-vector-read", False)]
            sc, vstart = self._vec(c, old, fp, n)
        out = self._post(c, old, fp, self_, "lastwritetime", dd, vstart)
        if not conc(c):
            out += [
                ("flags-all-set-on-the-shortcut", ForAll(lambda k: nth(dd, k), guard=lambda k: And(sc, k >= 0, k < n), over=dd)),
                ("flags-are-the-bit-field", ForAll(lambda k: nth(dd, k) == SP.bit(d, p + 1, k), guard=lambda k: And(Not(sc), k >= 0, k < n), over=dd, mod=8)),
                ("external-flag-is-zero", nth(d, vstart - 1) == 0),
            ]
        return out

    def loops(self):
        def inv(c, Lp):
            b = c.bound
            dd = c.eng.ghost["definedRT"]
            return self._inv(c, Lp, b["fp"], "lastwritetime", dd, c.eng.ghost["vstartRT"])

        def init(c, Lp):
            dd = Lp.local("defined")
            c.eng.ghost["definedRT"] = dd
            c.eng.ghost["vstartRT"] = c.pos(c.bound["fp"])
            return [rank(c, "vrlastwritetime", dd, 0) == 0]

        def step(c, Lp):
            return [rank_unfold(c, "vrlastwritetime", c.eng.ghost["definedRT"], Lp.i)]

        return {"archiveinfo:FilesInfo._read_times#loop0": LoopSpec("for-i-f", inv, target="(i, f) in enumerate(self.files)", unfold_init=init, unfold_step=step)}


# ======================================================================================================= FilesInfo._read_name
def _repl(s):
    """str.replace('\\\\', '/') - the same uninterpreted symbol the engine uses for this literal replacement"""
    if not V.is_sym(s):
        return s.replace("\\", "/")
    return V.SSeq(V.uf("replace_92_47", V.seq_sort("char"), V.seq_sort("char"))(s.t), "char", "str")


@contract
class ReadName(Contract):
    """Names property body: the names of ALL members follow each other as zero-terminated UTF-16-LE strings; member k gets
    the k-th one (with `\\` mapped to `/`, the format's separator) - each name starts exactly where the previous one ended"""

    target = AI + "FilesInfo._read_name"
    props = ("C06", "C17", "C08", "C01")
    replayable = False

    def setup(self, c):
        files = c.reclist("files", {"emptystream": {"type": "bool"}, "filename": {"type": "str", "optional": True, "nullable": True}})
        self_ = c.obj("FilesInfo", "py7zr.archiveinfo", files=files, emptyfiles=c.bool_list("emptyfiles"), antifiles=None)
        return {"self_": self_, "buffer": c.instream("buffer")}

    def raises(self):
        return [RaiseSpec("UnicodeDecodeError")]

    def modifies(self, c, self_, buffer):
        return [(buffer, "pos"), (_files(c, self_), "cols")]

    @staticmethod
    def _name_k(c, rl, d, cuts, k):
        from contracts.primitives import ReadUtf16, MAX_UNITS
        from spec import utf16 as U16

        a, b = nth(cuts, k), nth(cuts, k + 1)
        term = ReadUtf16._term(d, a, b)
        return And(
            a <= b, b <= L(d), b <= a + 2 * MAX_UNITS,
            rl.defined("filename", k),
            Implies(term, eq(rl.val("filename", k), _repl(U16.decode(slice_(d, a, b - 2))))),
            Implies(Not(term), eq(rl.val("filename", k), _repl(U16.decode(slice_(d, a, b))))),
        )

    def ensures(self, c, old, result, self_, buffer):
        rl = c.rl(_files(c, self_))
        n = rl.n
        d, p = old.data(buffer), old.pos(buffer)
        cuts = c.ghost_seq("cutsNM", default=[p])
        return [
            ("one-name-per-member", And(L(cuts) == n + 1, nth(cuts, 0) == p, c.pos(buffer) == nth(cuts, n))),
            ("member-k-gets-the-kth-name", ForAll(lambda k: self._name_k(c, rl, d, cuts, k), guard=lambda k: And(k >= 0, k < n), over=cuts, trigger=False)),
            ("frame-data", eq(c.data(buffer), d)),
        ]

    def loops(self):
        def inv(c, Lp):
            b = c.bound
            rl = c.rl(_files(c, b["self_"]))
            d = c.old.data(b["buffer"])
            cuts = c.eng.ghost["cutsNM"]
            i = Lp.i
            return [
                ("cuts", And(L(cuts) == i + 1, nth(cuts, 0) == c.old.pos(b["buffer"]), nth(cuts, i) == c.pos(b["buffer"]))),
                ("names-so-far", ForAll(lambda k: self._name_k(c, rl, d, cuts, k), guard=lambda k: And(k >= 0, k < i), over=cuts, trigger=False, cases=lambda k: [k < i - 1, k >= i - 1])),
                ("frame-data", eq(c.data(b["buffer"]), d)),
            ]

        def init(c, Lp):
            c.eng.ghost["cutsNM"] = V.to_seq([c.pos(c.bound["buffer"])], "int", "list")
            return []

        def gstep(c, Lp):
            c.eng.ghost["cutsNM"] = snoc(c.eng.ghost["cutsNM"], c.pos(c.bound["buffer"]))

        return {"archiveinfo:FilesInfo._read_name#loop0": LoopSpec("for-f", inv, target="f in self.files", unfold_init=init, ghost_step=gstep, ghosts=["cutsNM"])}
