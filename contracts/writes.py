"""SevenZipFile.writestr / writef / _writestr / _writef / write (py7zr/py7zr.py): argument gates and strong
exception safety of rejected calls - C15, C16.  Abstract mode."""
try:
    import z3
except Exception:
    z3 = None
import ast as _ast

from pyvc.contract import Contract, ForAll, LoopSpec, RaiseSpec, contract
from pyvc.values import And, Implies, Not, Or, eq, SBool, SInt, SOpq, truthy
from pyvc import values as V

PY = "py7zr.py7zr:"
MUTATORS = ("append", "archive", "register_filelike")


def mutations(eng):
    return [e for e in eng.trace if e.kind in ("call", "contract-call") and str(e.name).split(".")[-1] in MUTATORS]


class _Gate(Contract):
    abstract = True
    self_class = ("py7zr.py7zr", "SevenZipFile")
    opaque = ("helpers:check_archive_path",)  # its own contract: contracts/paths.py (C16); here a pure predicate of the name
    pure = ("check_archive_path", "str")
    track_raises = True
    inner = None

    def raises(self):
        return [RaiseSpec("ValueError"), RaiseSpec("Exception")]

    def xensures(self, c, old, exc, **b):
        eng = c.eng
        out = []
        explicit = isinstance(exc.node, _ast.Raise)
        if explicit:
            # a rejection by this method itself happens before any state change (and before delegating to the writer)
            inner = [e for e in eng.trace if e.kind in ("call", "contract-call") and str(e.name).endswith(self.inner)]
            out.append(("rejected-before-any-state-change", len(mutations(eng)) == 0 and len(inner) == 0, ("C15", "C16")))
        if exc.cls == "ValueError" and explicit:
            checks = [e for e in eng.trace if e.kind == "pure" and e.name.endswith("check_archive_path")]
            out.append(("rejects-only-bad-names", Or(*[Not(truthy(e.result)) for e in checks]) if checks else True, ("C16",)))
        return out

    def ensures(self, c, old, result, **b):
        eng = c.eng
        if eng.ctx_mode == "assume":
            return []
        checks = [e for e in eng.trace if e.kind == "pure" and e.name.endswith("check_archive_path")]
        inner = [e for e in eng.trace if e.kind in ("call", "contract-call") and str(e.name).endswith(self.inner)]
        return [
            ("name-checked-against-the-given-arcname", bool(checks) and eq(checks[0].args[0], b["arcname"]), ("C16",)),
            ("accepted-only-when-check-passed", And(*[truthy(e.result) for e in checks]) if checks else False, ("C16",)),
            ("delegates-once", len(inner) == 1, ("C15",)),
        ]


@contract
class WriteStr(_Gate):
    target = PY + "SevenZipFile.writestr"
    props = ("C16", "C15")
    inner = "_writestr"

    def setup(self, c):
        return {"self_": c.opq("self"), "data": c.opq("data"), "arcname": c.opq("arcname")}


@contract
class WriteF(_Gate):
    target = PY + "SevenZipFile.writef"
    props = ("C16", "C15")
    inner = "_writef"

    def setup(self, c):
        return {"self_": c.opq("self"), "bio": c.opq("bio"), "arcname": c.opq("arcname")}


class _Reject(Contract):
    """type rejections (explicit raise statements) happen before any state change"""

    abstract = True
    self_class = ("py7zr.py7zr", "SevenZipFile")
    track_raises = True
    opaque = ("py7zr:SevenZipFile._make_file_info_from_name",)  # its own contract: MakeFileInfoFromName below; here an unknown callee
    pure = ("str", "encode", "bytes")
    stable_attrs = ("header", "files_info", "files", "emptyfiles", "worker", "fp")

    def raises(self):
        return [RaiseSpec("Exception")]

    def xensures(self, c, old, exc, **b):
        out = []
        if isinstance(exc.node, _ast.Raise):
            out.append(("rejected-before-any-state-change", len(mutations(c.eng)) == 0, ("C15",)))
        return out


@contract
class WriteStrInner(_Reject):
    target = PY + "SevenZipFile._writestr"
    props = ("C15",)

    def setup(self, c):
        return {"self_": c.opq("self"), "data": c.opq("data"), "arcname": c.opq("arcname")}


@contract
class WriteFInner(_Reject):
    """_writef: unsupported stream types are rejected before anything is registered; a registered member is appended to
    all three member lists and handed to the worker exactly once"""

    target = PY + "SevenZipFile._writef"
    props = ("C15", "C08")
    frame_preserving = ("tell", "seek", "getbuffer", "__sizeof__")

    def setup(self, c):
        return {"self_": c.opq("self"), "bio": c.opq("bio"), "arcname": c.opq("arcname")}

    def ensures(self, c, old, result, **b):
        eng = c.eng
        if eng.ctx_mode == "assume":
            return []
        apps = [e for e in eng.trace if e.kind == "call" and e.name == "append"]
        arch = [e for e in eng.trace if e.kind == "call" and e.name == "archive"]
        same = len(apps) == 3 and apps[0].args[0] is apps[2].args[0]
        return [("member-registered-in-all-three-lists", bool(same), ("C15", "C08")), ("archived-at-most-once-after-registration", len(arch) <= 1 and (not arch or eng.trace.index(arch[0]) > eng.trace.index(apps[-1])), ("C15",))]


@contract
class WriteFile(_Reject):
    """write(): any exception raised before the member is archived must leave the member lists unchanged.
    Known finding F06: the member is registered BEFORE Worker.archive opens the source."""

    target = PY + "SevenZipFile.write"
    props = ("C15",)
    pure = ("str", "isinstance")
    noraise = ("append",)  # list.append / ArchiveFileList.append do not raise
    opaque = ("py7zr:SevenZipFile._sanitize_archive_arcname",)  # its own contract: contracts/paths.py (C16)

    def setup(self, c):
        return {"self_": c.opq("self"), "file": c.opq("file"), "arcname": c.opq("arcname")}

    def xensures(self, c, old, exc, **b):
        eng = c.eng
        out = list(_Reject.xensures(self, c, old, exc, **b))
        if not isinstance(exc.node, _ast.Raise):
            muts = mutations(eng)
            from_archive = bool(eng.trace) and eng.trace[-1].kind == "raise-from" and eng.trace[-1].name == "archive"
            if from_archive:
                # the source could not be opened/read inside Worker.archive: the member is already in all three lists
                out.append(("F06:failed-source-leaves-member-lists-unchanged", len([m for m in muts if m.name == "append"]) == 0, ("C15",), {"kind": "finding"}))
            else:
                out.append(("failed-call-leaves-member-lists-unchanged", len(muts) == 0, ("C15",)))
        return out


@contract
class MakeFileInfoFromName(Contract):
    """members added by writestr()/writef() always occupy a substream (Worker.archive compresses their data whatever
    its length), so they are never marked as empty streams - also when the data has length zero"""

    target = PY + "SevenZipFile._make_file_info_from_name"
    props = ("C01", "C15", "C08")
    abstract = True
    pure = ("pathlib.Path", "Path", "as_posix", "from_now", "getattr")
    noraise = ("pathlib.Path", "Path", "as_posix", "from_now", "getattr")
    frame_preserving = ("pathlib.Path", "Path", "as_posix", "from_now", "getattr")

    def setup(self, c):
        return {"self_": c.opq("self"), "bio": c.opq("bio"), "size": c.int("size"), "arcname": c.opq("arcname")}

    def raises(self):
        return [RaiseSpec("Exception")]

    def ensures(self, c, old, result, **b):
        eng = c.eng
        if eng.ctx_mode == "assume":
            return []
        from pyvc.engine import Ref

        ok = isinstance(result, Ref) and eng.kind(result) == "dict"
        items = eng.get_field(result, "items") if ok else {}
        es = items.get("emptystream", "missing")
        return [
            ("returns-a-record", bool(ok)),
            ("never-an-empty-stream", bool(es is False)),
            ("size-recorded", bool(items.get("uncompressed") is b["size"])),
            ("data-kept", bool(items.get("data") is b["bio"] and items.get("origin", 0) is None)),
        ]
