"""Round-trip lemmas over the reader/writer primitive contracts (C17): formulas over contracts only."""
from pyvc.contract import Lemma, lemma, REGISTRY
from pyvc.lemmas import Snap, assume_ensures
from pyvc.values import And, Implies, Not, L, nth, eq, slice_, ite, ceil8
from spec import primitives as SP

AI = "py7zr.archiveinfo:"


def _ct(name):
    return REGISTRY.contract_for(AI + name)


@lemma
class NumberRoundTrip(Lemma):
    name = "C17/number"
    props = ("C17", "C07", "C08")

    def statements(self):
        def build(c):
            # any bytes e the writer may emit for v (its contract), followed by anything, are read back as v
            o0, e, rest = c.bytes("o0"), c.bytes("e"), c.bytes("rest")
            v = c.int("v")
            c.assume(And(v >= 0, v < (1 << 64)))
            f = "file"
            old_w = Snap({f: {"out": o0}}, c)
            new_w = Snap({f: {"out": o0 + e}}, c)
            assume_ensures(c, _ct("write_uint64"), old_w, new_w, None, file=f, value=v)
            d = o0 + e + rest
            p = L(o0)
            # reader contract on stream (d, p): result / new position as the contract states them
            res, p1 = c.int("res"), c.int("p1")
            old_r = Snap({f: {"data": d, "pos": p}}, c)
            new_r = Snap({f: {"data": d, "pos": p1}}, c)
            for k in range(9):
                nth(d, p + k), nth(o0 + e, p + k)
            c.assume(And(*[Implies(k < L(e), nth(d, p + k) == nth(o0 + e, p + k)) for k in range(9)]))
            assume_ensures(c, _ct("read_uint64"), old_r, new_r, res, file=f)
            return And(res == v, p1 == p + L(e))

        return [("roundtrip", build)]


@lemma
class NumberLocated(Lemma):
    """the NUMBER found at offset p of x ++ y ++ z, when it lies inside y, is the NUMBER of y at offset p - |x|
    (proved from the definition of number_len / number_value; justifies the instances that spec.primitives._locate
    adds for the opaque functions NL / NV)"""

    name = "C17/number-located"
    props = ("C17", "C07", "C08", "C06")

    def statements(self):
        def build_len(c):
            x, y, z = c.bytes("x"), c.bytes("y"), c.bytes("z")
            p = c.int("p")
            d = x + y + z
            rel = p - L(x)
            c.assume(And(rel >= 0, rel < L(y)))
            return SP.number_len(d, p) == SP.number_len(y, rel)

        def build_val(c):
            x, y, z = c.bytes("x"), c.bytes("y"), c.bytes("z")
            p = c.int("p")
            d = x + y + z
            rel = p - L(x)
            c.assume(And(rel >= 0, rel < L(y), rel + SP.number_len(d, p) <= L(y)))
            for k in range(9):
                nth(d, p + k), nth(y, rel + k)
            c.assume(And(*[Implies(rel + k < L(y), nth(d, p + k) == nth(y, rel + k)) for k in range(9)]))
            return SP.number_value(d, p) == SP.number_value(y, rel)

        def build_frame(c):
            # the hypothesis used by build_val: element k of y is element |x| + k of x ++ y ++ z
            x, y, z = c.bytes("x"), c.bytes("y"), c.bytes("z")
            k = c.int("k")
            c.assume(And(k >= 0, k < L(y)))
            return nth(x + y + z, L(x) + k) == nth(y, k)

        return [("length", build_len), ("value", build_val), ("element-frame", build_frame)]
