"""helpers.check_archive_path / remove_trailing_slash (C16, C09, C10)."""
try:
    import z3
except Exception:
    z3 = None

from pyvc.contract import Contract, ForAll, LoopSpec, RaiseSpec, contract
from pyvc.values import And, Implies, Not, Or, L, ite, nth, slice_, eq, SBool, SInt, SSeq
from pyvc import values as V

H = "py7zr.helpers:"


def _parts_of(c, arcname):
    """(parts, is_absolute) of pathlib.Path(arcname): pathlib's parser is an assumed contract"""
    if getattr(c, "concrete", False):
        import pathlib

        p = pathlib.PurePosixPath(arcname)
        return list(p.parts), p.is_absolute()
    from pyvc.builtins_model import path_parts_fn, path_abs_fn

    ss = V.to_seq(arcname)
    return SSeq(path_parts_fn()(ss.t), "str", "tuple"), SBool(path_abs_fn()(ss.t))


def DEPTH(c, parts, i):
    """lexical depth below the virtual archive root after the first i components ('..' climbs, anything else descends)"""
    if getattr(c, "concrete", False):
        d = 0
        for p in parts[:max(i, 0)]:
            d += -1 if p == ".." else 1
        return d
    return SInt(V.uf("lexical_depth", z3.IntSort(), z3.IntSort())(V._zi(i)))


def depth_unfold(c, parts, i):
    return DEPTH(c, parts, i + 1) == DEPTH(c, parts, i) + ite(eq(nth(parts, i), ".."), -1, 1)


@contract
class CheckArchivePath(Contract):
    """verdict == the independent definition of C16: resolve '..' lexically against a virtual root;
    reject iff the name is absolute or the depth goes negative at some prefix"""

    target = H + "check_archive_path"
    props = ("C16", "C15")
    model_pathlib = True
    assumptions = ("pathlib.Path(s).parts / .is_absolute() are functions of the string s (pathlib's parser is trusted; parts contain no '' and no '.')",)

    def setup(self, c):
        return {"arcname": c.str("arcname")}

    def fresh_result(self, c, arcname):
        return c.bool("accepted")

    def ensures(self, c, old, result, arcname):
        parts, isabs = _parts_of(c, arcname)
        n = L(parts)
        out = [
            ("accepted-names-never-climb-above-root", ForAll(lambda i: DEPTH(c, parts, i) >= 0, guard=lambda i: And(result, i >= 0, i <= n), n=n + 1)),
            ("accepted-names-are-relative", Implies(result, Not(isabs))),
        ]
        if getattr(c, "concrete", False):
            bad = isabs or any(DEPTH(c, parts, i) < 0 for i in range(n + 1))
            out.append(("rejected-names-are-absolute-or-climb", Implies(Not(result), bad)))
        else:
            eng = c.eng
            if eng.ctx_mode == "assume":
                w = eng.fresh_int("climb_witness")
            else:
                Lp = eng.ghost.get("loop")
                w = (Lp.i + 1) if Lp is not None and eng.ghost.get("in_body") else 0
            out.append(("rejected-names-are-absolute-or-climb", Implies(Not(result), Or(isabs, And(w >= 0, w <= n, DEPTH(c, parts, w) < 0)))))
        return out

    def loops(self):
        def inv(c, Lp):
            parts, _ = _parts_of(c, c.bound["arcname"])
            i = Lp.i
            d = Lp.local("depth")
            c.eng.ghost["in_body"] = False
            return [("depth", d == DEPTH(c, parts, i)), ("never-negative-so-far", ForAll(lambda k: DEPTH(c, parts, k) >= 0, guard=lambda k: And(k >= 0, k <= i), n=i + 1))]

        def init(c, Lp):
            parts, _ = _parts_of(c, c.bound["arcname"])
            return [DEPTH(c, parts, 0) == 0]

        def step(c, Lp):
            parts, _ = _parts_of(c, c.bound["arcname"])
            c.eng.ghost["loop"] = Lp
            c.eng.ghost["in_body"] = True
            return [depth_unfold(c, parts, Lp.i)]

        return {"helpers:check_archive_path#loop0": LoopSpec("for-part", inv, target="part in path.parts", unfold_init=init, unfold_step=step)}


@contract
class RemoveTrailingSlash(Contract):
    """strips exactly one trailing '/' (so a trailing slash on a target / queried name is immaterial)"""

    target = H + "remove_trailing_slash"
    props = ("C09", "C10")

    def setup(self, c):
        return {"path": c.str("path")}

    def fresh_result(self, c, path):
        return c.str("stripped")

    def ensures(self, c, old, result, path):
        n = L(path)
        ends = And(n >= 1, nth(path, n - 1) == 47) if V.is_sym(path) else path.endswith("/")
        return [("one-slash-removed", Implies(ends, eq(result, slice_(path, 0, n - 1)))), ("otherwise-unchanged", Implies(Not(ends), eq(result, path)))]


@contract
class SanitizeArcname(Contract):
    """write()/writeall() store absolute source paths as relative names: leading separators and one drive prefix are
    removed; the result never starts with '/' nor with a drive prefix; AbsolutePathError only when a drive-like
    prefix remains after stripping"""

    target = "py7zr.py7zr:SevenZipFile._sanitize_archive_arcname"
    props = ("C16",)
    assumptions = ("str.lstrip(chars): the result is a suffix of the string that does not start with one of chars (assumed contract); re.match('^[a-zA-Z]:') as documented; platform POSIX (os.sep == '/')",)

    def setup(self, c):
        self_ = c.obj("SevenZipFile", "py7zr.py7zr", mode="w")
        return {"self_": self_, "arcname": c.str("arcname")}

    @staticmethod
    def _drive(s):
        if not V.is_sym(s):
            import re

            return re.match("^[a-zA-Z]:", s) is not None
        from pyvc.builtins_model import _is_alpha

        return And(L(s) >= 2, _is_alpha(nth(s, 0)), nth(s, 1) == 58)

    @staticmethod
    def _lead(s):
        if not V.is_sym(s):
            return s.startswith("/")
        return And(L(s) >= 1, nth(s, 0) == 47)

    def raises(self):
        return [RaiseSpec("AbsolutePathError")]

    def fresh_result(self, c, self_, arcname):
        return c.str("relative_name")

    def ensures(self, c, old, result, self_, arcname):
        if getattr(c, "concrete", False):
            tail_ok = arcname.endswith(result)
        else:
            import z3 as _z

            tail_ok = SBool(_z.SuffixOf(V.to_seq(result).t, V.to_seq(arcname).t))
        return [
            ("no-leading-separator", Not(self._lead(result))),
            ("no-drive-prefix", Not(self._drive(result))),
            ("rest-of-the-name-kept", tail_ok),
        ]

    def xensures(self, c, old, exc, self_, arcname):
        # raising is only acceptable for names that are still drive-like after stripping: a name consisting of
        # separators, an optional single drive prefix, separators and an ordinary relative rest must be stored
        if getattr(c, "concrete", False):
            import re

            s = arcname.lstrip("/")
            if re.match("^[a-zA-Z]:", s):
                s = s[2:].lstrip("/")
            return [("raises-only-for-nested-drive-prefix", re.match("^[a-zA-Z]:", s) is not None)]
        p = c.eng.top_env.get("path")
        return [("raises-only-for-nested-drive-prefix", self._drive(p) if p is not None else False)]

    def hooks(self):
        def on_assign(c, ev):
            pass

        return {}
