"""helpers.check_archive_path / remove_trailing_slash (C16, C09, C10)."""
try:
    import z3
except Exception:
    z3 = None

from pyvc.contract import Contract, ForAll, LoopSpec, RaiseSpec, contract
from pyvc.values import And, Implies, Not, Or, L, ite, nth, slice_, eq, SBool, SInt, SSeq
from pyvc import values as V

H = "py7zr.helpers:"


def _parts_of(c, arcname):
    """(parts, is_absolute) of pathlib.Path(arcname): pathlib's parser is an assumed contract"""
    if getattr(c, "concrete", False):
        import pathlib

        p = pathlib.PurePosixPath(arcname)
        return list(p.parts), p.is_absolute()
    from pyvc.builtins_model import path_parts_fn, path_abs_fn

    ss = V.to_seq(arcname)
    return SSeq(path_parts_fn()(ss.t), "str", "tuple"), SBool(path_abs_fn()(ss.t))


def DEPTH(c, parts, i):
    """lexical depth below the virtual archive root after the first i components ('..' climbs, anything else descends)"""
    if getattr(c, "concrete", False):
        d = 0
        for p in parts[:max(i, 0)]:
            d += -1 if p == ".." else 1
        return d
    return SInt(V.uf("lexical_depth", z3.IntSort(), z3.IntSort())(V._zi(i)))


def depth_unfold(c, parts, i):
    return DEPTH(c, parts, i + 1) == DEPTH(c, parts, i) + ite(eq(nth(parts, i), ".."), -1, 1)


@contract
class CheckArchivePath(Contract):
    """verdict == the independent definition of C16: resolve '..' lexically against a virtual root;
    reject iff the name is absolute or the depth goes negative at some prefix"""

    target = H + "check_archive_path"
    props = ("C16", "C15")
    model_pathlib = True
    assumptions = ("pathlib.Path(s).parts / .is_absolute() are functions of the string s (pathlib's parser is trusted; parts contain no '' and no '.')",)

    def setup(self, c):
        return {"arcname": c.str("arcname")}

    def fresh_result(self, c, arcname):
        return c.bool("accepted")

    def ensures(self, c, old, result, arcname):
        parts, isabs = _parts_of(c, arcname)
        n = L(parts)
        out = [
            ("accepted-names-never-climb-above-root", ForAll(lambda i: DEPTH(c, parts, i) >= 0, guard=lambda i: And(result, i >= 0, i <= n), n=n + 1)),
            ("accepted-names-are-relative", Implies(result, Not(isabs))),
        ]
        if getattr(c, "concrete", False):
            bad = isabs or any(DEPTH(c, parts, i) < 0 for i in range(n + 1))
            out.append(("rejected-names-are-absolute-or-climb", Implies(Not(result), bad)))
        else:
            eng = c.eng
            if eng.ctx_mode == "assume":
                w = eng.fresh_int("climb_witness")
            else:
                Lp = eng.ghost.get("loop")
                w = (Lp.i + 1) if Lp is not None and eng.ghost.get("in_body") else 0
            out.append(("rejected-names-are-absolute-or-climb", Implies(Not(result), Or(isabs, And(w >= 0, w <= n, DEPTH(c, parts, w) < 0)))))
        return out

    def loops(self):
        def inv(c, Lp):
            parts, _ = _parts_of(c, c.bound["arcname"])
            i = Lp.i
            d = Lp.local("depth")
            c.eng.ghost["in_body"] = False
            return [("depth", d == DEPTH(c, parts, i)), ("never-negative-so-far", ForAll(lambda k: DEPTH(c, parts, k) >= 0, guard=lambda k: And(k >= 0, k <= i), n=i + 1))]

        def init(c, Lp):
            parts, _ = _parts_of(c, c.bound["arcname"])
            return [DEPTH(c, parts, 0) == 0]

        def step(c, Lp):
            parts, _ = _parts_of(c, c.bound["arcname"])
            c.eng.ghost["loop"] = Lp
            c.eng.ghost["in_body"] = True
            return [depth_unfold(c, parts, Lp.i)]

        return {"helpers:check_archive_path#loop0": LoopSpec("for-part", inv, target="part in path.parts", unfold_init=init, unfold_step=step)}


@contract
class RemoveTrailingSlash(Contract):
    """strips exactly one trailing '/' (so a trailing slash on a target / queried name is immaterial)"""

    target = H + "remove_trailing_slash"
    props = ("C09", "C10")

    def setup(self, c):
        return {"path": c.str("path")}

    def fresh_result(self, c, path):
        return c.str("stripped")

    def ensures(self, c, old, result, path):
        n = L(path)
        ends = And(n >= 1, nth(path, n - 1) == 47) if V.is_sym(path) else path.endswith("/")
        return [("one-slash-removed", Implies(ends, eq(result, slice_(path, 0, n - 1)))), ("otherwise-unchanged", Implies(Not(ends), eq(result, path)))]


@contract
class SanitizeArcname(Contract):
    """write()/writeall() store absolute source paths as relative names: leading separators and one drive prefix are
    removed; the result never starts with '/' nor with a drive prefix; AbsolutePathError only when a drive-like
    prefix remains after stripping"""

    target = "py7zr.py7zr:SevenZipFile._sanitize_archive_arcname"
    props = ("C16",)
    assumptions = ("str.lstrip(chars): the result is a suffix of the string that does not start with one of chars (assumed contract); re.match('^[a-zA-Z]:') as documented; platform POSIX (os.sep == '/')",)

    def setup(self, c):
        self_ = c.obj("SevenZipFile", "py7zr.py7zr", mode="w")
        return {"self_": self_, "arcname": c.str("arcname")}

    @staticmethod
    def _drive(s):
        if not V.is_sym(s):
            import re

            return re.match("^[a-zA-Z]:", s) is not None
        from pyvc.builtins_model import _is_alpha

        return And(L(s) >= 2, _is_alpha(nth(s, 0)), nth(s, 1) == 58)

    @staticmethod
    def _lead(s):
        if not V.is_sym(s):
            return s.startswith("/")
        return And(L(s) >= 1, nth(s, 0) == 47)

    def raises(self):
        return [RaiseSpec("AbsolutePathError")]

    def fresh_result(self, c, self_, arcname):
        return c.str("relative_name")

    def ensures(self, c, old, result, self_, arcname):
        if getattr(c, "concrete", False):
            tail_ok = arcname.endswith(result)
        else:
            import z3 as _z

            tail_ok = SBool(_z.SuffixOf(V.to_seq(result).t, V.to_seq(arcname).t))
        return [
            ("no-leading-separator", Not(self._lead(result))),
            ("no-drive-prefix", Not(self._drive(result))),
            ("rest-of-the-name-kept", tail_ok),
        ]

    def xensures(self, c, old, exc, self_, arcname):
        # raising is only acceptable for names that are still drive-like after stripping: a name consisting of
        # separators, an optional single drive prefix, separators and an ordinary relative rest must be stored
        if getattr(c, "concrete", False):
            import re

            s = arcname.lstrip("/")
            if re.match("^[a-zA-Z]:", s):
                s = s[2:].lstrip("/")
            return [("raises-only-for-nested-drive-prefix", re.match("^[a-zA-Z]:", s) is not None)]
        p = c.eng.top_env.get("path")
        return [("raises-only-for-nested-drive-prefix", self._drive(p) if p is not None else False)]

    def hooks(self):
        def on_assign(c, ev):
            pass

        return {}


# ------------------------------------------------------------------------------------------------ C03: lexical containment
def parts_of(c, p):
    """parts of a pathlib path value (symbolic: heap cell; concrete: real PurePath)"""
    if getattr(c, "concrete", False):
        return list(p.parts)
    return c.eng.heap[p.id]["parts"]


def mk_path(c, name, absolute=None):
    from pyvc.builtins_model import new_path

    parts = c.eng.fresh_seq(name + ".parts", "str", "tuple")
    p = new_path(c.eng, parts, parsed=True)
    if absolute is True:
        c.assume(c.eng.heap[p.id]["absolute"])
    return p


def no_dotdot(parts, frm=0):
    return ForAll(lambda k: Not(eq(nth(parts, k), "..")), guard=lambda k: And(k >= frm, k < L(parts)), over=parts if V.is_sym(parts) else None, n=L(parts))


def nodd(c, parts):
    """NODD(parts): no component is '..' (uninterpreted predicate + its two defining facts, instantiated on demand)"""
    if not V.is_sym(parts):
        return all(p != ".." for p in parts)
    eng = c.eng
    r = SBool(V.uf("no_dotdot", V.seq_sort("str"), z3.BoolSort())(parts.t))
    key = ("nodd", parts.t.get_id())
    if key not in eng._inst_seen:
        eng._inst_seen.add(key)
        eng._keep.append(parts)
        eng.register_forall(ForAll(lambda k: Not(eq(nth(parts, k), "..")), guard=lambda k: And(r, k >= 0, k < L(parts)), over=parts))
        w = SInt(V.uf("dotdot_witness", V.seq_sort("str"), z3.IntSort())(parts.t))
        eng.assume(Implies(Not(r), And(w >= 0, w < L(parts), eq(nth(parts, w), ".."))))
        eng.add_index_term(w)
    return r


@contract
class CanonicalPath(Contract):
    """for an absolute path the result is absolute and contains no '..' component (so lexical prefix tests mean containment)"""

    target = H + "canonical_path"
    props = ("C03", "C16")
    model_pathlib = True
    replayable = False
    assumptions = ("pathlib (PurePosixPath): parts / is_absolute / joinpath / relative_to / Path(*parts) as documented; roots only at index 0",)

    def setup(self, c):
        return {"target": mk_path(c, "target")}

    def fresh_result(self, c, target):
        return mk_path(c, "canonical")

    def ensures(self, c, old, result, target):
        tp = parts_of(c, target)
        rp = parts_of(c, result)
        # single-slash root; for the POSIX '//' anchor canonical_path may pop the anchor itself ('//a/../..' -> '.'),
        # which only makes the later containment test fail (safe direction) - see DESIGN.md
        isabs = And(L(tp) >= 1, eq(nth(tp, 0), "/"))
        return [
            ("absolute-stays-absolute", Implies(isabs, And(L(rp) >= 1, eq(nth(rp, 0), nth(tp, 0))))),
            ("absolute-result-has-no-dotdot", ForAll(lambda k: Not(eq(nth(rp, k), "..")), guard=lambda k: And(isabs, k >= 0, k < L(rp)), over=rp)),
            ("never-longer-than-the-input", L(rp) <= L(tp)),
            ("identity-on-paths-without-dotdot", Implies(nodd(c, tp), eq(rp, tp))),
            ("a-root-in-front-is-the-inputs-root", Implies(And(L(rp) >= 1, Or(eq(nth(rp, 0), "/"), eq(nth(rp, 0), "//"))), And(L(tp) >= 1, eq(nth(rp, 0), nth(tp, 0))))),
        ]

    def loops(self):
        def inv(c, Lp):
            tp = parts_of(c, c.bound["target"])
            st = Lp.local("stack")
            i = Lp.i
            isabs = And(L(tp) >= 1, eq(nth(tp, 0), "/"))
            return [
                ("length", And(L(st) <= i, Implies(And(isabs, i >= 1), L(st) >= 1))),
                ("root-kept", Implies(And(isabs, i >= 1), eq(nth(st, 0), nth(tp, 0)))),
                ("no-dotdot-when-absolute", ForAll(lambda k: Not(eq(nth(st, k), "..")), guard=lambda k: And(isabs, k >= 0, k < L(st)), over=st)),
                ("no-inner-root", ForAll(lambda k: Not(Or(eq(nth(st, k), "/"), eq(nth(st, k), "//"))), guard=lambda k: And(k >= 1, k < L(st)), over=st)),
                ("copied-so-far-without-dotdot", Implies(nodd(c, tp), eq(st, slice_(tp, 0, i)))),
                ("front-root-comes-from-the-input", Implies(And(L(st) >= 1, Or(eq(nth(st, 0), "/"), eq(nth(st, 0), "//"))), And(L(tp) >= 1, eq(nth(st, 0), nth(tp, 0))))),
            ]

        return {"helpers:canonical_path#loop0": LoopSpec("for-p", inv, cells={"stack": "str"})}  # anchored by the local `stack` and the loop index only


def _canon_results(c):
    return [e.result for e in c.eng.trace if e.kind == "contract-call" and e.name.endswith("canonical_path")]


def prefix(a, b):
    """a is a (lexical) prefix of b"""
    if not V.is_sym(a) and not V.is_sym(b):
        return list(b[: len(a)]) == list(a)
    import z3 as _z

    return SBool(_z.PrefixOf(V.to_seq(a, elem="str").t, V.to_seq(b, elem="str").t))


@contract
class IsRelativeTo(Contract):
    """True exactly when the canonical form of `other` is a lexical prefix of `my`"""

    target = H + "is_relative_to"
    props = ("C03", "C16")
    model_pathlib = True
    replayable = False

    def setup(self, c):
        return {"my": mk_path(c, "my"), "other": (mk_path(c, "other"),)}

    def call_args(self, b):
        return [b["my"]] + list(b["other"]), {}

    def bind(self, ctx, args, kwargs):
        return {"my": args[0], "other": tuple(args[1:])}

    def fresh_result(self, c, my, other):
        return c.bool("relative")

    def ensures(self, c, old, result, my, other):
        eng = c.eng
        if eng.ctx_mode == "assume":
            base = mk_path(c, "canon_other")
            for item in CanonicalPath().ensures(c, old, base, other[0]):
                eng.assume_item(item[1])
            eng.ghost["last_base"] = base
        else:
            rs = _canon_results(c)
            base = rs[-1] if rs else None
        if base is None:
            return [("canonicalises-the-base", False)]
        return [("true-iff-canonical-base-is-a-prefix", result == prefix(parts_of(c, base), parts_of(c, my)))]


@contract
class IsPathValid(Contract):
    """True exactly when the canonical target lies lexically inside the canonical parent
    (a relative parent is taken relative to the current directory)"""

    target = H + "is_path_valid"
    props = ("C03",)
    model_pathlib = True
    replayable = False

    def setup(self, c):
        return {"target": mk_path(c, "target"), "parent": mk_path(c, "parent")}

    def fresh_result(self, c, target, parent):
        return c.bool("valid")

    def ensures(self, c, old, result, target, parent):
        eng = c.eng
        if eng.ctx_mode == "assume":
            return []
        calls = [e for e in eng.trace if e.kind == "contract-call" and e.name.endswith("is_relative_to")]
        canon = [e for e in eng.trace if e.kind == "contract-call" and e.name.endswith("canonical_path")]
        ok = len(calls) == 1 and len(canon) == 1
        out = [("one-containment-test", bool(ok))]
        if ok:
            e = calls[0]
            pabs = eng.heap[parent.id]["absolute"]
            base = e.args[1]
            bp = parts_of(c, base)
            pp = parts_of(c, parent)
            cwd = eng.ghost.get("cwd")
            out.append(("tests-the-canonical-target", bool(e.args[0] is canon[0].result and canon[0].args[0] is target)))
            out.append(("against-the-parent-itself-when-absolute", Implies(pabs, eq(bp, pp))))
            if cwd is not None:
                out.append(("against-cwd-joined-with-a-relative-parent", Implies(Not(pabs), eq(bp, V.SSeq(__import__("z3").Concat(parts_of(c, cwd).t, pp.t), "str", "tuple")))))
            else:
                out.append(("against-cwd-joined-with-a-relative-parent", Implies(Not(pabs), False)))
            out.append(("verdict-is-that-test", result == e.result))
        return out


@contract
class GetSanitizedOutputPath(Contract):
    """returns a path only if it is lexically inside the (canonical) destination and free of '..'; else Bad7zFile"""

    target = H + "get_sanitized_output_path"
    props = ("C03",)
    model_pathlib = True
    replayable = False
    inline = ("helpers:remove_relative_path_marker",)

    def setup(self, c):
        if c.choice(2) == 0:
            return {"fname": c.str("fname"), "path": None}
        return {"fname": c.str("fname"), "path": mk_path(c, "path", absolute=True)}

    def raises(self):
        return [RaiseSpec("Bad7zFile")]

    def fresh_result(self, c, fname, path):
        return mk_path(c, "outpath")

    def ensures(self, c, old, result, fname, path):
        eng = c.eng
        rp = parts_of(c, result)
        if path is None:
            # no destination given: the result is taken relative to the current directory - never absolute, no '..'
            return [
                ("relative-when-no-destination", Not(And(L(rp) >= 1, Or(eq(nth(rp, 0), "/"), eq(nth(rp, 0), "//"))))),
                ("no-dotdot-left", ForAll(lambda k: Not(eq(nth(rp, k), "..")), guard=lambda k: And(k >= 0, k < L(rp)), over=rp)),
            ]
        if eng.ctx_mode == "assume":
            base = mk_path(c, "canon_dest")
            for item in CanonicalPath().ensures(c, old, base, path):
                eng.assume_item(item[1])
        else:
            rel = [e for e in eng.trace if e.kind == "contract-call" and e.name.endswith("is_relative_to")]
            base = eng.ghost.get("last_base")
            if not rel or base is None:
                return [("containment-tested", False)]
        bp = parts_of(c, base)
        pp = parts_of(c, path)
        return [
            ("inside-the-canonical-destination", prefix(bp, rp)),
            ("no-dotdot-left", ForAll(lambda k: Not(eq(nth(rp, k), "..")), guard=lambda k: And(eq(nth(pp, 0), "/"), k >= 0, k < L(rp)), over=rp)),
        ]
