"""CRC-32 as an assumed contract (DESIGN.md 6.4): an uninterpreted function crc(data, init) with
 - range 0..2^32-1, crc(empty, i) = i mod 2^32
 - the streaming homomorphism  crc(a ++ b, i) = crc(b, crc(a, i))   (instantiated where needed)
Concretely it IS zlib.crc32."""
from pyvc import values as V
from pyvc.values import is_sym, SInt, SBool


def crc(data, init=0):
    if not is_sym(data) and not is_sym(init):
        import zlib

        return zlib.crc32(bytes(data), init) & 0xFFFFFFFF
    from pyvc.builtins_model import crc32

    return crc32(V.ENGINE, data, init)


def concat_axiom(a, b, init=0):
    """crc(a ++ b, i) == crc(b, crc(a, i))"""
    if not is_sym(a) and not is_sym(b) and not is_sym(init):
        return True
    ab = V.concat(a, b)
    return crc(ab, init) == crc(b, crc(a, init))
