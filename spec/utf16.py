"""UTF-16-LE codec as an assumed contract (DESIGN.md 6.3): an uninterpreted function with the facts
the proofs use stated explicitly; concretely it IS str.encode / bytes.decode."""
from pyvc import values as V
from pyvc.values import is_sym, SSeq, SBool


def _fn():
    import z3

    return V.uf("utf16_encode", V.seq_sort("char"), V.seq_sort("byte"))


def encode(s):
    if not is_sym(s):
        return s.encode("utf-16LE")
    return SSeq(_fn()(s.t), "byte", "bytes")


def concat_axiom(a, b):
    """encode(a ++ b) == encode(a) ++ encode(b)"""
    if not is_sym(a) and not is_sym(b):
        return True
    import z3

    a, b = V.to_seq(a), V.to_seq(b)
    f = _fn()
    return SBool(f(z3.Concat(a.t, b.t)) == z3.Concat(f(a.t), f(b.t)))


def empty_axiom():
    import z3

    f = _fn()
    e = z3.Empty(V.seq_sort("char"))
    return SBool(f(e) == z3.Empty(V.seq_sort("byte")))


def decode(b):
    """bytes.decode('utf-16LE')"""
    if not is_sym(b):
        return bytes(b).decode("utf-16LE")
    from pyvc.builtins_model import utf16_units_fn

    return SSeq(utf16_units_fn()(b.t), "char", "str")


def names_fold_fn():
    """E(names) = concatenation over the list of  encode(name) ++ 00 00   (uninterpreted fold; snoc instances are
    supplied where a list grows by one element)"""
    return V.uf("utf16_names", V.seq_sort("str"), V.seq_sort("byte"))


def names_bytes(names):
    if not is_sym(names):
        out = b""
        for n in names:
            out += n.encode("utf-16LE") + b"\x00\x00"
        return out
    return SSeq(names_fold_fn()(names.t), "byte", "bytes")


def names_snoc_axiom(names, x):
    """E(names ++ [x]) == E(names) ++ encode(x) ++ 00 00"""
    import z3

    names = V.to_seq(names, elem="str") if not isinstance(names, SSeq) else names
    x = V.to_seq(x)
    f = names_fold_fn()
    zz = V.to_seq(b"\x00\x00").t
    return SBool(f(z3.Concat(names.t, z3.Unit(x.t))) == z3.Concat(f(names.t), _fn()(x.t), zz))


def names_empty_axiom():
    import z3

    f = names_fold_fn()
    return SBool(f(z3.Empty(V.seq_sort("str"))) == z3.Empty(V.seq_sort("byte")))
