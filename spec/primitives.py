"""Spec functions for the 7z header primitives, transcribed from docs/archive_format.rst
("Data types", NUMBER table, BitField, BooleanList) - never from py7zr's code.

All functions are polymorphic: they run on plain Python values (replay, cross-check, the spec
decoders used as the 'decoder written directly from the specification') and on symbolic values.
"""
from pyvc.values import And, Implies, L, Not, Or, ite, nth, slice_, ceil8, is_sym  # noqa: F401


# NUMBER ---------------------------------------------------------------------------------------
# First_Byte  Extra_Bytes  Value
# 0xxxxxxx                 (0b0xxxxxxx)
# 10xxxxxx    y[1]         (0b00xxxxxx << 8)  + y
# 110xxxxx    y[2]         (0b000xxxxx << 16) + y
# ...
# 1111110x    y[6]         (0b0000000x << 48) + y
# 11111110    y[7]         y
# 11111111    y[8]         y
_PREFIX = [0x00, 0x80, 0xC0, 0xE0, 0xF0, 0xF8, 0xFC, 0xFE, 0xFF]  # first byte >= _PREFIX[n]  <=> at least n extra bytes


def number_extra(b0):
    """number of extra bytes announced by first byte b0 (0..255)"""
    r = 8
    for n in range(7, -1, -1):
        r = ite(b0 < _PREFIX[n + 1], n, r)
    return r


def le_value(data, p, n):
    """little-endian integer of the n bytes data[p:p+n] (n concrete)"""
    acc = 0
    for i in range(n):
        acc = acc + nth(data, p + i) * (1 << (8 * i))
    return acc


def number_value(data, p):
    """value of the NUMBER starting at data[p] (assumes the announced bytes are present)"""
    b0 = nth(data, p)
    r = le_value(data, p + 1, 8)
    for n in range(7, -1, -1):
        high = b0 - _PREFIX[n]  # the x bits of the first byte
        v = high * (1 << (8 * n)) + le_value(data, p + 1, n)
        r = ite(b0 < _PREFIX[n + 1], v, r)
    return r


def number_len(data, p):
    return 1 + number_extra(nth(data, p))


# opaque versions -----------------------------------------------------------------------------------
# NV / NL are number_value / number_len behind an uninterpreted symbol ("opaque" spec functions): contracts about
# lists of NUMBERs talk about NV/NL only, which keeps the solver queries in EUF+LIA.  Two kinds of facts connect them
# to the definition:  reveal_number(c, data, p)  (the definitional axiom NV(data,p) == number_value(data,p), used where
# a primitive's contract is proved or applied) and the *located* lemma (contracts/lemmas_c17.py, proved once from the
# definition for arbitrary x, y, z): if the NUMBER at offset p of x ++ y ++ z lies inside y, it is the NUMBER of y at
# offset p - |x|.  Instances of the located lemma are added automatically for every part of a concatenation.
_LOCATED_SEEN = set()


def _opq(name, data, p):
    import z3
    from pyvc import values as V

    d = V.to_seq(data, "byte", "bytes")
    f = V.uf(name, V.seq_sort("byte"), z3.IntSort(), z3.IntSort())
    return V.SInt(f(d.t, V._zi(p)))


def NL(data, p):
    """announced length (1 + extra bytes) of the NUMBER at data[p]"""
    if not is_sym(data) and not is_sym(p):
        return number_len(data, p)
    _locate(data, p)
    return _opq("NUMBER_len", data, p)


def NV(data, p):
    """value of the NUMBER at data[p]"""
    if not is_sym(data) and not is_sym(p):
        return number_value(data, p)
    _locate(data, p)
    return _opq("NUMBER_value", data, p)


def reveal_number(data, p):
    """definitional axiom instance: NV/NL at (data, p) are number_value/number_len there"""
    if not is_sym(data) and not is_sym(p):
        return True
    return And(_opq("NUMBER_value", data, p) == number_value(data, p), _opq("NUMBER_len", data, p) == number_len(data, p), _opq("NUMBER_len", data, p) >= 1, _opq("NUMBER_len", data, p) <= 9, _opq("NUMBER_value", data, p) >= 0)


def _locate(data, p):
    """range facts of NL/NV at (data, p) and instances of the located lemma for every part of a concatenation
    (added to the path condition once per path-condition prefix)"""
    import z3
    from pyvc import values as V

    eng = V.ENGINE
    if eng is None or not hasattr(eng, "pc") or not is_sym(data):
        return
    d = V.to_seq(data, "byte", "bytes")
    key = (d.t.get_id(), p.t.get_id() if is_sym(p) else ("c", p))
    seen = eng.__dict__.setdefault("_located_seen", {})
    if key in seen:
        idx, fid = seen[key]
        if idx < len(eng.pc) and eng.pc[idx].get_id() == fid:
            return  # the instances are still part of the current path condition
    nl_d, nv_d = _opq("NUMBER_len", d, p), _opq("NUMBER_value", d, p)
    bounds = (And(nl_d >= 1, nl_d <= 9, nv_d >= 0)).t
    seen[key] = (len(eng.pc), bounds.get_id())
    eng.pc.append(bounds)
    if hasattr(eng, "_keep"):
        eng._keep.append(d)
        if is_sym(p):
            eng._keep.append(p)
    parts = V._flatten_concat(d.t)
    if len(parts) < 2:
        return
    # prefixes x1 ++ ... ++ xj (the located lemma with x empty): a NUMBER that ends inside a prefix is that prefix's
    # NUMBER - this is the frame rule "appending does not change what was decoded before"
    plen = 0
    for j in range(1, len(parts)):
        plen = plen + (1 if z3.is_app_of(parts[j - 1], z3.Z3_OP_SEQ_UNIT) else L(V.SSeq(parts[j - 1], "byte", "bytes")))
        if j == 1:
            continue  # a single part: covered by the per-part instance below
        PF = V.SSeq(z3.Concat(*parts[:j]), "byte", "bytes")
        nl_f, nv_f = _opq("NUMBER_len", PF, p), _opq("NUMBER_value", PF, p)
        g1 = Implies(And(p >= 0, p < plen), nl_d == nl_f)
        g2 = Implies(And(p >= 0, p + nl_d <= plen), nv_d == nv_f)
        for f in (g1, g2):
            if is_sym(f):
                eng.pc.append(f.t)
    off = 0
    for part in parts:
        P = V.SSeq(part, "byte", "bytes")
        ln = 1 if z3.is_app_of(part, z3.Z3_OP_SEQ_UNIT) else L(P)
        rel = p - off
        first_inside = And(rel >= 0, rel < ln)
        if first_inside is not False:
            nl_p, nv_p = _opq("NUMBER_len", P, rel), _opq("NUMBER_value", P, rel)
            f1 = Implies(first_inside, nl_d == nl_p)
            f2 = Implies(And(first_inside, rel + nl_d <= ln), nv_d == nv_p)
            for f in (f1, f2):
                if is_sym(f):
                    eng.pc.append(f.t)
        off = off + ln


def dec_number(data):
    """independent decoder for concrete bytes: (value, encoded length)"""
    b0 = data[0]
    n = number_extra(b0)
    assert len(data) >= 1 + n
    return number_value(data, 0), 1 + n


def number_min_len(v):
    """length of the shortest NUMBER encoding of v (0 <= v < 2**64)"""
    r = 9
    for n in range(7, -1, -1):
        r = ite(v < (1 << (7 * (n + 1))), n + 1, r)
    return r


# BitField / BooleanList ---------------------------------------------------------------------------
def bit(data, q0, k):
    """bit k of the BitField starting at data[q0]; bit 0 is the MSB (value 128) of the first byte"""
    byte = nth(data, q0 + k // 8)
    return ((byte // (1 << (7 - k % 8))) % 2 == 1) if not is_sym(k) else _bit_sym(byte, k)


def _bit_sym(byte, k):
    r = k % 8
    sel = None
    # 8-way case split on the bit position inside the byte
    res = (byte % 2 == 1)  # r == 7
    for j in range(6, -1, -1):
        res = ite(r == j, (byte // (1 << (7 - j))) % 2 == 1, res)
    return res


def bitfield_bytes(bools):
    """concrete reference encoder: BitField of a python list of bools (padding bits zero)"""
    out = bytearray((len(bools) + 7) // 8)
    for i, b in enumerate(bools):
        if b:
            out[i // 8] |= 0x80 >> (i % 8)
    return bytes(out)


def boolean_list_bytes(bools, with_alldefined):
    """concrete reference encoder for BooleanList (with the 'alldefined' byte) or bare BitField"""
    if with_alldefined:
        if all(bools):
            return b"\x01"
        return b"\x00" + bitfield_bytes(bools)
    return bitfield_bytes(bools)


def uint32_le(data, p):
    return le_value(data, p, 4)


def uint64_le(data, p):
    return le_value(data, p, 8)


def is_number(e, v):
    """e is a NUMBER encoding of v (any legal length, docs/archive_format.rst table)"""
    return And(L(e) >= 1, L(e) <= 9, L(e) == number_len(e, 0), number_value(e, 0) == v)


def is_number_opaque(e, v):
    return And(L(e) >= 1, L(e) <= 9, L(e) == NL(e, 0), NV(e, 0) == v)


def boolean_list_clauses(c, vec, bs, all_defined):
    """vec is the BooleanList (all_defined=True: with the leading 'alldefined' byte) / bare BitField of bs"""
    from pyvc.contract import ForAll
    from pyvc.values import all_true_of

    n = L(bs)
    alltrue = all_true_of(c, bs)
    short = And(all_defined, alltrue)
    q0 = ite(all_defined, 1, 0)
    return [
        ("shortcut", Implies(short, And(L(vec) == 1, nth(vec, 0) == 1))),
        ("flag-zero", Implies(And(all_defined, Not(alltrue)), nth(vec, 0) == 0)),
        ("length", Implies(Not(short), L(vec) == q0 + ceil8(n))),
        ("bit-k", ForAll(lambda k: Implies(And(Not(short), k >= 0, k < n), bit(vec, q0, k) == nth(bs, k)), over=bs, mod=8)),
        ("padding-zero", ForAll(lambda k: Implies(And(Not(short), k >= n, k < 8 * ceil8(n)), Not(bit(vec, q0, k))), over=bs, trigger=False, mod=8)),
    ]
