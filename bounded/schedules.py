"""BOUNDED stand-in (never counted as proved) for the schedule independence of extraction (C13), on the real code
under /venv/bin/python: the thread-parallel path (archive opened by NAME, several folders) is run while the FIRST
thread to reach one of the perturbed operations is held back for 0.3 s, so that the other workers overtake it.

Bound: archives of 2..4 folders (one create + append sessions) whose members live in directories that are not members
themselves ('d/x', 'd/e/y', top level); perturbed operation in {none, pathlib.Path.mkdir (delay before / after the
real call), Path.open, os.utime / Path.chmod}; 3 seeded layouts per perturbation (quick), 20 (thorough).
Oracle: the tree written to disk equals what the sequential path returns (extraction of the same archive from a
stream to memory), and no error is raised for an intact archive; with one byte of the last folder's packed stream
inverted (4 extra cases) extractall() raises.  Prints one JSON line."""
import io, json, os, pathlib, random, shutil, sys, tempfile, threading, time

import py7zr
import py7zr.io

PERTURB = ["none", "mkdir-before", "mkdir-after", "open", "utime"]


class HoldFirst:
    """wrap a callable: the first thread that calls it is delayed (before or after the real call), all others run on"""

    def __init__(self, fn, when):
        self.fn, self.when = fn, when
        self.lock = threading.Lock()
        self.first = None

    def __call__(self, *a, **k):
        with self.lock:
            mine = self.first is None
            if mine:
                self.first = threading.get_ident()
        if mine and self.when == "before":
            time.sleep(0.3)
        r = self.fn(*a, **k)
        if mine and self.when == "after":
            time.sleep(0.3)
        return r


def build(path, layout):
    want = {}
    mode = "w"
    for sess in layout:
        with py7zr.SevenZipFile(path, mode) as z:
            for name, size in sess:
                data = (name.encode() * (size // len(name) + 1))[:size]
                z.writestr(data, name)
                want[name] = data
        mode = "a"
    return want


def run_case(case):
    d = tempfile.mkdtemp(prefix="verif_sched.")
    arc = os.path.join(d, "a.7z")
    out = os.path.join(d, "out")
    os.mkdir(out)
    saved = (pathlib.Path.mkdir, pathlib.Path.open, os.utime)
    try:
        want = build(arc, case["layout"])
        # sequential reference: from a stream, to memory
        with open(arc, "rb") as f:
            with py7zr.SevenZipFile(io.BytesIO(f.read())) as z:
                fac = py7zr.io.BytesIOFactory(1 << 24)
                z.extractall(factory=fac)
                seq = {k: v.read() for k, v in fac.products.items()}
        if seq != want:
            return "sequential extraction differs from what was written (%r)" % sorted(set(want) ^ set(seq))[:4]
        p = case["perturb"]
        if p == "mkdir-before":
            pathlib.Path.mkdir = _method(HoldFirst(saved[0], "before"))
        elif p == "mkdir-after":
            pathlib.Path.mkdir = _method(HoldFirst(saved[0], "after"))
        elif p == "open":
            pathlib.Path.open = _method(HoldFirst(saved[1], "before"))
        elif p == "utime":
            os.utime = HoldFirst(saved[2], "before")
        if case.get("damage"):
            # an error met by any worker reaches the caller: damage the packed stream of the LAST folder
            with py7zr.SevenZipFile(arc) as z:
                pi = z.header.main_streams.packinfo
                off = 32 + pi.packpos + pi.packpositions[-2] + pi.packsizes[-1] // 2
            with open(arc, "r+b") as f:
                f.seek(off)
                b = f.read(1)
                f.seek(off)
                f.write(bytes([b[0] ^ 0xFF]))
        try:
            with py7zr.SevenZipFile(arc) as z:
                z.extractall(path=out)
            if case.get("damage"):
                return "a worker met damaged data (byte %d of the archive inverted) and extractall() returned normally" % off
        except Exception as e:  # noqa
            if case.get("damage"):
                return None
            return "thread-parallel extraction of an intact archive raised %s: %s" % (type(e).__name__, str(e)[:100])
        finally:
            pathlib.Path.mkdir, pathlib.Path.open, os.utime = saved
        got = {}
        for root, _dirs, fs in os.walk(out):
            for fn in fs:
                full = os.path.join(root, fn)
                got[os.path.relpath(full, out)] = open(full, "rb").read()
        if got != want:
            missing = sorted(set(want) - set(got))
            other = sorted(k for k in want if k in got and got[k] != want[k])
            return "tree on disk differs from the sequential result: missing %r, other bytes %r" % (missing[:4], other[:4])
        return None
    finally:
        pathlib.Path.mkdir, pathlib.Path.open, os.utime = saved
        shutil.rmtree(d, ignore_errors=True)


def _method(h):
    def m(self, *a, **k):
        return h(self, *a, **k)

    return m


def draw(rnd):
    nsess = rnd.choice([2, 2, 3, 4])
    layout = []
    n = 0
    for _ in range(nsess):
        sess = []
        for _m in range(rnd.choice([1, 1, 2])):
            dirn = rnd.choice(["d/", "d/", "d/e/", "", "g/"])
            sess.append(["%sm%d.bin" % (dirn, n), rnd.choice([1, 500, 70000])])
            n += 1
        layout.append(sess)
    return layout


def main():
    if len(sys.argv) > 2 and sys.argv[1] == "replay":
        d = json.load(open(sys.argv[2]))
        d = d.get("concrete_input", d)
        r = run_case(d["case"])
        print(json.dumps({"reproduced": r is not None, "detail": r}))
        return 0
    tier = sys.argv[1] if len(sys.argv) > 1 else "quick"
    seed = int(sys.argv[2]) if len(sys.argv) > 2 else 0
    rnd = random.Random(seed)
    cases = []
    for p in PERTURB:
        cases.append({"layout": [[["d/a.bin", 500]], [["d/b.bin", 500]], [["d/c.bin", 70000]]], "perturb": p})
        for _ in range(2 if tier == "quick" else 19):
            cases.append({"layout": draw(rnd), "perturb": p})
    for p in ("none", "open"):
        cases.append({"layout": [[["d/a.bin", 500]], [["d/b.bin", 500]], [["d/c.bin", 70000]]], "perturb": p, "damage": True})
        cases.append({"layout": [[["a.bin", 70000]], [["b.bin", 70000]]], "perturb": p, "damage": True})
    t0 = time.time()
    bad = []
    for c in cases:
        r = run_case(c)
        if r is not None:
            bad.append({"case": c, "failure": r})
            if len(bad) >= 3:
                break
    print(json.dumps({"runs": len(cases), "seconds": round(time.time() - t0, 1), "failures": bad}))
    return 0


if __name__ == "__main__":
    sys.exit(main())
