"""BOUNDED stand-in (never counted as proved): whole archives written by an INDEPENDENT writer (this file and the
section encoder of bounded/sections.py, both written from the format description; only the COPY coder is used, so the
packed streams are the member bytes themselves) and read by the real code under /venv/bin/python.

Shapes drawn (seeded): up to 4 folders holding 0..4 members each (zero-stream folders included), directories and
empty files interleaved at any position, CRCs stored per substream / at folder level / not at all, optional records
present or absent, SubStreamsInfo left out when it may be, a gap before the packed streams, both Digests spellings,
attributes stored for all members / for none / only for the members with data.
Oracle = the description the archive was written from:
  C10  getnames()/list() give the names in stored order, each member's size, directory flag and stored CRC;
  C06  extractall() to memory returns exactly the bytes of every file member; extract(targets=...) returns exactly
       the requested ones; testzip() reports no damage;
  C04  after one byte of a CRC-protected member is altered, extraction fails, testzip() does not report "no damage"
       and - when the pack stream carries a CRC - test() does not certify the archive;
  C10  needs_password() is False without and True with a supplied password (there is no encryption coder).
quick: 400 archives; thorough: 8000.  Prints one JSON line; `replay <json-file>` re-runs one recorded description."""
import io, json, os, random, struct, sys, time, zlib

sys.path.insert(0, os.path.dirname(os.path.abspath(__file__)))
import sections as S  # noqa: E402

import py7zr  # noqa: E402
import py7zr.io  # noqa: E402

COPY = {"id": [0x00], "props": None}


def bitvec(flags):
    bits = bytearray((len(flags) + 7) // 8)
    for i, f in enumerate(flags):
        if f:
            bits[i // 8] |= 0x80 >> (i % 8)
    return bytes(bits)


def files_info(members, attributes="all"):
    """FilesInfo: 0x05 NUMBER count, then properties (id, NUMBER size, data), END.
    attributes: 'all' (one word per member), 'none' (no Attributes property at all: the kind of a member without data
    follows from EmptyStream / EmptyFile alone), 'files' (defined for members with data only, bit vector spelling)"""
    o = b"\x05" + S.number(len(members))
    empties = [m["kind"] != "file" or m["folder"] is None for m in members]
    if any(empties):
        v = bitvec(empties)
        o += b"\x0e" + S.number(len(v)) + v
        ef = [m["kind"] == "file" for m, e in zip(members, empties) if e]  # an empty stream that is a FILE (else a directory)
        if any(ef):
            v = bitvec(ef)
            o += b"\x0f" + S.number(len(v)) + v
    names = b"\x00" + b"".join(m["name"].encode("utf-16-le") + b"\x00\x00" for m in members)
    o += b"\x11" + S.number(len(names)) + names
    if attributes == "all":
        attrs = b"\x01\x00" + b"".join(struct.pack("<L", 0x10 if m["kind"] == "dir" else 0x20) for m in members)
        o += b"\x15" + S.number(len(attrs)) + attrs
    elif attributes == "files":
        flags = [m["folder"] is not None for m in members]
        if any(flags):
            attrs = (b"\x01" if all(flags) else b"\x00" + bitvec(flags)) + b"\x00" + b"".join(struct.pack("<L", 0x20) for f in flags if f)
            o += b"\x15" + S.number(len(attrs)) + attrs
    return o + b"\x00"


def build(d):
    """the archive bytes of description d"""
    packed = b"".join(bytes.fromhex(m["data"]) for f in range(len(d["folders"])) for m in d["members"] if m["folder"] == f)
    hdr = b"\x01"
    if d["folders"]:
        hdr += b"\x04" + S.encode(d)
    hdr += files_info(d["members"], d.get("attributes", "all")) + b"\x00"
    gap = b"\xaa" * d["packpos"]
    body = gap + packed
    start = struct.pack("<QQL", len(body), len(hdr), zlib.crc32(hdr))
    return b"7z\xbc\xaf\x27\x1c" + b"\x00\x04" + struct.pack("<L", zlib.crc32(start)) + start + body + hdr


def draw(rnd):
    nf = rnd.choice([0, 1, 1, 2, 2, 3, 4])
    folders, members = [], []
    n = 0

    def extra():
        nonlocal n
        while rnd.random() < 0.3:
            kind = rnd.choice(["dir", "file"])
            members.append({"name": "%s%d" % ("d" if kind == "dir" else "e", n), "kind": kind, "folder": None, "data": ""})
            n += 1

    all_one = True
    for fi in range(nf):
        k = rnd.choice([1, 1, 1, 0, 2, 3, 4])
        if k != 1:
            all_one = False
        streams = []
        fdata = b""
        for _ in range(k):
            extra()
            size = rnd.choice([1, 2, 7, 100, 300, 5000])
            data = bytes(rnd.getrandbits(8) for _ in range(size)) if size < 400 else bytes([rnd.getrandbits(8)]) * size
            members.append({"name": "f%d.bin" % n, "kind": "file", "folder": fi, "data": data.hex()})
            n += 1
            fdata += data
            streams.append({"size": size, "crc": zlib.crc32(data) if rnd.random() < 0.7 else None})
        fcrc = zlib.crc32(fdata) if (rnd.random() < 0.35 and k > 0) else None
        folders.append({"coders": [dict(COPY)], "unpacksizes": [len(fdata)], "crc": fcrc, "streams": streams})
    extra()
    need_sizes = any(len(f["streams"]) > 1 for f in folders)
    need_crc = any(s["crc"] is not None for f in folders for s in f["streams"] if not (len(f["streams"]) == 1 and f["crc"] is not None))
    ss = {"count_record": (not all_one) or rnd.random() < 0.3, "size_record": need_sizes or rnd.random() < 0.2, "crc_record": need_crc or rnd.random() < 0.2}
    if all_one and not need_crc and rnd.random() < 0.3:
        ss = None
    if not ss or not ss["crc_record"]:
        for f in folders:
            for s in f["streams"]:
                s["crc"] = None
    pcrc = None
    if nf and rnd.random() < 0.15:
        pcrc = [zlib.crc32(b"".join(bytes.fromhex(m["data"]) for m in members if m["folder"] == i)) if rnd.random() < 0.6 else None for i in range(nf)]
        if all(c is None for c in pcrc):
            pcrc = None
    return {"packpos": rnd.choice([0, 0, 0, 5, 40]), "packsizes": [f["unpacksizes"][0] for f in folders], "pack_crc": pcrc, "folders": folders, "substreams": ss, "spell_all": rnd.random() < 0.5, "members": members, "targets_seed": rnd.getrandbits(16), "attributes": rnd.choice(["all", "all", "none", "files"])}


def effective_crc(d, m, idx_in_folder):
    f = d["folders"][m["folder"]]
    if len(f["streams"]) == 1 and f["crc"] is not None:
        return f["crc"]
    return f["streams"][idx_in_folder]["crc"]


def run_one(d):
    """returns (property, failure) or None"""
    raw = build(d)
    members = d["members"]
    names = [m["name"] for m in members]
    files = {m["name"]: bytes.fromhex(m["data"]) for m in members if m["kind"] == "file"}
    # ---- listing
    try:
        with py7zr.SevenZipFile(io.BytesIO(raw)) as z:
            got_names = z.getnames()
            lst = z.list()
    except Exception as e:  # noqa
        return ("C06", "opening / listing raised %s: %s" % (type(e).__name__, str(e)[:120]))
    if got_names != names:
        return ("C10", "getnames() %r, stored order %r" % (got_names, names))
    # needs_password(): true exactly when an encryption coder is present (none here) or a password was supplied
    try:
        with py7zr.SevenZipFile(io.BytesIO(raw)) as z:
            plain = z.needs_password()
        with py7zr.SevenZipFile(io.BytesIO(raw), password="secret") as z:
            given = z.needs_password()
    except Exception as e:  # noqa
        return ("C10", "needs_password raised %s: %s" % (type(e).__name__, str(e)[:100]))
    if plain is not False or given is not True:
        return ("C10", "needs_password() = %r without / %r with a supplied password on an archive without encryption coder" % (plain, given))
    count = {}
    for m, fi in zip(members, lst):
        if fi.filename != m["name"] or bool(fi.is_directory) != (m["kind"] == "dir"):
            return ("C10", "list(): entry %r/dir=%r for member %r/%s" % (fi.filename, fi.is_directory, m["name"], m["kind"]))
        if m["kind"] == "file" and fi.uncompressed != len(files[m["name"]]):
            return ("C10", "list(): size %r of %s, stored %d bytes" % (fi.uncompressed, m["name"], len(files[m["name"]])))
        if m["folder"] is not None:
            k = count.get(m["folder"], 0)
            count[m["folder"]] = k + 1
            want = effective_crc(d, m, k)
            if want is not None and fi.crc32 != want:
                return ("C10", "list(): crc %r of %s, stored %r" % (fi.crc32, m["name"], want))
    # ---- extraction of everything
    try:
        with py7zr.SevenZipFile(io.BytesIO(raw)) as z:
            fac = py7zr.io.BytesIOFactory(1 << 22)
            z.extractall(factory=fac)
            got = {k: v.read() for k, v in fac.products.items()}
    except Exception as e:  # noqa
        return ("C06", "extractall raised %s: %s" % (type(e).__name__, str(e)[:120]))
    got_files = {k: v for k, v in got.items() if k in files}
    if got_files != files:
        bad = sorted(k for k in files if got_files.get(k) != files[k])
        return ("C06", "extractall: members %r missing or with other bytes (got %r)" % (bad[:4], {k: len(v) for k, v in list(got.items())[:8]}))
    # ---- extraction of a subset
    rnd = random.Random(d["targets_seed"])
    tg = [n for n in names if rnd.random() < 0.4]
    if tg:
        try:
            with py7zr.SevenZipFile(io.BytesIO(raw)) as z:
                fac = py7zr.io.BytesIOFactory(1 << 22)
                z.extract(targets=tg, factory=fac)
                got = {k: v.read() for k, v in fac.products.items()}
        except Exception as e:  # noqa
            return ("C06", "extract(targets=%r) raised %s: %s" % (tg, type(e).__name__, str(e)[:120]))
        want = {k: v for k, v in files.items() if k in tg}
        if {k: v for k, v in got.items() if k in files} != want:
            return ("C06", "extract(targets=%r): got %r, wanted %r" % (tg, {k: len(v) for k, v in got.items()}, {k: len(v) for k, v in want.items()}))
    try:
        with py7zr.SevenZipFile(io.BytesIO(raw)) as z:
            t = z.testzip()
        if t is not None:
            return ("C06", "testzip() reports %r on an intact archive" % (t,))
    except Exception as e:  # noqa
        return ("C06", "testzip raised %s: %s" % (type(e).__name__, str(e)[:120]))
    # ---- damage: alter one byte of a CRC-protected member
    prot = []
    count = {}
    off = 32 + d["packpos"]
    for f in range(len(d["folders"])):
        for m in members:
            if m["folder"] == f:
                k = count.get(f, 0)
                count[f] = k + 1
                ln = len(m["data"]) // 2
                if effective_crc(d, m, k) is not None or d["folders"][f]["crc"] is not None:
                    prot.append((m["name"], off, ln))
                off += ln
    if prot:
        name, o, ln = prot[d["targets_seed"] % len(prot)]
        bad = bytearray(raw)
        bad[o + (d["targets_seed"] % ln)] ^= 0x5A
        silent = False
        try:
            with py7zr.SevenZipFile(io.BytesIO(bytes(bad))) as z:
                fac = py7zr.io.BytesIOFactory(1 << 22)
                z.extractall(factory=fac)
                silent = True
        except Exception:  # noqa
            pass
        if silent:
            return ("C04", "one byte of CRC-protected member %s altered: extractall() returned without any error" % name)
        # the integrity tests never certify the damaged archive as good
        try:
            with py7zr.SevenZipFile(io.BytesIO(bytes(bad))) as z:
                tz = z.testzip()
        except Exception:  # noqa
            tz = "raised"
        if tz is None:
            return ("C04", "one byte of CRC-protected member %s altered: testzip() reports no damage" % name)
        folder = next(m["folder"] for m in members if m["name"] == name)
        if d["pack_crc"] is not None and d["pack_crc"][folder] is not None:
            try:
                with py7zr.SevenZipFile(io.BytesIO(bytes(bad))) as z:
                    t = z.test()
            except Exception:  # noqa
                t = "raised"
            if t is True:
                return ("C04", "one byte of pack stream %d (CRC stored in PackInfo) altered: test() certifies the archive" % folder)
    return None


def main():
    if len(sys.argv) > 2 and sys.argv[1] == "replay":
        d = json.load(open(sys.argv[2]))
        d = d.get("concrete_input", d)
        d = d.get("description", d)
        r = run_one(d)
        print(json.dumps({"reproduced": r is not None, "detail": r and r[1], "property": r and r[0]}))
        return 0
    tier = sys.argv[1] if len(sys.argv) > 1 else "quick"
    seed = int(sys.argv[2]) if len(sys.argv) > 2 else 0
    only = sys.argv[3] if len(sys.argv) > 3 else None
    n = 400 if tier == "quick" else 8000
    rnd = random.Random(seed)
    t0 = time.time()
    bad, runs = [], 0
    for _ in range(n):
        d = draw(rnd)
        runs += 1
        r = run_one(d)
        if r is not None and (only is None or r[0] == only):
            bad.append({"description": d, "property": r[0], "failure": r[1]})
            if len(bad) >= 3:
                break
    print(json.dumps({"runs": runs, "seconds": round(time.time() - t0, 1), "failures": bad}))
    return 0


if __name__ == "__main__":
    sys.exit(main())
