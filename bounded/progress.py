"""BOUNDED stand-in (never counted as proved) for the account the progress callback gives (C18), on the real code
under /venv/bin/python with a CONTROLLED CLOCK: time.time() is replaced by a counter that advances by a fixed step
on every call, so that the one-second pacing of update events fires between the decoding steps of one member.

Bound: archives of 1..4 members with sizes from {0, 1, 70 KiB, 1.5 MiB, 3.2 MiB} (COPY and LZMA2 chains), clock steps
{0.0, 0.4, 0.7, 1.5} seconds per call, extraction to disk with a callback, one folder or two (two sessions).
Oracle (from the statement of C18): preparation first, post-processing last; every processed member exactly one
start followed by exactly one end with its name; the end event's byte count equals the member's size; the update
events sum to the bytes decoded (sum of the sizes of the members).  Prints one JSON line."""
import io, itertools, json, os, random, shutil, sys, tempfile, time

import py7zr
from py7zr.callbacks import ExtractCallback

SIZES = [0, 1, 70 * 1024, 1536 * 1024, 3355443]


class Rec(ExtractCallback):
    def __init__(self):
        self.ev = []

    def report_start_preparation(self):
        self.ev.append(("pre",))

    def report_start(self, processing_file_path, processing_bytes):
        self.ev.append(("s", processing_file_path, processing_bytes))

    def report_update(self, decompressed_bytes):
        self.ev.append(("u", decompressed_bytes))

    def report_end(self, processing_file_path, wrote_bytes):
        self.ev.append(("e", processing_file_path, wrote_bytes))

    def report_postprocess(self):
        self.ev.append(("post",))

    def report_warning(self, message):
        self.ev.append(("w", message))


class Clock:
    def __init__(self, step):
        self.t, self.step = 1000.0, step

    def __call__(self):
        self.t += self.step
        return self.t


def run_case(case):
    sizes, chain, step, sessions = case["sizes"], case["chain"], case["step"], case["sessions"]
    filters = [{"id": py7zr.FILTER_COPY}] if chain == "copy" else [{"id": py7zr.FILTER_LZMA2, "preset": 0}]
    buf = io.BytesIO()
    names = []
    cut = len(sizes) if sessions == 1 else max(1, len(sizes) // 2)
    for part, mode in ((sizes[:cut], "w"), (sizes[cut:], "a")):
        if mode == "a" and not part:
            continue
        buf.seek(0)
        with py7zr.SevenZipFile(buf, mode, filters=filters if mode == "w" else None) as z:
            for s in part:
                nm = "m%d.bin" % len(names)
                z.writestr(bytes((i * 7 + len(names)) & 0xFF for i in range(min(s, 4096))) * (s // 4096 + 1) if s else b"", nm) if s <= 4096 else z.writestr((bytes(range(256)) * (s // 256 + 1))[:s], nm)
                names.append(nm)
    out = tempfile.mkdtemp(prefix="verif_prog.")
    cb = Rec()
    real = (time.time, time.monotonic, time.perf_counter)
    try:
        buf.seek(0)
        # every clock the code may consult through the time module (threading / queue bound theirs at import)
        time.time = time.monotonic = time.perf_counter = Clock(step)
        try:
            with py7zr.SevenZipFile(buf) as z:
                z.extractall(path=out, callback=cb)
        finally:
            time.time, time.monotonic, time.perf_counter = real
    except Exception as e:  # noqa
        return "extraction raised %s: %s" % (type(e).__name__, str(e)[:100])
    finally:
        shutil.rmtree(out, ignore_errors=True)
    ev = [e for e in cb.ev if e[0] != "w"]
    if not ev or ev[0][0] != "pre":
        return "first event is %r, not the preparation report" % (ev[:1],)
    if ev[-1][0] != "post":
        return "last event is %r, not the post-processing report" % (ev[-1:],)
    want = dict(zip(names, sizes))
    started, ended = [], []
    for e in ev:
        if e[0] == "s":
            started.append(os.path.basename(str(e[1])))
        elif e[0] == "e":
            nm = os.path.basename(str(e[1]))
            if nm not in started or nm in ended:
                return "end event for %s without a (single) start before it" % nm
            ended.append(nm)
            if int(e[2]) != want.get(nm):
                return "end event of %s reports %s bytes, its size is %s" % (nm, e[2], want.get(nm))
    if sorted(started) != sorted(names) or sorted(ended) != sorted(names):
        return "start events %r / end events %r for members %r" % (started, ended, names)
    upd = sum(int(e[1]) for e in ev if e[0] == "u")
    if upd != sum(sizes):
        return "update events sum to %d, %d bytes were decoded (%d update events)" % (upd, sum(sizes), sum(1 for e in ev if e[0] == "u"))
    return None


def main():
    if len(sys.argv) > 2 and sys.argv[1] == "replay":
        d = json.load(open(sys.argv[2]))
        d = d.get("concrete_input", d)
        r = run_case(d["case"])
        print(json.dumps({"reproduced": r is not None, "detail": r}))
        return 0
    tier = sys.argv[1] if len(sys.argv) > 1 else "quick"
    seed = int(sys.argv[2]) if len(sys.argv) > 2 else 0
    rnd = random.Random(seed)
    cases = []
    for step in (0.0, 0.4, 0.7, 1.5):
        for chain in ("copy", "lzma2"):
            cases.append({"sizes": [3355443], "chain": chain, "step": step, "sessions": 1})
            cases.append({"sizes": [1, 1536 * 1024, 0, 3355443], "chain": chain, "step": step, "sessions": 2})
    for _ in range(12 if tier == "quick" else 200):
        cases.append({"sizes": [rnd.choice(SIZES) for _ in range(rnd.randint(1, 4))], "chain": rnd.choice(["copy", "lzma2"]), "step": rnd.choice([0.0, 0.4, 0.7, 1.5]), "sessions": rnd.choice([1, 2])})
    t0 = time.time()
    bad = []
    for c in cases:
        r = run_case(c)
        if r is not None:
            bad.append({"case": c, "failure": r})
            if len(bad) >= 3:
                break
    print(json.dumps({"runs": len(cases), "seconds": round(time.time() - t0, 1), "failures": bad}))
    return 0


if __name__ == "__main__":
    sys.exit(main())
