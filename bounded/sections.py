"""BOUNDED stand-in (never counted as proved): the stream sections of a header, run on the real code under
/venv/bin/python against an oracle that does NOT come from py7zr.

A random *description* of a MainStreamsInfo (pack streams, folders with their coder chains, unpack sizes and optional
folder-level CRCs, substream counts / sizes / digests) is serialised by the independent encoder below, written from
the format description (7zFormat.txt: NUMBER, PackInfo, Folder, CodersInfo, SubStreamsInfo, Digests).  Then

  A. the real StreamsInfo.read must report exactly the description (stream counts, every substream's size, every
     substream's CRC: its own, or the folder's when the folder holds that one stream and carries a CRC) - C06;
  B. the real StreamsInfo.write of what was read must read back to the same description (what an append session
     does with the header of the existing archive) - C08, and as a statement about the writer C07: what it emits for
     a given section content is read back as that content.

Bound (quick): 3000 descriptions drawn with the given seed, at most 4 folders, 3 coders per folder, 4 streams per
folder, both spellings of the Digests flags (all-defined byte / bit vector), with and without the optional records;
(thorough): 60000.  Prints one JSON line.  `replay <json-file>` re-runs one recorded description."""
import io, json, random, sys, time

from py7zr.archiveinfo import StreamsInfo


# --------------------------------------------------------------------------------------------- independent encoder
def number(v):
    """7z NUMBER: the count of leading 1 bits of the first byte gives the number of extra bytes (little endian); the
    remaining low bits of the first byte are the high part of the value"""
    assert 0 <= v < 1 << 64
    for extra in range(8):
        if v < 1 << (7 * (extra + 1)):
            lead = (0xFF << (8 - extra)) & 0xFF
            return bytes([lead | (v >> (8 * extra))]) + (v & ((1 << (8 * extra)) - 1)).to_bytes(extra, "little")
    return b"\xff" + v.to_bytes(8, "little")


def digests(flags, crcs, spell_all):
    """Digests: AllAreDefined byte, (bit vector when not all defined), one UINT32 per defined entry"""
    out = b""
    if all(flags) and spell_all:
        out += b"\x01"
    else:
        out += b"\x00"
        bits = bytearray((len(flags) + 7) // 8)
        for i, f in enumerate(flags):
            if f:
                bits[i // 8] |= 0x80 >> (i % 8)
        out += bytes(bits)
    for f, c in zip(flags, crcs):
        if f:
            out += c.to_bytes(4, "little")
    return out


def encode(d):
    o = b""
    # PackInfo
    o += b"\x06" + number(d["packpos"]) + number(len(d["packsizes"]))
    o += b"\x09" + b"".join(number(s) for s in d["packsizes"])
    if d["pack_crc"] is not None:
        o += b"\x0a" + digests([c is not None for c in d["pack_crc"]], [c or 0 for c in d["pack_crc"]], d["spell_all"])
    o += b"\x00"
    # UnpackInfo
    o += b"\x07\x0b" + number(len(d["folders"])) + b"\x00"
    for f in d["folders"]:
        o += number(len(f["coders"]))
        for c in f["coders"]:
            flag = len(c["id"]) | (0x20 if c["props"] is not None else 0)
            o += bytes([flag]) + bytes(c["id"])
            if c["props"] is not None:
                o += number(len(c["props"])) + bytes(c["props"])
        for k in range(len(f["coders"]) - 1):  # out stream k+1 feeds in stream k; out stream 0 is the folder's output
            o += number(k) + number(k + 1)
    o += b"\x0c"
    for f in d["folders"]:
        o += b"".join(number(s) for s in f["unpacksizes"])
    if any(f["crc"] is not None for f in d["folders"]):
        o += b"\x0a" + digests([f["crc"] is not None for f in d["folders"]], [f["crc"] or 0 for f in d["folders"]], d["spell_all"])
    o += b"\x00"
    # SubStreamsInfo
    ss = d["substreams"]
    if ss is not None:
        o += b"\x08"
        if ss["count_record"]:
            o += b"\x0d" + b"".join(number(len(f["streams"])) for f in d["folders"])
        if ss["size_record"]:
            o += b"\x09"
            for f in d["folders"]:
                o += b"".join(number(s["size"]) for s in f["streams"][:-1])
        if ss["crc_record"]:
            unknown = [s for f in d["folders"] for s in f["streams"] if not (len(f["streams"]) == 1 and f["crc"] is not None)]
            o += b"\x0a" + digests([s["crc"] is not None for s in unknown], [s["crc"] or 0 for s in unknown], d["spell_all"])
        o += b"\x00"
    o += b"\x00"
    return o


def expected(d):
    """what the description says about every substream: (folder, size, crc or None)"""
    out = []
    for i, f in enumerate(d["folders"]):
        for s in f["streams"]:
            crc = s["crc"]
            if len(f["streams"]) == 1 and f["crc"] is not None:
                crc = f["crc"]
            out.append((i, s["size"], crc))
    return out


# --------------------------------------------------------------------------------------------------- descriptions
CODERS = [([0x21], [0x18]), ([0x03, 0x01, 0x01], [0x5D, 0, 0, 0x10, 0]), ([0x03, 0x03, 0x01, 0x03], None), ([0x04, 0x02, 0x02], None), ([0x00], None), ([0x03], [0x01])]


def draw(rnd):
    nf = rnd.choice([0, 1, 1, 2, 2, 3, 4])
    folders = []
    all_one = True
    for _ in range(nf):
        nc = rnd.choice([1, 1, 2, 3])
        coders = []
        for _k in range(nc):
            cid, props = rnd.choice(CODERS)
            coders.append({"id": cid, "props": props})
        size = rnd.choice([0, 1, 5, 127, 128, 300, 70000, (1 << 32) + 7])
        unpack = [size] + [rnd.choice([size, size + 3, 0]) for _k in range(nc - 1)]
        n = rnd.choice([1, 1, 1, 0, 2, 3, 4])
        if n != 1:
            all_one = False
        streams = []
        left = size
        for k in range(n):
            s = left if k == n - 1 else rnd.randint(0, left)
            left -= s
            streams.append({"size": s, "crc": rnd.choice([None, rnd.getrandbits(32), rnd.getrandbits(32), 0])})
        fcrc = rnd.choice([None, None, rnd.getrandbits(32), 0])
        folders.append({"coders": coders, "unpacksizes": unpack, "crc": fcrc, "streams": streams})
    need_sizes = any(len(f["streams"]) > 1 for f in folders)
    need_crc = any(s["crc"] is not None for f in folders for s in f["streams"] if not (len(f["streams"]) == 1 and f["crc"] is not None))
    ss = {"count_record": (not all_one) or rnd.random() < 0.3, "size_record": need_sizes or rnd.random() < 0.2, "crc_record": need_crc or rnd.random() < 0.2}
    if all_one and not need_crc and rnd.random() < 0.25:
        ss = None  # the whole section may be left out: one stream per folder, CRCs (if any) at folder level
    if not ss or not ss["crc_record"]:
        for f in folders:
            for s in f["streams"]:
                s["crc"] = None
    pack = [rnd.choice([0, 1, 90, 129, 66000]) for _ in range(nf)]
    pcrc = None if rnd.random() < 0.8 else [rnd.choice([None, rnd.getrandbits(32)]) for _ in range(nf)]
    if pcrc is not None and all(c is None for c in pcrc):
        pcrc = None
    return {"packpos": rnd.choice([0, 0, 32, 1 << 33]), "packsizes": pack, "pack_crc": pcrc, "folders": folders, "substreams": ss, "spell_all": rnd.random() < 0.5}


# --------------------------------------------------------------------------------------------------------- oracle
def view(si):
    """what the real objects say about every substream, and about the pack streams / coder chains"""
    ss = si.substreamsinfo
    nus = list(ss.num_unpackstreams_folders)
    subs = []
    k = 0
    for i, n in enumerate(nus):
        for _ in range(n):
            size = ss.unpacksizes[k]
            crc = ss.digests[k] if ss.digestsdefined[k] else None
            subs.append((i, size, crc))
            k += 1
    if not (len(ss.unpacksizes) == len(ss.digests) == len(ss.digestsdefined) == k):
        raise AssertionError("lists of different lengths: %d sizes, %d digests, %d flags for %d substreams" % (len(ss.unpacksizes), len(ss.digests), len(ss.digestsdefined), k))
    chains = [[(bytes(c["method"]), None if c.get("properties") is None else bytes(c["properties"])) for c in f.coders] for f in si.unpackinfo.folders]
    return {"packpos": si.packinfo.packpos, "packsizes": list(si.packinfo.packsizes), "chains": chains, "folder_sizes": [f.get_unpack_size() for f in si.unpackinfo.folders], "streams_per_folder": nus, "substreams": subs}


def describe(d):
    return {
        "packpos": d["packpos"],
        "packsizes": list(d["packsizes"]),
        "chains": [[(bytes(c["id"]), None if c["props"] is None else bytes(c["props"])) for c in f["coders"]] for f in d["folders"]],
        "folder_sizes": [f["unpacksizes"][0] for f in d["folders"]],
        "streams_per_folder": [len(f["streams"]) for f in d["folders"]],
        "substreams": expected(d),
    }


def diff(a, b):
    for k in a:
        if a[k] != b[k]:
            return "%s: %r, described %r" % (k, b[k] if len(repr(b[k])) < 200 else "...", a[k] if len(repr(a[k])) < 200 else "...")
    return None


def run_one(d):
    """returns (property, failure) or None"""
    if not d["folders"]:
        return None  # a MainStreamsInfo without folders is not written by anybody
    raw = encode(d)
    want = describe(d)
    # in a header the section is followed by FilesInfo, which names every substream (>= 2 bytes each): stand-in filler
    rest = b"\x00" * (2 * sum(len(f["streams"]) for f in d["folders"]) + 2)
    try:
        si = StreamsInfo.retrieve(io.BytesIO(raw + rest))
        got = view(si)
    except Exception as e:  # noqa
        return ("C06", "reading the section raised %s: %s" % (type(e).__name__, str(e)[:120]))
    r = diff(want, got)
    if r is not None:
        return ("C06", "read: " + r)
    try:
        out = io.BytesIO()
        si.write(out)
        again = out.getvalue()
        if again[:1] != b"\x04":
            return ("C08", "rewritten section does not start with the MainStreamsInfo id")
        si2 = StreamsInfo.retrieve(io.BytesIO(again[1:] + rest))
        got2 = view(si2)
    except Exception as e:  # noqa
        return ("C08", "re-serialising what was read and reading it back raised %s: %s" % (type(e).__name__, str(e)[:120]))
    r = diff(want, got2)
    if r is not None:
        return ("C08", "after write+read: " + r)
    return None


def main():
    if len(sys.argv) > 2 and sys.argv[1] == "replay":
        d = json.load(open(sys.argv[2]))
        d = d.get("concrete_input", d)
        d = d.get("description", d)
        r = run_one(d)
        print(json.dumps({"reproduced": r is not None, "detail": r and r[1], "property": r and r[0]}))
        return 0
    tier = sys.argv[1] if len(sys.argv) > 1 else "quick"
    seed = int(sys.argv[2]) if len(sys.argv) > 2 else 0
    only = sys.argv[3] if len(sys.argv) > 3 else None  # report failures of this property only (C06: reading, C08: rewriting)
    n = 3000 if tier == "quick" else 60000
    rnd = random.Random(seed)
    t0 = time.time()
    bad = []
    runs = 0
    for _ in range(n):
        d = draw(rnd)
        runs += 1
        r = run_one(d)
        if r is not None and (only is None or r[0] == only or (only == "C07" and r[0] == "C08")):
            bad.append({"description": d, "property": r[0], "failure": r[1], "section_hex": encode(d).hex()})
            if len(bad) >= 5:
                break
    print(json.dumps({"runs": runs, "seconds": round(time.time() - t0, 1), "failures": bad}))
    return 0


if __name__ == "__main__":
    sys.exit(main())
