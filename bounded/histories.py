"""BOUNDED stand-in (never counted as proved): create/append histories run on the real code under /venv/bin/python.

Bound (quick): every history w(M0) a(M1) with |Mi| <= 2 (header mode alternating), plus 100 histories
w(M0) a(M1) a(M2) drawn with VERIF_SEED;
(thorough): every history of up to 3 sessions with |Mi| <= 2.  Member kinds: non-empty file (a few sizes), zero-length
file written from disk, directory, zero-length writestr member.  Default filter chain, raw and encoded header.
Oracle: after the last session the archive lists the members of all sessions in order and extraction (to memory)
returns every file's bytes; `test()`/`testzip()` report no damage.  Prints one JSON line."""
import io, itertools, json, os, random, sys, tempfile, time

import py7zr
import py7zr.io

KINDS = ["file", "zero", "dir", "zerostr"]


def run_history(hist, d, encoded):
    buf = io.BytesIO()
    expect_names, expect_data = [], {}
    mode = "w"
    n = 0
    for s in hist:
        buf.seek(0)
        with py7zr.SevenZipFile(buf, mode) as z:
            z.set_encoded_header_mode(encoded)
            for kind in s:
                name = "m%d_%s" % (n, kind)
                n += 1
                if kind == "dir":
                    z.write(os.path.join(d, "dir"), name)
                elif kind == "zero":
                    z.write(os.path.join(d, "zero"), name)
                    expect_data[name] = b""
                elif kind == "zerostr":
                    z.writestr(b"", name)
                    expect_data[name] = b""
                else:
                    data = bytes([65 + n % 26]) * (7 + 13 * n)
                    z.writestr(data, name)
                    expect_data[name] = data
                expect_names.append(name)
        mode = "a"
    buf.seek(0)
    with py7zr.SevenZipFile(buf) as z:
        names = z.getnames()
        if names != expect_names:
            return "names %r != %r" % (names, expect_names)
        fac = py7zr.io.BytesIOFactory(1 << 22)
        z.extractall(factory=fac)
        got = {k: v.read() for k, v in fac.products.items()}
        if got != expect_data:
            return "contents differ: got sizes %r expected %r" % ({k: len(v) for k, v in got.items()}, {k: len(v) for k, v in expect_data.items()})
    buf.seek(0)
    with py7zr.SevenZipFile(buf) as z:
        if z.testzip() is not None:
            return "testzip reports %r" % (z.testzip(),)
    return None


def main():
    tier = sys.argv[1] if len(sys.argv) > 1 else "quick"
    seed = int(sys.argv[2]) if len(sys.argv) > 2 else 0
    d = tempfile.mkdtemp(prefix="verif_hist.")
    os.mkdir(os.path.join(d, "dir"))
    open(os.path.join(d, "zero"), "wb").close()
    sessions = [()] + [(k,) for k in KINDS] + list(itertools.product(KINDS, repeat=2))
    hists = [(a, b) for a in sessions for b in sessions]
    if tier == "thorough":
        hists += [(a, b, c) for a in sessions for b in sessions for c in sessions]
    else:
        rnd = random.Random(seed)
        hists += [(rnd.choice(sessions), rnd.choice(sessions), rnd.choice(sessions)) for _ in range(100)]
    t0 = time.time()
    bad = []
    runs = 0
    for h in hists:
        for encoded in ((True, False) if tier == "thorough" else ((True,) if len(hists) and hists.index(h) % 2 == 0 else (False,))):
            runs += 1
            try:
                r = run_history(h, d, encoded)
            except Exception as e:  # noqa
                r = "%s: %s" % (type(e).__name__, str(e)[:120])
            if r is not None:
                bad.append({"history": [list(s) for s in h], "encoded_header": encoded, "failure": r})
                if len(bad) >= 5:
                    break
        if len(bad) >= 5:
            break
    import shutil

    shutil.rmtree(d, ignore_errors=True)
    print(json.dumps({"runs": runs, "histories": len(hists), "seconds": round(time.time() - t0, 1), "failures": bad}))


if __name__ == "__main__":
    main()
