"""BOUNDED stand-in (never counted as proved) for the lexical path gates of C03 / C16, run on the real code under
/venv/bin/python against an oracle built from os.path only (normpath + component-wise containment).

Bound: every member name made of at most 4 components drawn from {a, ab, b, .., ., ''} with the optional prefixes
'', '/', './', '//' (5180 names), against 7 output directories (absolute, relative, sibling-prefixed, with '..',
the root) and the current directory (path None).  Oracle:
  get_sanitized_output_path(name, out)  either raises Bad7zFile or returns a path that - normalised - is `out` itself
      or lies below it COMPONENT-wise (a sibling whose name merely starts with the same characters is outside);
      a name without '..' components (and not absolute once the './' marker is removed) is always accepted and lands
      at out/<name>;
  is_relative_to(p, base) for normalised absolute p: True exactly when base's normal form is a component-wise prefix;
  is_path_valid(p, base) for absolute p: True exactly when p's normal form is inside base's normal form (a relative
      base is taken relative to the current directory);
  check_archive_path(name): True exactly when the name is relative and no prefix of it climbs above its start.
Prints one JSON line; `replay <json-file>` re-runs one recorded case."""
import itertools, json, os, pathlib, sys, time

from py7zr import helpers
from py7zr.exceptions import Bad7zFile

COMPS = ["a", "ab", "b", "..", ".", ""]
PREFIXES = ["", "/", "./", "//"]
OUTS = ["/out/a", "/out/ab", "/out/a/../ab", "/", "out", "out/a", "/out/a/b", None]


def inside(child, base):
    """component-wise containment of two normalised absolute paths"""
    c, b = [x for x in child.split("/") if x], [x for x in base.split("/") if x]
    return c[: len(b)] == b


def norm_abs(p):
    return os.path.normpath(os.path.join(os.getcwd(), p))


def case_sanitize(name, out):
    base = norm_abs(out if out is not None else ".")
    try:
        r = helpers.get_sanitized_output_path(name, None if out is None else pathlib.Path(out))
    except Bad7zFile:
        r = None
    except Exception as e:  # noqa
        return "get_sanitized_output_path(%r, %r) raised %s: %s" % (name, out, type(e).__name__, str(e)[:80])
    comps = [x for x in name.split("/") if x not in ("", ".")]
    rest = name.lstrip("/")
    rest = rest[2:] if rest.startswith("./") else rest
    plain = ".." not in comps and not rest.startswith("/")  # './/a' names '/a' once the marker is gone: may be refused
    if r is None:
        if plain:
            return "get_sanitized_output_path(%r, %r) rejected a name without '..'" % (name, out)
        return None
    if out is None and r.is_absolute():
        return "get_sanitized_output_path(%r, None) returned the absolute path %s" % (name, r)
    got = os.path.normpath(os.path.join(os.getcwd(), str(r)))
    if not inside(got, base):
        return "get_sanitized_output_path(%r, %r) returned %s, outside %s" % (name, out, r, base)
    if plain:
        want = os.path.normpath(os.path.join(base, *comps)) if comps else base
        if got != want:
            return "get_sanitized_output_path(%r, %r) returned %s, expected %s" % (name, out, got, want)
    return None


def case_relative(p, base):
    want = inside(p, norm_abs(base))
    if os.path.isabs(base):
        try:
            got = helpers.is_relative_to(pathlib.Path(p), pathlib.Path(base))
        except Exception as e:  # noqa
            return "is_relative_to(%r, %r) raised %s" % (p, base, type(e).__name__)
        if bool(got) != want:
            return "is_relative_to(%r, %r) = %r, component-wise containment says %r" % (p, base, got, want)
    # is_path_valid takes a relative destination relative to the current directory
    try:
        got = helpers.is_path_valid(pathlib.Path(p), pathlib.Path(base))
    except Exception as e:  # noqa
        return "is_path_valid(%r, %r) raised %s" % (p, base, type(e).__name__)
    if bool(got) != want:
        return "is_path_valid(%r, %r) = %r, component-wise containment says %r" % (p, base, got, want)
    return None


def case_arcname(name):
    want = not name.startswith("/")
    depth = 0
    for part in [x for x in name.split("/") if x not in ("", ".")]:
        depth += -1 if part == ".." else 1
        if depth < 0:
            want = False
    try:
        got = helpers.check_archive_path(name)
    except Exception as e:  # noqa
        return "check_archive_path(%r) raised %s" % (name, type(e).__name__)
    if bool(got) != want:
        return "check_archive_path(%r) = %r, expected %r" % (name, got, want)
    return None


def names():
    for n in range(0, 5):
        for comps in itertools.product(COMPS, repeat=n):
            for pre in PREFIXES:
                yield pre + "/".join(comps)


def run_case(c):
    if c["kind"] == "sanitize":
        return case_sanitize(c["name"], c["out"])
    if c["kind"] == "relative":
        return case_relative(c["p"], c["base"])
    return case_arcname(c["name"])


def main():
    if len(sys.argv) > 2 and sys.argv[1] == "replay":
        d = json.load(open(sys.argv[2]))
        d = d.get("concrete_input", d)
        r = run_case(d["case"])
        print(json.dumps({"reproduced": r is not None, "detail": r}))
        return 0
    only = sys.argv[3] if len(sys.argv) > 3 else None
    t0 = time.time()
    bad, runs = [], 0

    def note(case, prop, r):
        if r is not None and (only is None or prop == only) and len(bad) < 5:
            bad.append({"case": case, "property": prop, "failure": r})

    seen = set()
    for nm in names():
        if nm in seen:
            continue
        seen.add(nm)
        for out in OUTS:
            runs += 1
            note({"kind": "sanitize", "name": nm, "out": out}, "C03", case_sanitize(nm, out))
        runs += 1
        note({"kind": "arcname", "name": nm}, "C16", case_arcname(nm))
        if nm.startswith("/") and not nm.startswith("//"):
            for p in (os.path.normpath(nm), os.path.normpath(os.getcwd() + nm)):
                for base in OUTS:
                    if base is not None:
                        runs += 1
                        note({"kind": "relative", "p": p, "base": base}, "C03", case_relative(p, base))
    print(json.dumps({"runs": runs, "names": len(seen), "seconds": round(time.time() - t0, 1), "failures": bad}))
    return 0


if __name__ == "__main__":
    sys.exit(main())
