"""BOUNDED stand-in (never counted as proved): compressor.get_methods_names on the real code.

Bound: every arrangement of one or two coders (one folder holding both, or two folders, both orders) over all method
ids of SupportedMethods plus the two named unsupported ids (BCJ2, LZ4), and N seeded arrangements of up to 4 folders
with up to 3 coders each (N = 500 quick / 20000 thorough).
Oracle: the set of names returned equals the set of names of the method ids present (name of an id: the entry of
SupportedMethods.methods with that id; 'BCJ2*' / 'LZ4*' for the two unsupported ids), and no name is returned twice.
Prints one JSON line; `replay <json-file>` re-runs one recorded arrangement."""
import itertools, json, random, sys, time

from py7zr.compressor import SupportedMethods, get_methods_names
from py7zr.properties import CompressionMethod

NAMES = {bytes(m["id"]): m["name"] for m in SupportedMethods.methods}
NAMES[bytes(CompressionMethod.P7Z_BCJ2)] = "BCJ2*"
NAMES[bytes(CompressionMethod.MISC_LZ4)] = "LZ4*"
IDS = sorted(NAMES)


def check(arr):
    """arr: list of folders, each a list of method ids (hex strings)"""
    coders_lists = [[{"method": bytes.fromhex(h), "numinstreams": 1, "numoutstreams": 1} for h in folder] for folder in arr]
    want = {NAMES[bytes.fromhex(h)] for folder in arr for h in folder}
    try:
        got = get_methods_names(coders_lists)
    except Exception as e:  # noqa
        return "raised %s: %s" % (type(e).__name__, str(e)[:80])
    if len(got) != len(set(got)):
        return "a name is listed twice: %r" % (got,)
    if set(got) != want:
        return "summary names %r, coders present %r" % (sorted(got), sorted(want))
    return None


def main():
    if len(sys.argv) > 2 and sys.argv[1] == "replay":
        d = json.load(open(sys.argv[2]))
        d = d.get("concrete_input", d)
        r = check(d["arrangement"])
        print(json.dumps({"reproduced": r is not None, "detail": r}))
        return 0
    tier = sys.argv[1] if len(sys.argv) > 1 else "quick"
    seed = int(sys.argv[2]) if len(sys.argv) > 2 else 0
    hx = [i.hex() for i in IDS]
    arrs = [[[a]] for a in hx]
    for a, b in itertools.product(hx, repeat=2):
        arrs.append([[a, b]])
        arrs.append([[a], [b]])
    rnd = random.Random(seed)
    for _ in range(500 if tier == "quick" else 20000):
        arrs.append([[rnd.choice(hx) for _c in range(rnd.randint(0, 3))] for _f in range(rnd.randint(0, 4))])
    t0 = time.time()
    bad = []
    for a in arrs:
        r = check(a)
        if r is not None:
            bad.append({"arrangement": a, "failure": r})
            if len(bad) >= 5:
                break
    print(json.dumps({"runs": len(arrs), "seconds": round(time.time() - t0, 1), "failures": bad}))
    return 0


if __name__ == "__main__":
    sys.exit(main())
