"""BOUNDED stand-in (never counted as proved) for C05 on the real code: a fixed corpus of structurally hostile
headers (written by the independent encoder of bounded/sections.py / archives.py), each opened, listed, tested and
extracted to memory in a child process under an address-space limit of 1.5 GiB and a 30 s watchdog.

Corpus: counts that promise far more than the input holds (2**36 members; 2**40 substreams in one folder, with and
without a CRC record; 2**40 folders; 2**40 pack streams with and without sizes; 2**40 coders; 2**40 bind pairs; a
property record of 2**40 bytes; a member / an encoded header that declares 2**40 output bytes over a 3-byte stream),
an encoded header whose pack stream is the record itself, and two that point at each other.
Oracle (statement of C05): every call returns or raises an ordinary exception - no MemoryError at that limit, no
watchdog expiry, no death of the interpreter.  Prints one JSON line; `replay <json-file>` re-runs one case."""
import json, os, struct, subprocess, sys, time, zlib

sys.path.insert(0, os.path.dirname(os.path.abspath(__file__)))
import sections as S  # noqa: E402

N = S.number
BIG = 1 << 40
COPY_FOLDER = b"\x01" + b"\x01\x00"  # one coder: id size 1, id 00 (COPY), no properties


def archive(hdr, body=b""):
    start = struct.pack("<QQL", len(body), len(hdr), zlib.crc32(hdr))
    return b"7z\xbc\xaf\x27\x1c\x00\x04" + struct.pack("<L", zlib.crc32(start)) + start + body + hdr


def files(n_names, count=None):
    names = b"\x00" + b"".join(("m%d" % i).encode("utf-16-le") + b"\x00\x00" for i in range(n_names))
    return b"\x05" + N(n_names if count is None else count) + b"\x11" + N(len(names)) + names + b"\x00"


def streams(pack, folders_count=1, folder=COPY_FOLDER, unpack=(3,), sub=b""):
    o = b"\x06" + N(0) + pack + b"\x00"
    o += b"\x07\x0b" + N(folders_count) + b"\x00" + folder + b"\x0c" + b"".join(N(u) for u in unpack) + b"\x00"
    return o + sub + b"\x00"


def self_referential(n):
    """n encoded-header records, record k's pack stream is record (k+1) mod n (n = 1: itself)"""
    size = 20
    for _ in range(6):
        recs = []
        for k in range(n):
            pos = ((k + 1) % n) * size
            r = b"\x17" + b"\x06" + N(pos) + N(1) + b"\x09" + N(size) + b"\x00" + b"\x07\x0b" + N(1) + b"\x00" + COPY_FOLDER + b"\x0c" + N(size) + b"\x00" + b"\x00"
            recs.append(r)
        if all(len(r) == size for r in recs):
            break
        size = max(len(r) for r in recs)
    recs = [r + b"\x00" * (size - len(r)) for r in recs]
    body = b"".join(recs[1:])
    hdr = recs[0]
    # layout: records 1..n-1 first (packed area), record 0 is the next header; positions are relative to byte 32
    order = recs[1:] + [recs[0]]
    where = {((i + 1) % n if n > 1 else 0): i * size for i in range(n)}
    fixed = []
    for k in range(n):
        pos = where[(k + 1) % n]
        r = b"\x17" + b"\x06" + N(pos) + N(1) + b"\x09" + N(size) + b"\x00" + b"\x07\x0b" + N(1) + b"\x00" + COPY_FOLDER + b"\x0c" + N(size) + b"\x00" + b"\x00"
        fixed.append(r + b"\x00" * (size - len(r)))
    body = b"".join(fixed[1:])
    hdr = fixed[0]
    start = struct.pack("<QQL", len(body), len(hdr), zlib.crc32(hdr))
    return b"7z\xbc\xaf\x27\x1c\x00\x04" + struct.pack("<L", zlib.crc32(start)) + start + body + hdr


def corpus():
    c = {}
    c["members-2^36"] = archive(b"\x01" + files(0, 1 << 36) + b"\x00")
    c["members-2^36-one-name"] = archive(b"\x01" + files(1, 1 << 36) + b"\x00")
    one = b"\x09" + N(3)
    c["substreams-2^40"] = archive(b"\x01\x04" + streams(N(1) + one, sub=b"\x08\x0d" + N(BIG) + b"\x00") + files(1) + b"\x00", b"abc")
    c["substreams-2^40-crc-all-defined"] = archive(b"\x01\x04" + streams(N(1) + one, sub=b"\x08\x0d" + N(BIG) + b"\x0a\x01" + b"\x00") + files(1) + b"\x00", b"abc")
    c["substreams-2^40-sizes"] = archive(b"\x01\x04" + streams(N(1) + one, sub=b"\x08\x0d" + N(BIG) + b"\x09" + N(1) + b"\x00") + files(1) + b"\x00", b"abc")
    c["folders-2^40"] = archive(b"\x01\x04" + streams(N(1) + one, folders_count=BIG) + files(1) + b"\x00", b"abc")
    c["packstreams-2^40-sizes"] = archive(b"\x01\x04" + streams(N(BIG) + one) + files(1) + b"\x00", b"abc")
    c["packstreams-2^40-no-sizes"] = archive(b"\x01\x04" + streams(N(BIG)) + files(1) + b"\x00", b"abc")
    c["coders-2^40"] = archive(b"\x01\x04" + streams(N(1) + one, folder=N(BIG) + b"\x01\x00") + files(1) + b"\x00", b"abc")
    c["coder-streams-2^40"] = archive(b"\x01\x04" + streams(N(1) + one, folder=b"\x01" + b"\x11\x00" + N(BIG) + N(BIG)) + files(1) + b"\x00", b"abc")
    c["property-record-2^40-bytes"] = archive(b"\x01\x05" + N(1) + b"\x11" + N(BIG) + b"\x00m\x000\x00\x00\x00" + b"\x00\x00")
    c["dummy-record-2^40-bytes"] = archive(b"\x01\x05" + N(1) + b"\x19" + N(BIG) + b"\x00" + b"\x00")
    c["member-declares-2^40-bytes"] = archive(b"\x01\x04" + streams(N(1) + one, unpack=(BIG,)) + files(1) + b"\x00", b"abc")
    enc = b"\x17" + b"\x06" + N(0) + N(1) + b"\x09" + N(3) + b"\x00" + b"\x07\x0b" + N(1) + b"\x00" + COPY_FOLDER + b"\x0c" + N(BIG) + b"\x00" + b"\x00"
    c["encoded-header-declares-2^40-bytes"] = archive(enc, b"\x01\x00\x00")
    c["encoded-header-is-its-own-pack-stream"] = self_referential(1)
    c["two-encoded-headers-pointing-at-each-other"] = self_referential(2)
    return c


CHILD = r"""
import resource, io, sys
resource.setrlimit(resource.RLIMIT_AS, (3 << 29, 3 << 29))
import py7zr, py7zr.io
raw = bytes.fromhex(sys.argv[1])
steps = []
def step(name, fn):
    try:
        fn()
        steps.append(name + ":ok")
    except MemoryError:
        steps.append(name + ":MemoryError")
        print(" ".join(steps)); sys.exit(0)
    except Exception as e:
        steps.append(name + ":" + type(e).__name__)
box = {}
def op():
    box["z"] = py7zr.SevenZipFile(io.BytesIO(raw))
step("open", op)
if "z" in box:
    z = box["z"]
    step("list", lambda: (z.getnames(), z.list()))
    step("testzip", lambda: z.testzip())
    def ex():
        z2 = py7zr.SevenZipFile(io.BytesIO(raw))
        z2.extractall(factory=py7zr.io.BytesIOFactory(1 << 20))
    step("extract", ex)
print(" ".join(steps))
"""


def run_case(raw_hex):
    t0 = time.time()
    try:
        p = subprocess.run([sys.executable, "-c", CHILD, raw_hex], capture_output=True, text=True, timeout=30, env=os.environ)
    except subprocess.TimeoutExpired:
        return "still running after 30 s"
    out = p.stdout.strip().split("\n")[-1] if p.stdout.strip() else ""
    if p.returncode != 0 or not out:
        return "the interpreter died (rc=%s): %s" % (p.returncode, p.stderr.strip()[-160:])
    if "MemoryError" in out:
        return "MemoryError under a 1.5 GiB address-space limit (%s)" % out
    if time.time() - t0 > 20:
        return "took %.0f s (%s)" % (time.time() - t0, out)
    return None


def main():
    if len(sys.argv) > 2 and sys.argv[1] == "replay":
        d = json.load(open(sys.argv[2]))
        d = d.get("concrete_input", d)
        r = run_case(d["archive_hex"])
        print(json.dumps({"reproduced": r is not None, "detail": r}))
        return 0
    t0 = time.time()
    bad = []
    cp = corpus()
    for name, raw in cp.items():
        r = run_case(raw.hex())
        if r is not None:
            bad.append({"case": name, "archive_hex": raw.hex(), "bytes": len(raw), "failure": "%s (%d bytes): %s" % (name, len(raw), r)})
    print(json.dumps({"runs": len(cp), "seconds": round(time.time() - t0, 1), "failures": bad}))
    return 0


if __name__ == "__main__":
    sys.exit(main())
