"""BOUNDED stand-in (never counted as proved) for streaming in bounded memory (C20), on the real code under
/venv/bin/python: peak Python-level allocation (tracemalloc) while one member of S bytes is archived from disk to an
archive on disk, and while it is extracted to disk and to a null writer, for S = 320 MiB and S = 640 MiB (thorough:
also 1280 MiB for the two small-archive cases) and the chains COPY, LZMA2 (preset 1), ZStandard (thorough: also BZip2, Deflate).  The sizes lie beyond
the 128 MB chunk that get_memory_limit() allows one decoding step to produce, where a bounded working set has
stopped growing.

Data: `half` = every other byte random (compresses to about one half, so every block of encoder output stays below
the block size) and `rep` = one such MiB repeated (compresses to almost nothing: the small archive with a large
declared output).
Oracle (statement of C20: the peak stays within a FIXED budget however large the member is): the peak may not grow
with the member - flagged when peak(640 MiB) - peak(320 MiB) exceeds 80 MiB, a quarter of the 320 MiB the member grew
by (a working set proportional to the member - compressed or not - passes 700 MiB at a few GiB), or when any peak
exceeds the 700 MiB budget itself.  Prints one JSON line."""
import gc, json, os, shutil, sys, tempfile, time, tracemalloc

import py7zr
import py7zr.io

MIB = 1 << 20
CHAINS = {
    "copy": [{"id": py7zr.FILTER_COPY}],
    "lzma2": [{"id": py7zr.FILTER_LZMA2, "preset": 1}],
    "bzip2": [{"id": py7zr.FILTER_BZIP2}],
    "zstd": [{"id": py7zr.FILTER_ZSTD, "level": 3}],
    "deflate": [{"id": py7zr.FILTER_DEFLATE}],
}


def make_file(path, size, kind):
    """half: every other byte random (fresh for every MiB), compresses to roughly one half;
    rep: one MiB of such data repeated, compresses to almost nothing (the small-archive / large-output case)"""
    def fresh():
        b = bytearray(MIB)
        b[0::2] = os.urandom(MIB // 2)
        return bytes(b)

    rep = fresh()
    with open(path, "wb") as f:
        left = size
        while left > 0:
            blk = fresh() if kind == "half" else rep
            f.write(blk[: min(left, MIB)])
            left -= MIB


class NullIO(py7zr.io.Py7zIO):
    def __init__(self):
        self.n = 0

    def write(self, s):
        self.n += len(s)
        return len(s)

    def read(self, size=None):
        return b""

    def seek(self, offset, whence=0):
        return 0

    def flush(self):
        pass

    def size(self):
        return self.n


class NullFactory(py7zr.io.WriterFactory):
    def create(self, filename):
        return NullIO()


def peak_of(fn):
    gc.collect()
    tracemalloc.start()
    try:
        fn()
        return tracemalloc.get_traced_memory()[1]
    finally:
        tracemalloc.stop()


def measure(chain, kind, size, d):
    src = os.path.join(d, "src.bin")
    arc = os.path.join(d, "a.7z")
    out = os.path.join(d, "out")
    make_file(src, size, kind)

    def create():
        with py7zr.SevenZipFile(arc, "w", filters=CHAINS[chain]) as z:
            z.write(src, "m.bin")

    def to_disk():
        with py7zr.SevenZipFile(arc) as z:
            z.extractall(path=out)

    def to_null():
        with py7zr.SevenZipFile(arc) as z:
            z.extractall(factory=NullFactory())

    r = {"create": peak_of(create), "extract-to-disk": peak_of(to_disk), "extract-to-writer": peak_of(to_null)}
    ok = os.path.getsize(os.path.join(out, "m.bin")) == size
    shutil.rmtree(out, ignore_errors=True)
    os.remove(arc)
    os.remove(src)
    if not ok:
        r["error"] = "extracted size differs"
    return r


def main():
    if len(sys.argv) > 2 and sys.argv[1] == "replay":
        d = json.load(open(sys.argv[2]))
        d = d.get("concrete_input", d)
        case = d["case"]
        tmp = tempfile.mkdtemp(prefix="verif_mem.")
        try:
            a, b = measure(case["chain"], case["data"], 320 * MIB, tmp), measure(case["chain"], case["data"], 640 * MIB, tmp)
        finally:
            shutil.rmtree(tmp, ignore_errors=True)
        op = case.get("operation", "create")
        bad = b[op] - a[op] > 80 * MIB or b[op] > 700 * MIB
        print(json.dumps({"reproduced": bool(bad), "detail": "%s: %.1f MiB at 320 MiB, %.1f MiB at 640 MiB" % (op, a[op] / MIB, b[op] / MIB)}))
        return 0
    tier = sys.argv[1] if len(sys.argv) > 1 else "quick"
    sizes = [320 * MIB, 640 * MIB]
    big = {("lzma2", "rep"), ("zstd", "rep")} if tier == "thorough" else set()  # these two also at 1280 MiB
    combos = [(c, k) for c in CHAINS for k in ("half", "rep")] if tier == "thorough" else [("lzma2", "rep"), ("zstd", "half"), ("zstd", "rep"), ("deflate", "rep")]
    d = tempfile.mkdtemp(prefix="verif_mem.", dir=os.environ.get("VERIF_SCRATCH") or None)
    t0 = time.time()
    bad, table = [], []
    try:
        for chain, kind in combos:
            peaks = [measure(chain, kind, s, d) for s in sizes + ([1280 * MIB] if (chain, kind) in big else [])]
            table.append({"chain": chain, "data": kind, "peaks_mib": [{k: round(v / MIB, 1) for k, v in p.items() if k != "error"} for p in peaks]})
            for op in ("create", "extract-to-disk", "extract-to-writer"):
                lo, hi = peaks[0][op], peaks[1][op]
                grew = sizes[1] - sizes[0]
                if hi - lo > grew // 4:
                    bad.append({"case": {"chain": chain, "data": kind, "operation": op}, "failure": "%s, %s chain, %s data: peak allocation grows with the member (%.1f MiB at %d MiB, %.1f MiB at %d MiB)" % (op, chain, kind, lo / MIB, sizes[0] // MIB, hi / MIB, sizes[1] // MIB)})
                hi = max(p[op] for p in peaks)
                if hi > 700 * MIB:
                    bad.append({"case": {"chain": chain, "data": kind, "operation": op}, "failure": "%s: peak %.0f MiB exceeds the 700 MiB budget" % (op, hi / MIB)})
            if any("error" in p for p in peaks):
                bad.append({"case": {"chain": chain, "data": kind}, "failure": "round trip lost bytes"})
    finally:
        shutil.rmtree(d, ignore_errors=True)
    print(json.dumps({"runs": (len(combos) * len(sizes) + len(big)) * 3, "seconds": round(time.time() - t0, 1), "table": table, "failures": bad[:3]}))
    return 0


if __name__ == "__main__":
    sys.exit(main())
