"""witness: a member protected only by a folder-level CRC is damaged; testzip() must not report 'no damage'
(archive written by the independent writer bounded/archives.py from the recorded description)"""
import json, os, subprocess, sys
here = os.path.dirname(os.path.abspath(__file__))
p = subprocess.run([sys.executable, os.path.join(here, "..", "bounded", "archives.py"), "replay", os.path.join(here, "f27_testzip_folder_crc.json")], capture_output=True, text=True, env=os.environ)
try:
    r = json.loads(p.stdout.strip().split("\n")[-1])
    print(json.dumps({"reproduced": bool(r["reproduced"]), "detail": str(r.get("detail"))}))
except Exception as e:
    print(json.dumps({"reproduced": False, "detail": "witness could not run: %s %s" % (e, p.stderr[-200:])}))
