"""witness: archiveinfo() of archives without data streams (no members at all; only directories / empty files as the
reference implementation writes them: no MainStreamsInfo)"""
import json, os, shutil, tempfile
import py7zr
d = tempfile.mkdtemp()
res = {}
try:
    p = os.path.join(d, "empty.7z")
    with py7zr.SevenZipFile(p, "w") as z:
        pass
    cases = [p] + [os.path.join(os.environ.get("VERIF_REPO", "/repo"), "tests", "data", n) for n in ("test_folder.7z", "hidden_linux_file.7z")]
    for p in cases:
        if not os.path.exists(p):
            continue
        with py7zr.SevenZipFile(p, "r") as z:
            try:
                ai = z.archiveinfo()
                ok = ai.blocks == 0 and ai.method_names == [] and ai.solid is False and ai.uncompressed == sum(f.uncompressed for f in z.files)
                res[os.path.basename(p)] = "ok" if ok else "wrong summary %r" % ((ai.blocks, ai.method_names, ai.solid, ai.uncompressed),)
            except Exception as e:
                res[os.path.basename(p)] = "%s: %s" % (type(e).__name__, str(e)[:80])
    print(json.dumps({"reproduced": any(v != "ok" for v in res.values()), "detail": json.dumps(res)}))
except Exception as e:
    print(json.dumps({"reproduced": True, "detail": "%s: %s" % (type(e).__name__, str(e)[:160])}))
finally:
    shutil.rmtree(d, ignore_errors=True)
