"""witness: a directory entry between two files of one folder of a multi-folder archive"""
import io, json, os, tempfile
import py7zr, py7zr.io
d = tempfile.mkdtemp(); os.mkdir(os.path.join(d, "dir"))
buf = io.BytesIO()
with py7zr.SevenZipFile(buf, "w") as z:
    z.writestr(b"A" * 100, "a.txt")
    z.write(os.path.join(d, "dir"), "dir")
    z.writestr(b"B" * 50, "b.txt")
buf.seek(0)
with py7zr.SevenZipFile(buf, "a") as z:
    z.writestr(b"C" * 25, "c.txt")
buf.seek(0)
try:
    with py7zr.SevenZipFile(buf) as z:
        names = z.getnames()
        fac = py7zr.io.BytesIOFactory(1 << 20); z.extractall(factory=fac)
        got = {k: len(v.read()) for k, v in fac.products.items()}
    ok = got == {"a.txt": 100, "b.txt": 50, "c.txt": 25}
    print(json.dumps({"reproduced": not ok, "detail": "names=%s extracted=%s" % (names, got)}))
except Exception as e:
    print(json.dumps({"reproduced": True, "detail": "%s: %s" % (type(e).__name__, str(e)[:160])}))
