"""witness: list() of an archive in which the second member has no stored modification time"""
import io, json
import py7zr
buf = io.BytesIO()
with py7zr.SevenZipFile(buf, "w") as z:
    z.writestr(b"A" * 100, "a.txt")
    z.writestr(b"B" * 50, "b.txt")
    del z.header.files_info.files[1]["lastwritetime"]      # what a writer that knows no time for b.txt stores
buf.seek(0)
try:
    with py7zr.SevenZipFile(buf) as z:
        stored = [f.lastwritetime for f in z.files]
        shown = [fi.creationtime for fi in z.list()]
    bad = stored[1] is None and shown[1] is not None
    print(json.dumps({"reproduced": bool(bad), "detail": "stored times %s, listed %s" % ([str(s) for s in stored], [str(s) for s in shown])}))
except Exception as e:
    print(json.dumps({"reproduced": True, "detail": "%s: %s" % (type(e).__name__, str(e)[:160])}))
