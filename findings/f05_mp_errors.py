"""Known finding F05 (C13): with mp=True (multiprocessing.Process workers) an error met by a worker is lost,
because the exception queue and the writer-factory outputs live in the child's copy of the parent's objects.
Prints one JSON line {"reproduced": bool, "detail": ...}."""
import io, json, os, sys, tempfile, signal
signal.alarm(50)
import py7zr

def main():
    d = tempfile.mkdtemp()
    try:
        p = os.path.join(d, "two.7z")
        with py7zr.SevenZipFile(p, "w", filters=[{"id": py7zr.FILTER_COPY}]) as z:
            z.writestr(b"A" * 2000, "a.bin")
        with py7zr.SevenZipFile(p, "a", filters=[{"id": py7zr.FILTER_COPY}]) as z:
            z.writestr(b"B" * 2000, "b.bin")
        raw = bytearray(open(p, "rb").read())
        raw[32 + 2000 + 100] ^= 0xFF  # damage the second folder's stored bytes
        open(p, "wb").write(raw)
        def run(mp):
            out = os.path.join(d, "out_%s" % mp)
            try:
                with py7zr.SevenZipFile(p, "r", mp=mp) as z:
                    z.extractall(out)
                return "no exception"
            except Exception as e:
                return type(e).__name__
        threads, procs = run(False), run(True)
        print(json.dumps({"reproduced": threads != "no exception" and procs == "no exception", "detail": "threads: %s; processes (mp=True): %s" % (threads, procs)}))
    finally:
        import shutil
        shutil.rmtree(d, ignore_errors=True)

main()
