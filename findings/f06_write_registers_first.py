"""Known finding F06 (C15): SevenZipFile.write() registers the member in the header lists BEFORE Worker.archive
opens the source; when open() fails the exception reaches the caller but the stale entry stays registered and the
archive written at close is unreadable.  Prints {"reproduced": bool, "detail": ...}."""
import io, json, os, tempfile, signal, shutil
signal.alarm(50)
import py7zr

d = tempfile.mkdtemp()
try:
    good = os.path.join(d, "good.txt"); open(good, "w").write("good")
    secret = os.path.join(d, "noperm.txt"); open(secret, "w").write("x")
    arc = os.path.join(d, "a.7z")
    z = py7zr.SevenZipFile(arc, "w")
    z.writestr(b"first", "first.txt")
    import builtins, pathlib
    real_open = pathlib.Path.open
    def failing_open(self, *a, **k):
        if str(self) == secret:
            raise PermissionError(13, "Permission denied", str(self))
        return real_open(self, *a, **k)
    pathlib.Path.open = failing_open
    raised = None
    try:
        z.write(secret, "noperm.txt")
    except Exception as e:
        raised = type(e).__name__
    finally:
        pathlib.Path.open = real_open
    after = None
    try:
        z.writestr(b"second", "second.txt")
        z.close()
        with py7zr.SevenZipFile(arc) as r:
            names = r.getnames()
            r.extractall(os.path.join(d, "out"))
        after = "ok names=%s" % names
    except Exception as e:
        after = "%s: %s" % (type(e).__name__, str(e)[:80])
    ok_names = after.startswith("ok") and "noperm.txt" not in after
    print(json.dumps({"reproduced": raised is not None and not ok_names, "detail": "write() raised %s; afterwards: %s" % (raised, after)}))
finally:
    shutil.rmtree(d, ignore_errors=True)
