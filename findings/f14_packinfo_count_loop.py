"""witness: a 45-byte archive whose PackInfo declares 2**40 pack streams but carries no Size record:
the constructor must fail with an ordinary exception quickly instead of looping over the declared count"""
import io, struct, zlib, json, time, signal
import py7zr

def num(v):  # NUMBER encoding (format table)
    out = io.BytesIO(); py7zr.archiveinfo.write_uint64(out, v); return out.getvalue()

hdr = b"\x01\x04\x06" + num(0) + num(1 << 40) + b"\x00" + b"\x00\x00"   # Header, MainStreamsInfo, PackInfo(packpos 0, 2^40 streams, END), END, END
raw = b"7z\xbc\xaf\x27\x1c\x00\x04" + b"\0" * 4 + struct.pack("<QQL", 0, len(hdr), zlib.crc32(hdr))
raw = raw[:8] + struct.pack("<L", zlib.crc32(raw[12:32])) + raw[12:] + hdr

def alarm(*a):
    raise TimeoutError()
signal.signal(signal.SIGALRM, alarm); signal.alarm(10)
t0 = time.time()
try:
    py7zr.SevenZipFile(io.BytesIO(raw)).close()
    res = {"reproduced": False, "detail": "opened in %.2fs" % (time.time() - t0)}
except TimeoutError:
    res = {"reproduced": True, "detail": "constructor still running after 10 s on a %d-byte input" % len(raw)}
except Exception as e:
    res = {"reproduced": False, "detail": "%s after %.2fs: %s" % (type(e).__name__, time.time() - t0, str(e)[:80])}
print(json.dumps(res))
