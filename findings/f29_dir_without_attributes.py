"""witness wrapper: see f29_f30_reference_metadata.py (dir)"""
import os, runpy, sys
sys.argv = [sys.argv[0], "dir"]
runpy.run_path(os.path.join(os.path.dirname(os.path.abspath(__file__)), "f29_f30_reference_metadata.py"), run_name="__main__")
