"""witness: the packed streams may start anywhere after the signature header (PackInfo pack position > 0)"""
import io, struct, zlib, json
import py7zr, py7zr.io

def build(pad):
    buf = io.BytesIO()
    with py7zr.SevenZipFile(buf, "w") as z:
        z.set_encoded_header_mode(False)
        z.writestr(b"hello world" * 20, "a.txt")
        z.writestr(b"second file" * 30, "b.txt")
    raw = bytearray(buf.getvalue())
    ofs, size = struct.unpack("<QQ", raw[12:28])
    hdr = bytes(raw[32 + ofs: 32 + ofs + size])
    assert hdr[:4] == b"\x01\x04\x06\x00", hdr[:8].hex()          # Header, MainStreamsInfo, PackInfo, packpos = 0
    hdr2 = hdr[:3] + bytes([pad]) + hdr[4:]
    body = bytes(raw[32: 32 + ofs])
    new = bytes(raw[:32]) + b"\xaa" * pad + body + hdr2
    new = bytearray(new)
    new[12:32] = struct.pack("<QQL", ofs + pad, len(hdr2), zlib.crc32(hdr2))
    new[8:12] = struct.pack("<L", zlib.crc32(bytes(new[12:32])))
    return bytes(new)

res = {}
for pad in (0, 7):
    data = build(pad)
    try:
        with py7zr.SevenZipFile(io.BytesIO(data)) as z:
            fac = py7zr.io.BytesIOFactory(1 << 20); z.extractall(factory=fac)
            got = {k: len(v.read()) for k, v in fac.products.items()}
        ok = got == {"a.txt": 220, "b.txt": 330}
        if ok and pad:
            # append onto it and read everything back
            buf = io.BytesIO(data)
            with py7zr.SevenZipFile(buf, "a") as z:
                z.writestr(b"third" * 7, "c.txt")
            buf.seek(0)
            with py7zr.SevenZipFile(buf) as z:
                fac = py7zr.io.BytesIOFactory(1 << 20); z.extractall(factory=fac)
                got = {k: len(v.read()) for k, v in fac.products.items()}
            ok = got == {"a.txt": 220, "b.txt": 330, "c.txt": 35}
        res[pad] = "ok" if ok else "wrong: %s" % got
    except Exception as e:
        res[pad] = "%s: %s" % (type(e).__name__, str(e)[:80])
print(json.dumps({"reproduced": res[0] == "ok" and res[7] != "ok", "detail": "packpos=0 -> %s; packpos=7 -> %s" % (res[0], res[7])}))
