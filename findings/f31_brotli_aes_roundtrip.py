"""witness (OPEN finding F31): a 100-byte member written with the chain [Brotli, 7zAES] is read back"""
import io, json
import py7zr, py7zr.io
data = (bytes(range(256)) * 4)[:100]
b = io.BytesIO()
try:
    with py7zr.SevenZipFile(b, "w", filters=[{"id": py7zr.FILTER_BROTLI, "level": 5}, {"id": py7zr.FILTER_CRYPTO_AES256_SHA256}], password="pw") as z:
        z.writestr(data, "a.bin")
    b.seek(0)
    with py7zr.SevenZipFile(b, password="pw") as z:
        fac = py7zr.io.BytesIOFactory(1 << 20)
        z.extractall(factory=fac)
        got = fac.products["a.bin"].read()
    print(json.dumps({"reproduced": got != data, "detail": "read back %d bytes, %s" % (len(got), "equal" if got == data else "different")}))
except Exception as e:
    print(json.dumps({"reproduced": True, "detail": "%s: %s" % (type(e).__name__, str(e)[:160])}))
