"""witness: a 49-byte archive whose FilesInfo declares 2**36 members (and holds none): opening it must fail quickly
with an ordinary exception instead of allocating one record per declared member.  Runs the constructor in a child
process under a 1 GiB address-space limit and a 20 s watchdog."""
import json, os, struct, subprocess, sys, zlib

def number(v):
    for extra in range(8):
        if v < 1 << (7 * (extra + 1)):
            lead = (0xFF << (8 - extra)) & 0xFF
            return bytes([lead | (v >> (8 * extra))]) + (v & ((1 << (8 * extra)) - 1)).to_bytes(extra, "little")
    return b"\xff" + v.to_bytes(8, "little")

hdr = b"\x01\x05" + number(1 << 36) + b"\x00\x00"
start = struct.pack("<QQL", 0, len(hdr), zlib.crc32(hdr))
raw = b"7z\xbc\xaf\x27\x1c\x00\x04" + struct.pack("<L", zlib.crc32(start)) + start + hdr
child = (
    "import resource, io, sys\n"
    "resource.setrlimit(resource.RLIMIT_AS, (1 << 30, 1 << 30))\n"
    "import py7zr\n"
    "raw = bytes.fromhex(%r)\n"
    "try:\n"
    "    py7zr.SevenZipFile(io.BytesIO(raw)).getnames()\n"
    "    print('opened')\n"
    "except MemoryError:\n"
    "    print('MemoryError')\n"
    "except Exception as e:\n"
    "    print('ordinary', type(e).__name__)\n"
) % raw.hex()
try:
    p = subprocess.run([sys.executable, "-c", child], capture_output=True, text=True, timeout=20, env=os.environ)
    out = p.stdout.strip().split("\n")[-1] if p.stdout.strip() else "died rc=%s %s" % (p.returncode, p.stderr[-120:])
except subprocess.TimeoutExpired:
    out = "still running after 20 s"
print(json.dumps({"reproduced": not out.startswith("ordinary"), "detail": "%d-byte archive declaring 2**36 members: %s" % (len(raw), out)}))
