"""witness: the header of an archive whose pack streams carry CRCs for only some streams is re-serialised
(what every append session does at close).  Runs bounded/sections.py on the recorded description."""
import json, os, subprocess, sys
here = os.path.dirname(os.path.abspath(__file__))
p = subprocess.run([sys.executable, os.path.join(here, "..", "bounded", "sections.py"), "replay", os.path.join(here, "f22_partial_pack_crc.json")], capture_output=True, text=True, env=os.environ)
try:
    r = json.loads(p.stdout.strip().split("\n")[-1])
    print(json.dumps({"reproduced": bool(r["reproduced"]), "detail": str(r.get("detail"))}))
except Exception as e:
    print(json.dumps({"reproduced": False, "detail": "witness could not run: %s %s" % (e, p.stderr[-200:])}))
