"""witness: a member whose modification time is undefined (legal: the time vector is partially defined)"""
import io, json, os, tempfile
import py7zr
buf = io.BytesIO()
with py7zr.SevenZipFile(buf, "w") as z:
    z.writestr(b"A" * 100, "a.txt")
    z.writestr(b"B" * 50, "b.txt")
    del z.header.files_info.files[0]["lastwritetime"]      # what a writer that knows no time for a.txt stores
buf.seek(0)
out = tempfile.mkdtemp()
try:
    with py7zr.SevenZipFile(buf) as z:
        times = [f.lastwritetime for f in z.files]
        z.extractall(path=out)
    got = sorted(os.listdir(out))
    ok = got == ["a.txt", "b.txt"] and times[0] is None and times[1] is not None
    print(json.dumps({"reproduced": not ok, "detail": "extracted=%s times=%s" % (got, times)}))
except Exception as e:
    print(json.dumps({"reproduced": True, "detail": "%s: %s" % (type(e).__name__, str(e)[:160])}))
