"""witnesses for two OPEN findings, both on an archive from the independent writer (bounded/archives.py + sections.py)
holding a directory 'd', an empty file 'e.txt' (EmptyStream + EmptyFile flags) and a file 'f.txt':
  dir   (F29, C06)  the archive stores NO attributes: the format says an empty stream that is not flagged as an empty
                    file is a directory; py7zr decides by the attribute word only and extracts 'd' as an empty file;
  append (F30, C08) the archive stores creation times and the EmptyFile vector: after one append session the creation
                    times of the old members and the EmptyFile flags are gone from the header.
usage: f29_f30_reference_metadata.py dir|append"""
import io, json, os, shutil, struct, sys, tempfile, zlib
sys.path.insert(0, os.path.join(os.path.dirname(os.path.abspath(__file__)), "..", "bounded"))
import archives as A, sections as S  # noqa: E402
import py7zr  # noqa: E402

DATA = b"hello world"
D = {"packpos": 0, "packsizes": [len(DATA)], "pack_crc": None,
     "folders": [{"coders": [{"id": [0], "props": None}], "unpacksizes": [len(DATA)], "crc": None, "streams": [{"size": len(DATA), "crc": zlib.crc32(DATA)}]}],
     "substreams": {"count_record": False, "size_record": False, "crc_record": True}, "spell_all": True,
     "members": [{"name": "d", "kind": "dir", "folder": None}, {"name": "e.txt", "kind": "file", "folder": None}, {"name": "f.txt", "kind": "file", "folder": 0}]}


def files_info(members, attrs, ctime):
    o = b"\x05" + S.number(len(members))
    empties = [m["folder"] is None for m in members]
    v = A.bitvec(empties)
    o += b"\x0e" + S.number(len(v)) + v
    v = A.bitvec([m["kind"] == "file" for m, e in zip(members, empties) if e])
    o += b"\x0f" + S.number(len(v)) + v
    names = b"\x00" + b"".join(m["name"].encode("utf-16-le") + b"\x00\x00" for m in members)
    o += b"\x11" + S.number(len(names)) + names
    if ctime:
        t = b"\x01\x00" + b"".join(struct.pack("<Q", 116444736000000000 + 10**7 * 86400 * (i + 1)) for i in range(len(members)))
        o += b"\x12" + S.number(len(t)) + t
    if attrs:
        a = b"\x01\x00" + b"".join(struct.pack("<L", 0x10 if m["kind"] == "dir" else 0x20) for m in members)
        o += b"\x15" + S.number(len(a)) + a
    return o + b"\x00"


def build(attrs, ctime):
    hdr = b"\x01\x04" + S.encode(D) + files_info(D["members"], attrs, ctime) + b"\x00"
    start = struct.pack("<QQL", len(DATA), len(hdr), zlib.crc32(hdr))
    return b"7z\xbc\xaf\x27\x1c\x00\x04" + struct.pack("<L", zlib.crc32(start)) + start + DATA + hdr


def main():
    what = sys.argv[1] if len(sys.argv) > 1 else "dir"
    try:
        if what == "dir":
            out = tempfile.mkdtemp(prefix="verif_f29.")
            try:
                with py7zr.SevenZipFile(io.BytesIO(build(False, False))) as z:
                    flags = {f.filename: f.is_directory for f in z.files}
                    z.extractall(path=out)
                kinds = {n: ("dir" if os.path.isdir(os.path.join(out, n)) else "file") for n in sorted(os.listdir(out))}
            finally:
                shutil.rmtree(out, ignore_errors=True)
            bad = kinds.get("d") != "dir" or flags.get("d") is not True or kinds.get("e.txt") != "file"
            print(json.dumps({"reproduced": bool(bad), "detail": "listed is_directory %s, extracted %s" % (flags, kinds)}))
        else:
            b = io.BytesIO(build(True, True))
            with py7zr.SevenZipFile(io.BytesIO(b.getvalue())) as z:
                before = [z.header.files_info.files[i].get("creationtime") for i in range(3)]
                ef_before = list(z.header.files_info.emptyfiles)
            with py7zr.SevenZipFile(b, "a") as z:
                z.writestr(b"x", "new.txt")
            b.seek(0)
            with py7zr.SevenZipFile(b) as z:
                after = [z.header.files_info.files[i].get("creationtime") for i in range(3)]
                ef_after = list(z.header.files_info.emptyfiles)
            bad = [None if x is None else int(x) for x in after] != [int(x) for x in before] or ef_after[:2] != ef_before[:2]
            print(json.dumps({"reproduced": bool(bad), "detail": "creation times before %s after %s; EmptyFile flags before %s after %s" % ([int(x) for x in before], [None if x is None else int(x) for x in after], ef_before, ef_after)}))
    except Exception as e:
        print(json.dumps({"reproduced": True, "detail": "%s: %s" % (type(e).__name__, str(e)[:160])}))


main()
