"""FX10 witness (C03): links that are individually harmless but escape when followed one through another.
Members: l1 -> '.', l1/l2 -> '..' (lexically dest/l1/.. = dest, really dest/..), l2/evil.txt.
Before the fix evil.txt was written into the PARENT of the destination.  Prints {"reproduced": bool, "detail": ...}."""
import json, os, shutil, signal, tempfile
signal.alarm(50)
import py7zr

d = tempfile.mkdtemp()
try:
    src = os.path.join(d, "src"); os.makedirs(src)
    os.symlink(".", os.path.join(src, "l1"))
    os.symlink("..", os.path.join(src, "l2"))
    arc = os.path.join(d, "a.7z")
    with py7zr.SevenZipFile(arc, "w") as z:
        z.write(os.path.join(src, "l1"), "l1")
        z.write(os.path.join(src, "l2"), "l1/l2")
        z.writestr(b"evil", "l2/evil.txt")
    jail = os.path.join(d, "jail"); dest = os.path.join(jail, "dest"); os.makedirs(dest)
    before = sorted(os.listdir(jail))
    raised = None
    try:
        with py7zr.SevenZipFile(arc) as z:
            z.extractall(dest)
    except Exception as e:
        raised = "%s: %s" % (type(e).__name__, str(e)[:80])
    after = sorted(os.listdir(jail))
    print(json.dumps({"reproduced": after != before, "detail": "outside the destination: %s -> %s; raised: %s" % (before, after, raised)}))
finally:
    shutil.rmtree(d, ignore_errors=True)
