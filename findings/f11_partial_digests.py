"""witness: SubStreamsInfo digests that are only partially defined (7z `Digests` structure: one UINT32 per DEFINED digest)"""
import io, struct, sys, zlib, json
import py7zr

def build(partial):
    buf = io.BytesIO()
    with py7zr.SevenZipFile(buf, "w", filters=[{"id": py7zr.FILTER_COPY}]) as z:
        z.set_encoded_header_mode(False)
        z.writestr(b"hello world", "a.txt")
        z.writestr(b"second file", "b.txt")
    raw = bytearray(buf.getvalue())
    if not partial:
        return bytes(raw)
    ofs, size = struct.unpack("<QQ", raw[12:28])
    hdr = bytes(raw[32 + ofs: 32 + ofs + size])
    c1 = struct.pack("<L", zlib.crc32(b"hello world")); c2 = struct.pack("<L", zlib.crc32(b"second file"))
    old = b"\x0a\x01" + c1 + c2
    assert hdr.count(old) == 1, hdr.hex()
    new = b"\x0a\x00\x80" + c1          # AllAreDefined=0, bit field 10......, CRC of the first (defined) digest only
    hdr2 = hdr.replace(old, new)
    raw[32 + ofs:] = hdr2
    raw[12:32] = struct.pack("<QQL", ofs, len(hdr2), zlib.crc32(hdr2))
    raw[8:12] = struct.pack("<L", zlib.crc32(bytes(raw[12:32])))
    return bytes(raw)

res = {}
for partial in (False, True):
    data = build(partial)
    try:
        with py7zr.SevenZipFile(io.BytesIO(data)) as z:
            names = z.getnames()
            out = z.readall() if hasattr(z, "readall") else None
            res[partial] = ("ok", names, [f.crc32 for f in z.files])
    except Exception as e:
        res[partial] = ("raise", type(e).__name__, str(e)[:80])
print(json.dumps({str(k): v for k, v in res.items()}, default=str))
