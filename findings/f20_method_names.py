"""witness: archiveinfo().method_names of archives whose chains use the Delta filter / the Brotli codec"""
import json, os, shutil, tempfile
import py7zr
d = tempfile.mkdtemp()
got = {}
try:
    for tag, filters, want in (
        ("delta", [{"id": py7zr.FILTER_DELTA}, {"id": py7zr.FILTER_LZMA2, "preset": 1}], {"DELTA", "LZMA2"}),
        ("brotli", [{"id": py7zr.FILTER_BROTLI, "level": 3}], {"Brotli"}),
    ):
        p = os.path.join(d, tag + ".7z")
        with py7zr.SevenZipFile(p, "w", filters=filters) as z:
            z.writestr(b"hello world" * 10, "a.txt")
        with py7zr.SevenZipFile(p, "r") as z:
            got[tag] = (sorted(z.archiveinfo().method_names), sorted(want))
    bad = {k: v for k, v in got.items() if v[0] != v[1]}
    print(json.dumps({"reproduced": bool(bad), "detail": "reported vs coders present: %s" % (bad or got)}))
except Exception as e:
    print(json.dumps({"reproduced": True, "detail": "%s: %s" % (type(e).__name__, str(e)[:160])}))
finally:
    shutil.rmtree(d, ignore_errors=True)
