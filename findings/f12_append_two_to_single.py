import io, py7zr, py7zr.io, json
buf = io.BytesIO()
with py7zr.SevenZipFile(buf, "w") as z:
    z.writestr(b"A"*1000, "a.txt")
buf.seek(0)
with py7zr.SevenZipFile(buf, "a") as z:
    z.writestr(b"B"*777, "b.txt")
    z.writestr(b"C"*55, "c.txt")
buf.seek(0)
try:
    with py7zr.SevenZipFile(buf, "r") as z:
        sizes = [(f.filename, f.uncompressed) for f in z.files]
        fac = py7zr.io.BytesIOFactory(1 << 20); z.extractall(factory=fac); d = fac.products
        got = {k: len(v.read()) for k, v in d.items()}
    ok = sizes == [("a.txt", 1000), ("b.txt", 777), ("c.txt", 55)] and got == {"a.txt": 1000, "b.txt": 777, "c.txt": 55}
    print(json.dumps({"reproduced": not ok, "detail": "sizes=%s extracted=%s" % (sizes, got)}))
except Exception as e:
    print(json.dumps({"reproduced": True, "detail": "%s: %s" % (type(e).__name__, str(e)[:200])}))
