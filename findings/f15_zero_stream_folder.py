import io, py7zr, py7zr.io, json, os, tempfile
d = tempfile.mkdtemp()
os.mkdir(os.path.join(d, "emptydir"))
buf = io.BytesIO()
with py7zr.SevenZipFile(buf, "w") as z:
    z.writestr(b"A"*100, "a.txt"); z.writestr(b"B"*200, "b.txt")
buf.seek(0)
with py7zr.SevenZipFile(buf, "a") as z:
    z.write(os.path.join(d, "emptydir"), "emptydir")
buf.seek(0)
with py7zr.SevenZipFile(buf, "a") as z:
    z.writestr(b"C"*300, "c.txt"); z.writestr(b"D"*400, "d.txt")
buf.seek(0)
try:
    with py7zr.SevenZipFile(buf, "r") as z:
        ss = z.header.main_streams.substreamsinfo
        print("nus", ss.num_unpackstreams_folders, "unpacksizes", ss.unpacksizes)
        sizes = [(f.filename, f.uncompressed) for f in z.files]
        fac = py7zr.io.BytesIOFactory(1 << 20); z.extractall(factory=fac)
        got = {k: len(v.read()) for k, v in fac.products.items()}
    ok = got == {"a.txt": 100, "b.txt": 200, "c.txt": 300, "d.txt": 400}
    print(json.dumps({"reproduced": not ok, "detail": "sizes=%s extracted=%s" % (sizes, got)}))
except Exception as e:
    print(json.dumps({"reproduced": True, "detail": "%s: %s" % (type(e).__name__, str(e)[:200])}))
