"""witness (OPEN finding F26): a 771-byte Brotli archive holding one 400 MiB member of zeros is extracted to a null writer
in a child process; peak Python-level allocation (tracemalloc) must stay within the 700 MiB budget of C20."""
import json, os, subprocess, sys
child = r'''
import os, sys, tempfile, tracemalloc, shutil
import py7zr, py7zr.io
chain = {"zstd": [{"id": py7zr.FILTER_ZSTD, "level": 3}], "brotli": [{"id": py7zr.FILTER_BROTLI, "level": 5}]}[sys.argv[1]]
d = tempfile.mkdtemp(prefix="verif_f25.")
try:
    src = os.path.join(d, "z.bin")
    with open(src, "wb") as f:
        for _ in range(400):
            f.write(bytes(1 << 20))
    arc = os.path.join(d, "a.7z")
    with py7zr.SevenZipFile(arc, "w", filters=chain) as z:
        z.write(src, "z.bin")
    os.remove(src)
    class N(py7zr.io.Py7zIO):
        def __init__(self): self.n = 0
        def write(self, s): self.n += len(s); return len(s)
        def read(self, size=None): return b""
        def seek(self, offset, whence=0): return 0
        def flush(self): pass
        def size(self): return self.n
    class F(py7zr.io.WriterFactory):
        def create(self, filename): return N()
    tracemalloc.start()
    with py7zr.SevenZipFile(arc) as z:
        z.extractall(factory=F())
    print(os.path.getsize(arc), tracemalloc.get_traced_memory()[1])
finally:
    shutil.rmtree(d, ignore_errors=True)
'''
res, bad = {}, False
for chain in ("brotli",):
    try:
        p = subprocess.run([sys.executable, "-c", child, chain], capture_output=True, text=True, timeout=300, env=os.environ)
        size, peak = [int(x) for x in p.stdout.strip().split("\n")[-1].split()]
        res[chain] = "archive of %d bytes, peak %.0f MiB" % (size, peak / (1 << 20))
        bad = bad or peak > 700 * (1 << 20)
    except Exception as e:
        res[chain] = "could not run: %s" % str(e)[:100]
print(json.dumps({"reproduced": bad, "detail": json.dumps(res)}))
