"""witness: a valid archive whose only member's CRC is stored at folder level (UnpackInfo kCRC) and that has NO
SubStreamsInfo at all (one stream per folder: the section may be omitted)"""
import io, struct, zlib, json, sys
import py7zr, py7zr.io

def build():
    buf = io.BytesIO()
    with py7zr.SevenZipFile(buf, "w", filters=[{"id": py7zr.FILTER_COPY}]) as z:
        z.set_encoded_header_mode(False)
        z.writestr(b"hello world", "a.txt")
    raw = bytearray(buf.getvalue())
    ofs, size = struct.unpack("<QQ", raw[12:28])
    hdr = bytes(raw[32 + ofs: 32 + ofs + size])
    crc = struct.pack("<L", zlib.crc32(b"hello world"))
    sub = b"\x08\x0a\x01" + crc + b"\x00"          # SubStreamsInfo: CRC record, END
    assert hdr.count(sub) == 1, hdr.hex()
    i = hdr.index(sub)
    # the UnpackInfo END byte precedes the SubStreamsInfo id: insert the folder CRC record before it
    assert hdr[i - 1] == 0
    hdr2 = hdr[: i - 1] + b"\x0a\x01" + crc + b"\x00" + hdr[i + len(sub):]
    raw[32 + ofs:] = hdr2
    raw[12:32] = struct.pack("<QQL", ofs, len(hdr2), zlib.crc32(hdr2))
    raw[8:12] = struct.pack("<L", zlib.crc32(bytes(raw[12:32])))
    return bytes(raw)

data = build()
try:
    with py7zr.SevenZipFile(io.BytesIO(data)) as z:
        names = z.getnames()
        fac = py7zr.io.BytesIOFactory(1 << 20); z.extractall(factory=fac); out = fac.products
        res = {"reproduced": False, "detail": "read ok: %s %s crc=%s" % (names, {k: v.read().decode() for k, v in out.items()}, [f.crc32 for f in z.files])}
except Exception as e:
    res = {"reproduced": True, "detail": "%s: %s" % (type(e).__name__, str(e)[:120])}
print(json.dumps(res))
