#!/bin/sh
# offline setup: only verifies that the pre-installed tools are present (nothing is built or fetched)
set -e
cd "$(dirname "$0")"
python3-vt -c "import z3; assert z3.get_version_string().startswith('5.')"
test -x /usr/bin/cvc5
/venv/bin/python -c "import py7zr"
mkdir -p evidence replays
echo setup-ok
