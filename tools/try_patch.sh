#!/bin/sh
# usage: tools/try_patch.sh <patch.diff> <PROP> [<PROP>...]   -- run checks against a scratch copy of /repo with the patch applied
set -e
P="$1"; shift
D=$(mktemp -d /tmp/mutrepo.XXXXXX)
cp -r /repo/py7zr "$D/py7zr"
(cd "$D" && patch -p1 -s < "$P")
cd /verif
rc=0
for id in "$@"; do
  VERIF_REPO="$D" timeout 1200 ./check "$id" --tier quick 2>&1 | cut -c1-260 | head -${LINES_MAX:-12}
done
rm -rf "$D"
