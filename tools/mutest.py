#!/usr/bin/env python3
"""Mutation self-test: apply each catalogued source mutant to a scratch copy of /repo/py7zr (outside /repo and
/verif), re-verify the named functions under contract and require that a named obligation is no longer discharged.
Usage: tools/mutest.py [name-substring]   (prints a kill matrix; exit 1 if a mutant survives)"""
import json, os, shutil, subprocess, sys, tempfile, concurrent.futures as cf

HERE = os.path.dirname(os.path.dirname(os.path.abspath(__file__)))
CAT = json.load(open(os.path.join(HERE, "mutants", "catalogue.json")))


def run(m):
    d = tempfile.mkdtemp(prefix="mutrepo.")
    try:
        shutil.copytree("/repo/py7zr", os.path.join(d, "py7zr"))
        p = os.path.join(d, m["file"])
        s = open(p).read()
        if s.count(m["old"]) != 1:
            return m["name"], "anchor-missing(%d)" % s.count(m["old"]), []
        open(p, "w").write(s.replace(m["old"], m["new"]))
        env = dict(os.environ, VERIF_REPO=d)
        args = []
        for t in m["targets"]:
            args += ["--contract", t]
        r = subprocess.run(["python3-vt", "-m", "pyvc.run"] + args, cwd=HERE, env=env, capture_output=True, text=True, timeout=1500)
        bad = [l.split()[1] for l in r.stdout.split("\n") if l.startswith("     refuted") or l.startswith("     unknown")]
        errs = [l for l in r.stdout.split("\n") if " error " in l or " undecided " in l]
        hit = [b for b in bad if m["expect"] in b]
        status = "killed" if hit else ("killed-other" if bad else ("error" if errs else "SURVIVED"))
        return m["name"], status, sorted(set(bad))[:4] + [e[:100] for e in errs[:1]]
    finally:
        shutil.rmtree(d, ignore_errors=True)


def main():
    sel = [m for m in CAT if len(sys.argv) < 2 or sys.argv[1] in m["name"]]
    out = []
    with cf.ThreadPoolExecutor(max_workers=8) as ex:
        for name, status, bad in ex.map(run, sel):
            print("%-45s %-14s %s" % (name, status, " ".join(bad)[:150]))
            out.append({"mutant": name, "status": status, "failed": bad})
    os.makedirs(os.path.join(HERE, "scratch"), exist_ok=True)
    json.dump(out, open(os.path.join(HERE, "scratch", "kill_matrix.json"), "w"), indent=1)
    return 1 if any(o["status"] in ("SURVIVED", "error") or o["status"].startswith("anchor") for o in out) else 0


if __name__ == "__main__":
    sys.exit(main())
