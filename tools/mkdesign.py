#!/usr/bin/env python3-vt
"""Regenerate the generated tables of DESIGN.md section 11: functions under contract (from the contract registry), the
repaired defects (from known_findings.json) and - via tools/mkdesign_matrix.py - the seeded-change matrix."""
import json, os, re, subprocess, sys
HERE = os.path.dirname(os.path.dirname(os.path.abspath(__file__)))
sys.path.insert(0, HERE)
from pyvc.run import load_contracts

r = load_contracts()
rows = {}
for t, c in sorted(r.contracts.items()):
    for p in c.props:
        rows.setdefault(p, []).append("`%s`(%s)" % (t.replace("py7zr.", "", 1), "A" if c.abstract else "E"))
for l in r.lemmas:
    for p in l.props:
        rows.setdefault(p, []).append("lemma `%s`(L)" % l.name)
for s_ in r.scenarios:
    for p in s_.props:
        rows.setdefault(p, []).append("bounded `%s`(B)" % s_.name)
fuc = "%d contracts, %d lemma groups, %d bounded stand-ins (B, never counted as proved).\n\n| property | functions |\n|---|---|\n" % (len(r.contracts), len(r.lemmas), len(r.scenarios))
fuc += "\n".join("| %s | %s |" % (p, ", ".join(rows[p])) for p in sorted(rows))
kf = json.load(open(os.path.join(HERE, "known_findings.json")))
fix = "| id | property | commit | what failed |\n|---|---|---|---|\n"
for e in kf:
    if e.get("status") == "fixed":
        what = re.sub(r"^fixed: property=\S+ \S+ ", "", e["what"])
        what = what.split("; obligation")[0]
        fix += "| %s | %s | %s | %s |\n" % (e["id"], " ".join([e["property"]] + e.get("also_properties", [])), e.get("commit", ""), what.replace("|", "/")[:330])
d = open(os.path.join(HERE, "DESIGN.md")).read()
for a, b, body in (("<!-- FUC-BEGIN -->", "<!-- FUC-END -->", fuc), ("<!-- FIX-BEGIN -->", "<!-- FIX-END -->", fix.rstrip("\n"))):
    d = d[: d.index(a) + len(a)] + "\n" + body + "\n" + d[d.index(b):]
open(os.path.join(HERE, "DESIGN.md"), "w").write(d)
subprocess.run([sys.executable.replace("python3-vt", "python3") if False else "python3", os.path.join(HERE, "tools", "mkdesign_matrix.py")])
print("DESIGN.md tables regenerated")
