#!/usr/bin/env python3
"""Regenerate /verif/MANIFEST.json from the table below (kept in one place so it stays valid)."""
import json, os
HERE = os.path.dirname(os.path.dirname(os.path.abspath(__file__)))
props = [json.loads(l) for l in open(os.path.join(HERE, "properties.jsonl"))]

# id -> (claim text, level_note, design_ref)   ; ids absent here are listed under not_applicable with NA[id]
CLAIMS = {}
NA = {}
TECH_EXTRA = {}
exec(open(os.path.join(HERE, "tools", "claims.py")).read())

TECH = "contract-based deductive verification: VCs generated from /repo's Python AST by /verif/pyvc, discharged by z3 (cvc5 for z3's unknowns)"
checks = []
for p in props:
    pid = p["id"]
    if pid not in CLAIMS:
        continue
    text, note, ref = CLAIMS[pid]
    checks.append({
        "property_id": pid,
        "quick_cmd": "./check %s --tier quick" % pid,
        "thorough_cmd": "./check %s --tier thorough" % pid,
        "evidence_file": "/verif/evidence/%s.json" % pid,
        "replay_cmd_template": "./check %s --replay {path}" % pid,
        "engine": "pyvc",
        "level_claimed": {"category": "proof", "text": text, "design_ref": ref},
        "level_note": note,
        "technique": TECH + TECH_EXTRA.get(pid, ""),
    })
m = {
    "version": 1,
    "setup_cmd": "./setup.sh",
    "hooks": {
        "guard": "PY7ZR_VERIF",
        "enable": "no source hooks exist: contracts are sidecar files under /verif/contracts keyed by module:QualName; every check re-reads /repo/py7zr/*.py",
        "baseline_off_cmd": "cd /repo && /venv/bin/python -m pytest -ra -q -p no:cacheprovider --timeout=900 --continue-on-collection-errors",
        "source_commits": [],
        "add_only": True,
    },
    "engines": [{"name": "pyvc", "path": "/verif/pyvc", "serves_properties": sorted(CLAIMS), "kind_free_text": "VC generator for a Python subset (forward symbolic execution over the real AST, sidecar contracts, loop invariants, modular callee contracts) with z3/cvc5 back ends, counterexample replay on the real code under /venv/bin/python"}],
    "checks": checks,
    "notes": "see DESIGN.md; known findings in known_findings.json; seeded changes in seeded/",
    "not_applicable": [{"property_id": p["id"], "reason": NA.get(p["id"], "check not built yet (framework under construction, see DESIGN.md section 10)")} for p in props if p["id"] not in CLAIMS],
}
json.dump(m, open(os.path.join(HERE, "MANIFEST.json"), "w"), indent=1)
print("checks:", [c["property_id"] for c in checks])
