#!/bin/sh
# usage: tools/try_patch_fuc.sh <patch.diff> <target>...   -- verify single FUCs against a scratch copy with the patch applied
P="$1"; shift
D=$(mktemp -d /tmp/mutrepo.XXXXXX)
cp -r /repo/py7zr "$D/py7zr"
(cd "$D" && patch -p1 -s < "$P") || { echo "patch failed"; rm -rf "$D"; exit 2; }
cd /verif
args=""
for t in "$@"; do args="$args --contract $t"; done
VERIF_REPO="$D" timeout 1200 python3-vt -m pyvc.run $args 2>&1 | cut -c1-200 | sort | uniq -c | sort -rn | head -${LINES_MAX:-8}
rm -rf "$D"
