#!/bin/sh
# regenerate pyvc/havoc_cache/ (loop havoc sets keyed by function source + contract module + engine sources); run after
# editing contracts or the engine, before committing - a stale cache only costs time, never soundness
cd "$(dirname "$0")/.."
rm -rf pyvc/havoc_cache
VERIF_UPDATE_HAVOC_CACHE=1 python3-vt -m pyvc.run > scratch/havoc_update.log 2>&1
ls pyvc/havoc_cache | wc -l
