#!/usr/bin/env python3
"""quick single mutant against the lemmas of a property: tools/mutlemma.py <PROP> <file under py7zr/> <old> <new> [count]"""
import os, shutil, subprocess, sys, tempfile
HERE = os.path.dirname(os.path.dirname(os.path.abspath(__file__)))
prop, f, old, new = sys.argv[1:5]
cnt = int(sys.argv[5]) if len(sys.argv) > 5 else 1
d = tempfile.mkdtemp(prefix="mutrepo.")
try:
    shutil.copytree("/repo/py7zr", os.path.join(d, "py7zr"))
    p = os.path.join(d, "py7zr", f)
    s = open(p).read()
    if s.count(old) != cnt:
        print("anchor count", s.count(old)); sys.exit(2)
    open(p, "w").write(s.replace(old, new))
    code = "import sys; sys.path.insert(0,'.')\nfrom pyvc.run import load_contracts\nfrom pyvc.lemmas import prove_lemmas\nr=load_contracts()\nfor o in prove_lemmas(r.lemmas_for(%r), 20000, False): print(o['name'], o['verdict'], str(o.get('model'))[:200])" % prop
    r = subprocess.run(["python3-vt", "-c", code], cwd=HERE, env=dict(os.environ, VERIF_REPO=d), capture_output=True, text=True, timeout=3000)
    print(r.stdout[-3000:]); print(r.stderr[-600:])
finally:
    shutil.rmtree(d, ignore_errors=True)
