#!/bin/sh
# usage: tools/runall.sh [tier]   -- run every claimed check, print one line per property with exit code and wall time
cd "$(dirname "$0")/.."
tier=${1:-quick}
bad=0
for id in $(python3 -c "import json;print(' '.join(c['property_id'] for c in json.load(open('MANIFEST.json'))['checks']))"); do
  s=$(date +%s)
  out=$(./check $id --tier $tier 2>&1); rc=$?
  e=$(date +%s)
  echo "$id rc=$rc $((e-s))s $(echo "$out" | grep -c '^KNOWN-FINDING') known-findings | $(echo "$out" | grep "^$id \[" | cut -c1-140)"
  [ $rc -ne 0 ] && { bad=1; echo "$out" | grep -v '^  ' | tail -5; }
done
exit $bad
