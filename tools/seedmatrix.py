#!/usr/bin/env python3
"""Detection matrix for the seeded changes (/verif/seeded/<id>/patch.diff).

For every seeded change: copy /repo/py7zr to a scratch directory outside /repo and /verif, apply the patch,
find the functions whose source text changed, and re-verify every contract whose target is one of them
(modularity: a change is noticed through the changed function's own contract) with VERIF_REPO pointing at the
scratch copy.  Prints one line per seed and writes scratch/seed_matrix.json.  The scratch copy is removed.

usage: tools/seedmatrix.py [id-substring ...] [--jobs N] [--full]   (--full: run the whole ./check <prop> instead)
"""
import ast, json, os, shutil, subprocess, sys, tempfile, concurrent.futures as cf

HERE = os.path.dirname(os.path.dirname(os.path.abspath(__file__)))
REPO = "/repo"


def functions(path):
    out = {}
    try:
        src = open(path).read()
        tree = ast.parse(src)
    except Exception:
        return out

    def walk(node, prefix):
        for ch in ast.iter_child_nodes(node):
            if isinstance(ch, (ast.FunctionDef, ast.AsyncFunctionDef)):
                qn = prefix + ch.name
                out[qn] = ast.dump(ch)
                walk(ch, qn + ".")
            elif isinstance(ch, ast.ClassDef):
                # class-level statements other than methods are attributed to "<Class>.<class body>"
                body = [ast.dump(x) for x in ch.body if not isinstance(x, (ast.FunctionDef, ast.AsyncFunctionDef, ast.ClassDef))]
                out[prefix + ch.name + ".<body>"] = "\n".join(body)
                walk(ch, prefix + ch.name + ".")
    walk(tree, "")
    mod_body = [ast.dump(x) for x in tree.body if not isinstance(x, (ast.FunctionDef, ast.AsyncFunctionDef, ast.ClassDef))]
    out["<module>"] = "\n".join(mod_body)
    return out


def changed_functions(d):
    ch = []
    for fn in sorted(os.listdir(os.path.join(REPO, "py7zr"))):
        if not fn.endswith(".py"):
            continue
        a = functions(os.path.join(REPO, "py7zr", fn))
        b = functions(os.path.join(d, "py7zr", fn))
        for q in sorted(set(a) | set(b)):
            if a.get(q) != b.get(q):
                ch.append("py7zr.%s:%s" % (fn[:-3], q))
    return ch


def contract_targets():
    r = subprocess.run(["python3-vt", "-c", "import sys; sys.path.insert(0,'.'); from pyvc.run import load_contracts; r=load_contracts(); import json; print(json.dumps({t:list(c.props) for t,c in r.contracts.items()}))"], cwd=HERE, capture_output=True, text=True)
    return json.loads(r.stdout.strip().split("\n")[-1])


def run_seed(sid, targets_all, full):
    sd = os.path.join(HERE, "seeded", sid)
    meta = json.load(open(os.path.join(sd, "meta.json")))
    d = tempfile.mkdtemp(prefix="seedrepo.")
    res = {"seed": sid, "property": meta.get("property")}
    try:
        shutil.copytree(os.path.join(REPO, "py7zr"), os.path.join(d, "py7zr"))
        p = subprocess.run(["patch", "-p1", "-s", "-i", os.path.join(sd, "patch.diff")], cwd=d, capture_output=True, text=True)
        if p.returncode != 0:
            res["status"] = "patch-failed"
            res["detail"] = (p.stdout + p.stderr)[-300:]
            return res
        ch = changed_functions(d)
        res["changed"] = ch
        # nested functions / class bodies: also try the enclosing function
        cands = set()
        for c in ch:
            mod, qn = c.split(":")
            parts = qn.split(".")
            for k in range(len(parts), 0, -1):
                cands.add(mod + ":" + ".".join(parts[:k]))
        tg = sorted(t for t in targets_all if t in cands)
        res["contracts"] = tg
        env = dict(os.environ, VERIF_REPO=d, VERIF_PROCS="4")
        if full:
            r = subprocess.run(["./check", meta["property"], "--tier", "quick"], cwd=HERE, env=env, capture_output=True, text=True, timeout=3000)
            res["check_rc"] = r.returncode
            res["check_out"] = [l[:300] for l in r.stdout.split("\n") if l.startswith(("VIOLATION", "  failed", "UNDECIDED", "CHECKER", meta["property"] + " ["))][:12]
            res["status"] = {0: "MISSED", 1: "detected", 2: "undecided", 3: "checker-error"}.get(r.returncode, "rc%d" % r.returncode)
            return res
        # lemmas read the source themselves (attribute word, timestamps, placeholder, NUMBER lemmas): run them all
        lem = subprocess.run(["python3-vt", "-c", "import sys; sys.path.insert(0,'.')\nfrom pyvc.run import load_contracts\nfrom pyvc.lemmas import prove_lemmas\nr=load_contracts()\nfor o in prove_lemmas(r.lemmas, 20000, False): print(o['verdict'], o['name'])"], cwd=HERE, env=env, capture_output=True, text=True, timeout=1200)
        lem_bad = sorted({l.split(" ", 1)[1] for l in lem.stdout.split("\n") if l.startswith("refuted ")})
        lem_unk = sorted({l.split(" ", 1)[1] for l in lem.stdout.split("\n") if l.startswith("unknown ")})
        if lem.returncode != 0 and not lem_bad:
            lem_unk.append("lemmas: " + (lem.stderr.strip().split("\n")[-1][:160] if lem.stderr.strip() else "failed"))
        if not tg:
            res["refuted"] = lem_bad[:8]
            res["unknown"] = lem_unk[:8]
            res["status"] = "detected" if lem_bad else ("undecided" if lem_unk else "MISSED-no-contract")
            return res
        args = []
        for t in tg:
            args += ["--contract", t]
        r = subprocess.run(["python3-vt", "-m", "pyvc.run"] + args, cwd=HERE, env=env, capture_output=True, text=True, timeout=3000)
        lines = r.stdout.split("\n")
        refuted = sorted({l.split()[1] for l in lines if l.startswith("     refuted")})
        unknown = sorted({l.split()[1] for l in lines if l.startswith("     unknown")})
        errs = [l[:260] for l in lines if (" error " in l or " undecided " in l) and not l.startswith("     ")]
        refuted = sorted(set(refuted) | set(lem_bad))
        unknown = sorted(set(unknown) | set(lem_unk))
        res["refuted"] = refuted[:8]
        res["unknown"] = unknown[:8]
        res["errors"] = errs[:4]
        own = meta.get("property")
        res["status"] = "detected" if refuted else ("undecided" if (unknown or errs) else "MISSED")
        return res
    except subprocess.TimeoutExpired:
        res["status"] = "timeout"
        return res
    finally:
        shutil.rmtree(d, ignore_errors=True)


def main():
    args = [a for a in sys.argv[1:] if not a.startswith("--")]
    full = "--full" in sys.argv
    jobs = 4
    for i, a in enumerate(sys.argv):
        if a == "--jobs":
            jobs = int(sys.argv[i + 1])
            args = [x for x in args if x != sys.argv[i + 1]]
    seeds = sorted(s for s in os.listdir(os.path.join(HERE, "seeded")) if os.path.isdir(os.path.join(HERE, "seeded", s)))
    if args:
        seeds = [s for s in seeds if any(a in s for a in args)]
    targets_all = contract_targets()
    out = []
    with cf.ThreadPoolExecutor(max_workers=jobs) as ex:
        for r in ex.map(lambda s: run_seed(s, targets_all, full), seeds):
            det = (r.get("refuted") or r.get("check_out") or r.get("unknown") or r.get("errors") or r.get("changed") or [""])
            print("%-7s %-20s contracts=%d  %s" % (r["seed"], r["status"], len(r.get("contracts", [])), " | ".join(det[:2])[:200]), flush=True)
            out.append(r)
    os.makedirs(os.path.join(HERE, "scratch"), exist_ok=True)
    fn = os.path.join(HERE, "scratch", "seed_matrix%s.json" % ("_full" if full else ""))
    json.dump(out, open(fn, "w"), indent=1)
    return 0


if __name__ == "__main__":
    sys.exit(main())
