CLAIMS["C17"] = (
    "Every header primitive of py7zr/archiveinfo.py is proved against a spec function transcribed from docs/archive_format.rst, for all inputs: NUMBER writer/reader for all 2^64 values and all 256 first bytes (non-minimal encodings included), boolean vectors of every length with the all-defined shortcut, UINT32/UINT64/CRC lists, UTF-16 names, and the round-trip lemmas over these contracts. Loops carry inductive invariants, so there is no length bound.",
    "Assumed: the pyvc encoding of Python (cross-checked against CPython on sampled inputs each run), z3/cvc5, CPython's struct/int.to_bytes/bytes semantics, UTF-16 codec facts; whole-header round trips are bounded stand-ins, labelled as such in the evidence.",
    "DESIGN.md 7 (C17)",
)
