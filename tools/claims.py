CLAIMS["C17"] = (
    "Every header primitive of py7zr/archiveinfo.py is proved against a spec function transcribed from docs/archive_format.rst, for all inputs: NUMBER writer/reader for all 2^64 values and all 256 first bytes (non-minimal encodings included), boolean vectors of every length with the all-defined shortcut, UINT32/UINT64/CRC lists, UTF-16 names, and the round-trip lemmas over these contracts. Loops carry inductive invariants, so there is no length bound.",
    "Assumed: the pyvc encoding of Python (cross-checked against CPython on sampled inputs each run), z3/cvc5, CPython's struct/int.to_bytes/bytes semantics, UTF-16 codec facts; whole-header round trips are bounded stand-ins, labelled as such in the evidence.",
    "DESIGN.md 7 (C17)",
)

CLAIMS["C07"] = (
    "Writer conformance as 'declared equals actual' postconditions, proved for all inputs on the real writer functions of py7zr/archiveinfo.py: every NUMBER/UINT32/UINT64/bool-vector/UTF-16 primitive, every file-property record (names, times, attributes, empty-stream, dummy padding: declared size = bytes that follow), counts and layout of FilesInfo; each emitted field is characterised by a spec decoder transcribed from docs/archive_format.rst.",
    "Assumed: pyvc encoding of Python, z3/cvc5, CPython struct/bytes, UTF-16 codec facts, CRC32 as an uninterpreted function; acceptance by an independent reader *program* is differential testing (another family) and is not claimed; whole-header composition is argued from the per-function contracts (DESIGN.md 7).",
    "DESIGN.md 7 (C07)",
)
