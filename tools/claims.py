CLAIMS["C17"] = (
    "Every header primitive of py7zr/archiveinfo.py is proved against a spec function transcribed from docs/archive_format.rst, for all inputs: NUMBER writer/reader for all 2^64 values and all 256 first bytes (non-minimal encodings included), boolean vectors of every length with the all-defined shortcut, UINT32/UINT64/CRC lists, UTF-16 names, and the round-trip lemmas over these contracts. Loops carry inductive invariants, so there is no length bound.",
    "Assumed: the pyvc encoding of Python (cross-checked against CPython on sampled inputs each run), z3/cvc5, CPython's struct/int.to_bytes/bytes semantics, UTF-16 codec facts; whole-header round trips are bounded stand-ins, labelled as such in the evidence.",
    "DESIGN.md 7 (C17)",
)

CLAIMS["C07"] = (
    "Writer conformance as 'declared equals actual' postconditions, proved for all inputs on the real writer functions of py7zr/archiveinfo.py: every NUMBER/UINT32/UINT64/bool-vector/UTF-16 primitive, every file-property record (names, times, attributes, empty-stream, dummy padding: declared size = bytes that follow), counts and layout of FilesInfo; each emitted field is characterised by a spec decoder transcribed from docs/archive_format.rst.",
    "Assumed: pyvc encoding of Python, z3/cvc5, CPython struct/bytes, UTF-16 codec facts, CRC32 as an uninterpreted function; acceptance by an independent reader *program* is differential testing (another family) and is not claimed; whole-header composition is argued from the per-function contracts (DESIGN.md 7).",
    "DESIGN.md 7 (C07)",
)

CLAIMS["C04"] = (
    "'No normal exit without the checksum comparison' obligations, proved on every path of the real functions: SignatureHeader._read (start-header CRC over bytes 12..31), calculate_crc32 (= CRC32 for every block size), Worker._extract_single and Worker._check (every delivered or skipped non-empty member: regular, symlink, junction), Worker.decompress (folder CRC consulted at folder end; delivers exactly the declared size), SevenZipFile.test/_read_digest (each defined pack digest compared at the right offset over exactly its pack size).",
    "Assumed: CRC32 as an uninterpreted function with the streaming homomorphism; its detection power (what a mismatch reveals) and the codecs' behaviour on damaged input are assumptions; orchestration methods are verified in abstract mode (opaque objects, stable-attribute and frame assumptions listed in the evidence). Bit-flip campaigns are fault enumeration (another family) and are not claimed; one BOUNDED stand-in (labelled bounded) alters one byte of a CRC-protected member in 400 archives from an independent writer and requires extraction to fail, testzip() not to report 'no damage' and test() not to certify (found FX27: testzip() returned None when only the folder-level CRC revealed the damage).",
    "DESIGN.md 7 (C04)",
)
CLAIMS["C09"] = (
    "Skip-offset invariant of Worker._extract_single proved for all member lists: bytes consumed so far plus the sizes of the pending unselected members equals the offset of the current member, so every selected member is decoded from its own offset with its declared size; Worker._check consumes exactly the pending members; remove_trailing_slash and the selection predicate of _extract are covered by their contracts where present in the evidence.",
    "Abstract mode for the orchestration (opaque ArchiveFile/pathlib objects with stable attributes); the decoder consumes `size` bytes per call (Worker.decompress contract). Filesystem side only as sink guards (C03).",
    "DESIGN.md 7 (C09)",
)
CLAIMS["C20"] = (
    "Buffer-length contracts: Worker.decompress requests at most min(remaining, memory limit) bytes per step and every non-empty chunk is written out before the next request (proved for all sizes).",
    "Peak memory is a measurement, not a contract: the bounded memory-growth run (Python-level allocations of 320 / 640 MiB members, LZMA2 / ZStandard / Deflate) stands in for it and found FX25 / FX26 (ZStandard and Deflate decoders ignored max_length; repaired). Open finding F26: the Brotli and Deflate64 decoders still ignore max_length (a 771-byte Brotli archive makes extraction allocate 1 GiB). C-level encoder / decoder state is not traced.",
    "DESIGN.md 7 (C20)",
)

CLAIMS["C13"] = (
    "Sequential part of the property as contracts: Worker.extract_single never raises when an exception queue is given and queues every exception exactly once, otherwise propagates it; Worker.extract hands every selected folder to exactly one worker with the file *name* (own handle), the right member list and offsets, the exception queue and the skip flag, and consults the queue before returning normally.",
    "Schedules (interleavings of workers, concurrent SevenZipFile objects) have no semantics in any verifier available here; a bounded schedule perturbation (first thread held back at mkdir / open / utime, output compared with the sequential result, damaged archives must raise) stands in, labelled bounded. Thread/Process/Queue behave as their documented contracts (assumed). Known finding F05: with mp=True worker errors are lost (Process copies the queue).",
    "DESIGN.md 7 (C13)",
)

CLAIMS["C15"] = (
    "Exceptional postconditions (strong exception safety) proved on writestr/writef/_writestr/_writef/write: every rejection raised by these methods themselves (bad name, unsupported stream/data type) happens before any member list is touched; an accepted member is appended to all three member lists and archived once; for write() every exception raised before Worker.archive leaves the lists unchanged.",
    "Abstract mode (opaque objects; list.append does not raise). Known finding F06: write() registers the member before Worker.archive opens the source. A source failing midway through being read is only covered by the C04 guards.",
    "DESIGN.md 7 (C15)",
)
CLAIMS["C16"] = (
    "check_archive_path proved equivalent to the independent definition for ALL names (fold over pathlib parts with a depth invariant, both directions incl. a witness for rejections): accept iff not absolute and the lexical depth never goes negative; writestr/writef proved to reject with ValueError before any state change exactly when the check fails and to delegate otherwise.",
    "pathlib's parser (parts / is_absolute as functions of the string) is an assumed contract; _sanitize_archive_arcname (write/writeall path) is covered where listed in the evidence, else excluded.",
    "DESIGN.md 7 (C16)",
)


CLAIMS["C19"] = (
    "Volume-size grammar proved for every string: a size matching the documented pattern (digits, optional unit b/k/m/g in either case, unit optional) converts without exception to number x unit factor (the factors of the help text), everything else is rejected; exit-status guards proved on every path of run_test/run_extract: status 0 only after is_7zfile, opening and testzip()/extractall() completed without an exception and testzip() found nothing; every handled exception yields a non-zero status.",
    "`re` on the literal pattern and int() of ASCII digits are assumed contracts; the behaviour of c/x/l/a themselves is the library's (C02, C08, C10) and is not re-proved; run_create/run_append/_run_list are outside the contracts unless listed in the evidence.",
    "DESIGN.md 7 (C19)",
)

CLAIMS["C12"] = (
    "Typestate contracts of the read session, proved on the real methods: reset() re-positions the file, installs a new worker and leaves NO folder with a cached decoder (quantified over all folders, loop invariant); testzip() starts decoding from fresh decoders at the start of the packed streams, decodes every member and uses the parallel path only for archives opened by name; test() touches no decoder and compares every defined pack digest over the right byte range; close() in read mode has no write effect on the archive.",
    "Abstract mode (opaque objects; attribute stores tracked by a write log, unknown callees havoc it); equality of *results* across sessions additionally needs determinism of the codecs (assumed). Fixed defects FX03/FX04 are recorded in known_findings.json.",
    "DESIGN.md 7 (C12)",
)


CLAIMS["C03"] = (
    "Contracts on every function between a member name and a filesystem effect: canonical_path (no '..' survives below an absolute root, root kept), is_relative_to / is_path_valid (lexical containment against the cwd-joined destination), get_sanitized_output_path (result lexically inside the destination or a relative path without '..' for path=None), SevenZipFile._extract (every path registered with the worker, pre-created, re-timed or re-moded is such a result; the destination handed over is absolute), Worker._extract_single (every mkdir/open/touch/unlink/symlink_to acts on the registered path or its parent AFTER the resolved parent was checked against the resolved destination; a link is only created after its resolved target passed the same check).",
    "The filesystem itself (what Path.resolve() returns, that mkdir/open act where the resolved path says) and pathlib's parser are assumed contracts; concurrent creation of links by parallel folder workers between check and use has no semantics in this family and is excluded; pre-existing links in the destination are outside the property's quantifier. A BOUNDED stand-in (labelled bounded) runs the lexical gates on every name of up to 4 components over a small alphabet against 8 destinations with os.path.normpath + component-wise containment as the oracle (catches sibling-prefix confusions such as commonprefix).",
    "DESIGN.md 7 (C03)",
)

CLAIMS["C02"] = (
    "The metadata codec of the tree round trip, proved on the real source for all values: (i) attribute word - for every st_mode and every combination of is_symlink/is_dir/is_file/dereference the POSIX branch of _make_file_info produces a 32-bit word from which ArchiveFile.is_directory/is_symlink/posix_mode recover the member kind (link unless dereferenced, else what it points to) and exactly S_IMODE(st_mode); directories and only directories are empty streams (bit-vector VCs generated from the AST, pyvc.bvexec); (ii) timestamps - for every double t in 1970..2100 totimestamp(from_datetime(t)) differs from t by at most 5 microseconds and the FILETIME fits 64 bits (rounding-error VC generated from the AST, pyvc.floatvc); (iii) SevenZipFile._extract post-pass - every stored modification time is handed to os.utime (also the epoch itself), chmod/utime act only on registered outputs.",
    "Not decided: reproduction of a real directory tree (os.listdir/lstat/utime/chmod/symlink effects, _writeall walk, link-target text), the shutil/CLI front ends, non-Linux platform branches of _make_file_info. Float semantics: IEEE-754 binary64 round-to-nearest error model (assumption, stated in pyvc/floatvc.py).",
    "DESIGN.md 7 (C02), 11",
)



CLAIMS["C05"] = (
    'Termination (loop variants) and progress obligations proved per function of the read path: read_boolean/read_utf16 (bounded by count / MAX_LENGTH), read_uint64 and the fixed-width readers (strict progress), PackInfo._read (every count-driven loop runs at most once per consumed byte: post#work-bounded-by-input; streams without sizes are rejected), SubstreamsInfo._read (loop invariants), UnpackInfo._retrieve_coders_info and FilesInfo._read (each record confined to its declared size, padding skipped by exactly its size), Header._read (an encoded header is decoded at most once - no nesting), Worker.decompress (lexicographic variant: bytes to deliver, packed bytes left, stalls allowed), SevenZipFile._read_digest, AESDecompressor.__init__ (the key-derivation work factor taken from the archive is bounded by 2**24 rounds before the KDF runs).',
    'Wall-clock/RSS bounds and crashes inside C extensions are not contracts; a BOUNDED corpus of 16 hostile headers (counts of 2**36 / 2**40, self-referential encoded headers, ...) run under RLIMIT_AS = 1.5 GiB and a watchdog stands in for them, labelled bounded. It found FX24 (FilesInfo._read / SubstreamsInfo._read allocated per DECLARED count; repaired: counts are compared with remaining_size(), now a contract and two postconditions). Folder._read is not under contract.',
    'DESIGN.md 7 (C05), 11',
)

CLAIMS["C06"] = (
    "Reader conformance as contracts against the 7z format: header primitives for all encodings (C17 contracts), SignatureHeader._read, PackInfo._read (pack position, sizes, Digests structure with one CRC per DEFINED digest, END marker position, prefix-sum pack positions, for every count - ghost cut offsets over the input bytes), SubstreamsInfo._read (loop invariants over all folders / substreams: sizes from the Size record with the remainder rule, folders without streams, digest hand-out between folder-level CRCs and the record with the running record index pinned), UnpackInfo._retrieve_coders_info, FilesInfo._read (record walk) with _read_name / _read_times / _read_attributes (member k gets the k-th stored value, undefined stays undefined), Header._read, SevenZipFile._real_get_contents (header parsed only after its CRC matched; members appended in header order and to their folder's list under their own index; a member's digest is present exactly when its OWN defined flag is set; password flag from every folder), _get_fileinfo_sizes, ArchiveFileList (ids), Worker.extract / extract_single (every folder with members gets exactly one decoding task at afterheader + pack position + packpositions[i]).",
    'StreamsInfo.read is under contract (sections in format order, each reader chosen by the id just read, SubStreamsInfo parsed against the folders just read or defaulted from memory, own rejections only for an id that may not follow). Not under contract: Folder._read, UnpackInfo._read (outer part), the `return self` of PackInfo._read (PackInfo.retrieve returns what that reader returns - under contract; the retrieve class methods of StreamsInfo / UnpackInfo / SubstreamsInfo / FilesInfo / Folder are under contract: they return the object they instantiate after one run of its reader), SevenZipDecompressor.__init__ (chain selection), FilesInfo._read_start_pos (observed: its assert compares bytes with an int). The exit clauses of SubstreamsInfo._read that restate the invariants over the whole section are drafted but not discharged (disabled, DESIGN.md 11). The folder/stream arithmetic of _real_get_contents is covered by per-iteration trace obligations, not by one inductive invariant. Two BOUNDED stand-ins (labelled bounded) exercise the junctions no contract covers: 3000 seeded MainStreamsInfo sections and 400 seeded whole archives written by an independent encoder / COPY-coder writer must be read back exactly as described. Codec libraries and third-party writers are assumed to follow their contracts. Genuine defects found and repaired: FX11-FX16, FX18, FX19, FX23 (folder CRC of a multi-member folder compared too early), FX28., FX30 (directory entries of archives that store no attributes were extracted as empty files). FilesInfo._mark_directories is not under contract (exercised by the bounded reference archives, which are drawn with and without attributes).',
    'DESIGN.md 7 (C06), 11',
)

CLAIMS["C08"] = (
    "Append as contracts on the real code: SubstreamsInfo.write (exact layout for every folder/stream count: NumUnpackStream record iff some folder differs from one, a size NUMBER for every substream except the last of its folder with the cursor over ALL substreams, Digests structure with one CRC per defined digest, END) and PackInfo.write proved byte-exactly with ghost cut offsets; UnpackInfo.write (section skeleton, every folder once, no extra records); FilesInfo writers (C07); Header.initialize in append mode adds exactly one folder at the end, bumps the folder count and appends a zero stream counter, touching nothing else; Worker._after_write appends one size/CRC/flag and increments the LAST folder's counter; Worker.archive archives exactly the member at the cursor and advances it by one; Worker.flush_archive records exactly one pack stream; Worker.__init__ starts the cursor behind the existing members; _prepare_append positions the file at afterheader + pack position + total packed size; the read side (PackInfo._read, SubstreamsInfo._read, FilesInfo readers).",
    'BOUNDED stand-in (labelled bounded in the evidence, not counted as proved): every 2-session history with up to 2 members per session over file / zero-length file / directory / zero-length writestr plus 100 seeded 3-session histories is run on the real code each quick run (all 3-session histories in the thorough tier). Otherwise histories are not enumerated: each session is the same code under the same contracts and the member list after a session is old ++ new by these per-call contracts (written argument, DESIGN.md 7). A second bounded stand-in re-serialises 3000 seeded stream sections with the real StreamsInfo.write and reads them back (found FX22: PackInfo.write indexed the pack CRCs by stream although they are kept per defined digest). StreamsInfo.write is under contract (id, the present sections once in format order into the same stream, END); Folder.write is not. Genuine defects found and repaired: FX11, FX12, FX15, FX16, FX17, FX19, FX22. Open finding F30: appending to an archive from another writer drops the creation times and empty-file flags of the members already there (FilesInfo.write emits only LastWriteTime).',
    'DESIGN.md 7 (C08), 11',
)

CLAIMS["C10"] = (
    "Listing functions as folds over the member list, proved for archives of any size: namelist/getnames return filename(member k) at position k; getinfo returns the first member whose name equals the query minus one trailing slash and raises KeyError exactly when no member has it; list() builds exactly one FileInfo per member, in order, from that member's own name and from the same uncompressed/crc32/is_directory fields that extraction enforces (C04/C09); ArchiveFile.crc32 is the stored digest whatever its value (0 included) and None only when absent; _is_solid is true exactly when some folder holds several members; needs_password() reports the flag that _real_get_contents computes from EVERY folder's coder chain.",
    'Abstract mode (opaque ArchiveFile objects with stable attributes). The archive summary: archiveinfo() is under contract (total = sum of the members\' sizes, 0 without members; names / solid flag from the helpers; block count = folder count, 0 without data streams; fails only in stat or the name table), _get_method_names passes the coders of EVERY folder, the name tables of get_methods_names are a lemma over the literal tables (every method name has a place in the display order). The loops of get_methods_names (list of lists of dicts) are outside the engine: BOUNDED enumeration of coder arrangements, and listings of 400 archives from an independent writer, both labelled bounded. Genuine defects found and repaired: FX20 (Delta / Brotli dropped from the summary), FX21 (archiveinfo() failed on archives without data streams). archiveinfo() needs a file name (asserts on stream-opened archives): observed, not claimed.',
    'DESIGN.md 7 (C10), 11',
)

CLAIMS["C11"] = (
    "Encryption plumbing as contracts on the real code: AESCompressor.compress/flush and AESDecompressor.decompress proved for EVERY sequence of chunk sizes (every plaintext/ciphertext byte reaches the cipher exactly once, in order, in whole blocks; fewer than 16 bytes pending; zero padding on flush; the returned bytes are exactly the cipher's output - no plaintext path); AESCompressor.__init__ draws a fresh 16-byte IV during construction, hands exactly that value to the cipher and keeps it for the coder properties, and derives the key with the cycles/salt it announces; AESDecompressor.__init__ uses the stored cycles/salt/IV; a password (also the empty string) without explicit filters selects the encrypting default chain; header-encryption flag plumbing (set_encrypted_header / set_encoded_header_mode / _write_header forwards both flags); needs_password reports the reader's flag.",
    'Assumed: AES-CBC (Cryptodome) as a stream function, SHA-256/KDF strength, randomness of get_random_bytes, and that a wrong key yields bytes whose CRC differs (probability 2^-32). Secrecy of ciphertext and absence of plaintext in produced bytes as an *observation* are not contracts. Header.write/_encode_header and the KDF batching are not under contract.',
    'DESIGN.md 7 (C11), 11',
)

CLAIMS["C14"] = (
    "Placeholder signature header = (1,2,3,4) proved byte-exactly on SignatureHeader._write_skeleton and written FIRST by _prepare_write (before the data area is located), final signature header layout and CRC proved on calccrc/write (written at offset 0), reader proved to accept only a matching start-header CRC, lemma: the placeholder bytes can never satisfy the reader's postcondition; close()/_write_flush/_write_header commit order; _prepare_append starts behind the existing packed streams (>= 32).",
    'Torn writes inside the final 32 bytes, dropped/reordered buffered blocks and stale-header collisions depend on CRC32 collision freeness and a storage model: excluded (not decidable in this family).',
    'DESIGN.md 7 (C14), 11',
)

CLAIMS["C18"] = (
    "Ghost event-trace contracts proved on the sequential code: per processed member exactly one start event first and one end event last carrying the member's name and size (Worker._extract_single); update events carry the bytes decoded since the last update and sum to the member size (Worker.decompress loop invariant); members that are only decoded to be skipped report nothing (no reporter queue on the _check path); pre first / post last (_extract); close() returns only after the reporter finished.",
    'Interleavings of worker threads with the reporter thread and the 1 s join timeout are outside this family (no thread semantics in any verifier available here) and are excluded from the claim. A BOUNDED stand-in (labelled bounded) extracts 28 archives with a callback under a controlled clock (time.time / monotonic advance by a fixed step per call, so the pacing fires inside a member) and checks the whole account against the statement.',
    'DESIGN.md 7 (C18), 11',
)

CLAIMS["C01"] = (
    "Links of the round trip proved for all inputs on py7zr's own code: AES residue buffering for every chunking (also I/O block sizes below 16), SevenZipCompressor.compress / unpacksizes, SevenZipDecompressor.decompress/_decompress/_read_data, CRC accumulation (calculate_crc32 for every block size), Worker.decompress delivers exactly the declared size and writes every decoded chunk once in order, member ids (ArchiveFileList: every member keeps its archive-wide id inside its folder's list), writestr/writef members always occupy a substream, Worker.archive / _after_write bookkeeping, names in stored order (namelist), the commit protocol of close() (every creating mode writes the header, incl. mode 'x').",
    'Codecs (lzma, bz2, zlib, zstd, ppmd, brotli, bcj), AES-CBC and CRC32 are assumed stream transducers; end-to-end chaining of the proved links is a written argument (DESIGN.md 7), not one theorem. The name codecs (write_utf16 / read_utf16, FilesInfo._write_names / _read_name) are part of this check. Where the transducer assumption was false the round trip broke on the unchanged tree: FX29 ([Brotli, 7zAES] could not be read back - the AES stage handed its zero padding to a decoder that rejects trailing bytes; repaired, every stage is cut to its declared size).',
    'DESIGN.md 7 (C01), 11',
)

TECH_EXTRA["C02"] = "; the attribute-word and timestamp obligations are VCs generated from the AST by pyvc/bvexec.py (bit-vectors) and pyvc/floatvc.py (real arithmetic with a stated binary64 rounding-error model), discharged by z3"
TECH_EXTRA["C08"] = "; plus two BOUNDED stand-ins on the real code (create/append histories; stream sections rewritten and read back against an independent encoder), labelled bounded, never counted as proved"
TECH_EXTRA["C06"] = "; plus two BOUNDED stand-ins on the real code (stream sections and whole archives written by an independent encoder / COPY-coder writer), labelled bounded, never counted as proved"
TECH_EXTRA["C07"] = "; plus one BOUNDED stand-in (stream sections re-serialised by the real writer and read back against the description they came from), labelled bounded"
TECH_EXTRA["C03"] = "; plus one BOUNDED stand-in (exhaustive small path names against an os.path oracle), labelled bounded"
TECH_EXTRA["C16"] = "; plus one BOUNDED stand-in (exhaustive small archive names against a lexical oracle), labelled bounded"
TECH_EXTRA["C04"] = "; plus one BOUNDED stand-in (one altered byte in archives from an independent writer), labelled bounded"
TECH_EXTRA["C05"] = "; plus one BOUNDED stand-in (a fixed corpus of hostile headers under an address-space limit and a watchdog), labelled bounded"
TECH_EXTRA["C10"] = "; the name tables of get_methods_names are a lemma decided by evaluating the literal tables of the source; plus two BOUNDED stand-ins (listing of archives from an independent writer, enumeration of coder arrangements), labelled bounded"
TECH_EXTRA["C13"] = "; plus one BOUNDED stand-in (thread-parallel extraction with the first thread held back at mkdir/open/utime), labelled bounded - schedules themselves have no semantics in this family"
TECH_EXTRA["C18"] = "; plus one BOUNDED stand-in (callback account under a controlled clock), labelled bounded"
TECH_EXTRA["C20"] = "; plus one BOUNDED stand-in (tracemalloc peak for 320 / 640 MiB members must not grow with the member), labelled bounded - a measurement, not a proof"
