#!/usr/bin/env python3
"""Regenerate the seeded-change table of DESIGN.md section 11.5 from scratch/seed_matrix.json (+ seed_matrix_full.json
for the rows that were re-run with the whole property check)."""
import json, os, re
HERE = os.path.dirname(os.path.dirname(os.path.abspath(__file__)))
mat = {r["seed"]: r for r in json.load(open(os.path.join(HERE, "scratch", "seed_matrix.json")))}
full = {}
p = os.path.join(HERE, "scratch", "seed_matrix_full.json")
if os.path.exists(p):
    full = {r["seed"]: r for r in json.load(open(p))}
extra = os.path.join(HERE, "scratch", "seed_matrix_full_all.json")
if os.path.exists(extra):
    full.update({r["seed"]: r for r in json.load(open(extra))})
rows = []
def key(s):
    a, b = s.split("-")
    return (a, int(b))
for seed in sorted(mat, key=key):
    r = mat[seed]
    meta = json.load(open(os.path.join(HERE, "seeded", seed, "meta.json")))
    st = r["status"]
    what = (r.get("refuted") or r.get("unknown") or r.get("errors") or [""])[0]
    f = full.get(seed)
    if st != "detected" and f is not None:
        line = " ".join(f.get("check_out", []))
        m = re.search(r"replays/C\d+/([^ ]+)\.json", line)
        if f["status"] == "detected":
            st = "detected (whole check)"
            what = (m.group(1) if m else "") + (" - replayed failing input on the real code" if "no-failing-input-found" not in line else "")
        else:
            st = f["status"] + " (whole check)"
    fn = ", ".join(meta.get("functions", []))[:70].replace("|", "/")
    rows.append("| %s | %d | %s | %s | %s |" % (seed, meta.get("round", 1), fn, st, str(what).replace("|", "/")[:120]))
table = "| seed | round | changed function(s) | result | first failing obligation |\n|---|---|---|---|---|\n" + "\n".join(rows)
counts = {}
for seed in mat:
    r = mat[seed]
    st = r["status"]
    f = full.get(seed)
    if st != "detected" and f is not None and f["status"] == "detected":
        st = "detected"
    counts[st] = counts.get(st, 0) + 1
summary = "Totals over %d seeded changes: " % len(mat) + ", ".join("%s %d" % (k, v) for k, v in sorted(counts.items())) + "."
d = open(os.path.join(HERE, "DESIGN.md")).read()
a, b = "<!-- MATRIX-BEGIN -->", "<!-- MATRIX-END -->"
if a in d:
    d = d[: d.index(a) + len(a)] + "\n" + summary + "\n\n" + table + "\n" + d[d.index(b):]
    open(os.path.join(HERE, "DESIGN.md"), "w").write(d)
    print(summary)
else:
    print("markers missing")
