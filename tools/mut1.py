#!/usr/bin/env python3
"""quick single mutant: tools/mut1.py <file under py7zr/> <old> <new> <target>...   (scratch copy, removed afterwards)"""
import os, shutil, subprocess, sys, tempfile
HERE = os.path.dirname(os.path.dirname(os.path.abspath(__file__)))
f, old, new = sys.argv[1:4]
d = tempfile.mkdtemp(prefix="mutrepo.")
try:
    shutil.copytree("/repo/py7zr", os.path.join(d, "py7zr"))
    p = os.path.join(d, "py7zr", f)
    s = open(p).read()
    if s.count(old) != 1:
        print("anchor count", s.count(old)); sys.exit(2)
    open(p, "w").write(s.replace(old, new))
    args = []
    for t in sys.argv[4:]:
        args += ["--contract", t]
    r = subprocess.run(["python3-vt", "-m", "pyvc.run"] + args, cwd=HERE, env=dict(os.environ, VERIF_REPO=d), capture_output=True, text=True, timeout=3000)
    print("\n".join(l[:220] for l in r.stdout.split("\n")[:14]))
    print(r.stderr[-500:])
finally:
    shutil.rmtree(d, ignore_errors=True)
