#!/usr/bin/env python3
"""write the outcome of the last seed matrix (scratch/seed_matrix.json, scratch/seed_matrix_full.json) into the
`detected_by` field of every seeded/<id>/meta.json"""
import json, os, re
HERE = os.path.dirname(os.path.dirname(os.path.abspath(__file__)))
mat = {r["seed"]: r for r in json.load(open(os.path.join(HERE, "scratch", "seed_matrix.json")))}
full = {}
p = os.path.join(HERE, "scratch", "seed_matrix_full.json")
if os.path.exists(p):
    full = {r["seed"]: r for r in json.load(open(p))}
n = 0
for seed, r in mat.items():
    mp = os.path.join(HERE, "seeded", seed, "meta.json")
    m = json.load(open(mp))
    if r["status"] == "detected":
        m["detected_by"] = {"level": "contracts of the changed function(s) + lemmas", "first_failing_obligation": (r.get("refuted") or [""])[0]}
    elif seed in full and full[seed]["status"] == "detected":
        line = " ".join(full[seed].get("check_out", []))
        mm = re.search(r"replays/C\d+/([^ ]+)\.json", line)
        m["detected_by"] = {"level": "whole property check (./check %s)" % m.get("property"), "replay": mm.group(1) if mm else "", "bounded_stand_in": bool(mm and mm.group(1).startswith("bounded_"))}
    else:
        st = full.get(seed, r)["status"]
        m["detected_by"] = None
        m["not_detected"] = st + ((": " + " ".join(full.get(seed, {}).get("check_out", [])[-1:])[:300]) if seed in full else "")
    json.dump(m, open(mp, "w"), indent=1)
    n += 1
print("updated", n)
