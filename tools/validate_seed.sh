#!/bin/bash
# usage: validate_seed.sh <ID> <n>   validates /tmp/seedout/<ID>/change<n> in a fresh scratch worktree of /repo HEAD
ID=$1; N=$2
SRC=${SEEDOUT:-/tmp/seedout}/$ID/change$N
WT=/tmp/val/${ID}_$N
OUT=/tmp/val/result_${ID}_$N.json
mkdir -p /tmp/val
rm -rf "$WT"; git -C /repo worktree prune
git -C /repo worktree add -q --detach "$WT" HEAD || exit 1
cd "$WT"
cp "$SRC/demo.py" ./demo_seed.py
orig_rc=0; timeout 300 /venv/bin/python demo_seed.py > /tmp/val/${ID}_$N.orig.log 2>&1 || orig_rc=$?
apply_ok=1; git apply "$SRC/patch.diff" 2>/tmp/val/${ID}_$N.apply.log || apply_ok=0
tests="skipped"; mut_rc=-1
if [ $apply_ok = 1 ]; then
  timeout 1500 /venv/bin/python -m pytest -q -p no:cacheprovider --timeout=900 -x tests > /tmp/val/${ID}_$N.tests.log 2>&1; trc=$?
  tests=$(grep -E "passed|failed" /tmp/val/${ID}_$N.tests.log | tail -1)
  mut_rc=0; timeout 300 /venv/bin/python demo_seed.py > /tmp/val/${ID}_$N.mut.log 2>&1 || mut_rc=$?
fi
cd /
git -C /repo worktree remove --force "$WT"
python3 - <<PY
import json
json.dump({"id":"$ID","n":$N,"apply_ok":$apply_ok,"orig_rc":$orig_rc,"mut_rc":$mut_rc,"tests":"""$tests""".strip()}, open("$OUT","w"))
PY
